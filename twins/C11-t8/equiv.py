#!/usr/bin/env python
"""Equivalence script, property C11 (variable groups: index <-> identifier).

Run as:  cd <checkout> && /venv/bin/python equiv.py

Prints a single SHA256 digest of everything observable produced by the
variable groups of cnfgen (identifiers, legal indices, labels, inverse maps,
wildcard patterns, rejected indices with exception type and message) and by
formulas built by interleaving group creation, clause insertion and explicit
raises of the variable count (variable names, DIMACS and LaTeX output).

Main focus: blocks of variables (BlockOfVariables.__init__: legal shapes,
empty ranges, and the rejection of illegal ranges and labels); the other
group shapes are exercised too.
"""
import hashlib
import itertools
import os
import random
import sys

sys.path.insert(0, os.getcwd())

from cnfgen.formula.cnf import CNF
from cnfgen.formula.basecnf import BaseCNF
from cnfgen.formula.variables import (
    VariablesManager, BlockOfVariables, WordOfIndicesVariables,
    BipartiteEdgesVariables, DiGraphEdgesVariables, GraphEdgesVariables,
    BinaryMappingVariables, SingletonVariableGroup)
from cnfgen.graphs import (Graph, DirectedGraph, BipartiteGraph,
                           CompleteBipartiteGraph)

H = hashlib.sha256()
NREC = [0]
PLAIN = (int, str, float, bool, type(None))


def flat(r):
    """Turn any result into plain data, keeping the container kind"""
    if isinstance(r, PLAIN):
        return r
    if isinstance(r, tuple):
        return ('tuple', [flat(x) for x in r])
    if isinstance(r, list):
        return ('list', [flat(x) for x in r])
    if isinstance(r, dict):
        return ('dict', [(flat(k), flat(v)) for k, v in r.items()])
    if isinstance(r, range):
        return ('range', r.start, r.stop, r.step)
    return ('iter', [flat(x) for x in r])


def emit(*items):
    H.update(repr(items).encode('utf-8'))
    H.update(b'\n')
    NREC[0] += 1


def probe(tag, thunk):
    try:
        emit(tag, 'ok', flat(thunk()))
    except Exception as err:  # noqa
        emit(tag, 'exc', type(err).__name__, str(err))


def new_formula(start=0, cls=CNF):
    F = cls()
    if start:
        F.update_variable_number(start)
    return F


def show_formula(tag, F):
    probe(tag + '/n', F.number_of_variables)
    probe(tag + '/m', F.number_of_clauses)
    probe(tag + '/str', lambda: str(F))
    probe(tag + '/names', lambda: F.all_variable_labels())
    probe(tag + '/names-fmt', lambda: F.all_variable_labels('v<{}>'))
    probe(tag + '/names-kw', lambda: F.all_variable_labels(default_label_format='k'))
    probe(tag + '/clauses', lambda: [c for c in F])
    probe(tag + '/debug', lambda: F.debug())
    if hasattr(F, 'to_dimacs'):
        probe(tag + '/dimacs', lambda: F.to_dimacs(export_varnames=True))
        probe(tag + '/latex', F.to_latex)


def show_group(tag, vg, arity, top, more=()):
    """All the observables of a variable group"""
    probe(tag + '/len', lambda: len(vg))
    probe(tag + '/ids', lambda: [x for x in vg])
    probe(tag + '/idrange', lambda: vg.ids)
    probe(tag + '/indices', lambda: vg.indices())
    probe(tag + '/call', lambda: vg())
    probe(tag + '/label', lambda: vg.label())
    probe(tag + '/dict', lambda: vg.to_dict())
    probe(tag + '/fmt', lambda: vg.labelfmt)
    ids = list(vg)
    nv = vg.parent_formula().number_of_variables()
    lo = ids[0] if ids else nv + 1
    hi = ids[-1] if ids else nv
    for var in range(max(lo - 2, 0), hi + 3):
        for lit in (var, -var):
            probe('%s/inv%d' % (tag, lit), lambda: vg.to_index(lit))
            probe('%s/has%d' % (tag, lit), lambda: lit in vg)
    # contiguity, order and round trip
    try:
        legal = [tuple(t) for t in vg.indices()]
    except Exception:  # noqa
        legal = None
    if legal is not None:
        emit(tag + '/count-agrees', len(legal) == len(ids))
        for pos, idx in enumerate(legal):
            def roundtrip():
                vid = vg(*idx)
                return (vid, vg.label(*idx), vg.to_index(vid),
                        vg.to_index(-vid), pos < len(ids) and ids[pos] == vid)
            probe('%s/rt%r' % (tag, idx), roundtrip)
    # patterns: wildcards, boundary and illegal values, wrong arities
    vals = [None] + list(range(-1, top + 2))
    if arity is not None:
        for ar in sorted({max(arity - 1, 0), arity, arity + 1}):
            if ar > 3:
                continue
            for pat in itertools.product(vals, repeat=ar):
                probe('%s/I%r' % (tag, pat), lambda: vg.indices(*pat))
                probe('%s/C%r' % (tag, pat), lambda: vg(*pat))
                probe('%s/L%r' % (tag, pat), lambda: vg.label(*pat))
    for pat in more:
        probe('%s/xI%r' % (tag, pat), lambda: vg.indices(*pat))
        probe('%s/xC%r' % (tag, pat), lambda: vg(*pat))
        probe('%s/xL%r' % (tag, pat), lambda: vg.label(*pat))


ODD = [('a', 1), (1, 'a'), ('a', None), (None, 'a'), (1.0, 1.0), (1.5, None),
       (None, 0.5), (True, False), (True, None), ((1, 1), ), ([1, 1], ),
       (1, 1, 1), (None, None, None), (1, )]

# ------------------------------------------------------------ binary mappings
for start in (0, 3):
    for n in (0, 1, 2, 3, 5):
        for m in (0, 1, 2, 3, 4, 5, 8, 9):
            F = new_formula(start)
            tag = 'bin[%d,%d,%d]' % (start, n, m)
            try:
                f = F.new_binary_mapping(n, m, label='b({},{})')
            except Exception as err:  # noqa
                emit(tag, 'exc', type(err).__name__, str(err))
                continue
            probe(tag + '/bits', f.bits)
            probe(tag + '/domain', f.domain)
            probe(tag + '/range', f.range)
            probe(tag + '/flips', lambda: f.flips)
            show_group(tag, f, 2, max(n, f.bits()), ODD)
            for i in range(0, n + 2):
                for j in range(-1, 2 ** f.bits() + 2):
                    probe('%s/forbid%d,%d' % (tag, i, j), lambda: f.forbid(i, j))
            show_formula(tag, F)

for args in [(-1, 2), (2, -1), (-1, -1), ('a', 2), (2, 'a'), (2.0, 4), (2, 4.0),
             (None, 2), (2, None), (True, 3)]:
    for direct in (False, True):
        F = new_formula(2)
        tag = 'binbad%r%s' % (args, direct)
        try:
            if direct:
                f = BinaryMappingVariables(F, *args)
            else:
                f = F.new_binary_mapping(*args)
            emit(tag, 'ok', len(f), list(f))
            show_group(tag, f, 2, 2)
        except Exception as err:  # noqa
            emit(tag, 'exc', type(err).__name__, str(err))
        show_formula(tag, F)

for label in ('{}', '{}{}{}', 'plain', '{0}-{1}', '{1}', '{x}', 7, None):
    F = new_formula(1)
    tag = 'binlabel%r' % (label, )
    try:
        f = F.new_binary_mapping(2, 3, label=label)
        show_group(tag, f, 2, 2)
    except Exception as err:  # noqa
        emit(tag, 'exc', type(err).__name__, str(err))
    show_formula(tag, F)

# default label and standalone manager on a BaseCNF
F = BaseCNF()
V = VariablesManager(F)
f = V.new_binary_mapping(3, 6)
show_group('bin-default', f, 2, 3)
probe('bin-default/names', lambda: V.all_variable_labels())

# --------------------------------------------------------------- other groups
for start in (0, 4):
    F = new_formula(start)
    x = F.new_variable(label='X')
    y = F.new_variable()
    emit('single', start, x, y)
    for pos, g in enumerate(F._groups):
        show_group('single[%d]%d' % (start, pos), g, 0, 1, [(None, ), (1, )])
    show_formula('single[%d]' % start, F)

SHAPES = [(0, ), (1, ), (3, ), (2, 3), (3, 0), (0, 2), (2, 1, 2), (2, 0, 2),
          (2, 2, 2, 2), (), (-1, 2), (2, -1), (1.0, 2), ('a', ), (2, 'a'),
          (None, ), (True, 2), ([2, 3], )]
for start in (0, 2):
    for shape in SHAPES:
        for label in (None, 'b<' + '|'.join(['{}'] * len(shape)) + '>',
                      '{}{}{}{}{}', 'nofield'):
            F = new_formula(start)
            tag = 'block[%d]%r%r' % (start, shape, label)
            try:
                b = F.new_block(*shape, label=label)
            except Exception as err:  # noqa
                emit(tag, 'exc', type(err).__name__, str(err))
                show_formula(tag, F)
                continue
            top = max([r for r in shape if isinstance(r, int)] or [1])
            show_group(tag, b, len(shape), min(top, 3))
            probe(tag + '/weights', lambda: (b.weights, b.N, b.offset, b.ranges))
            show_formula(tag, F)

for ranges in ([2, 3], (2, 3), [], [0], [2, -3], [2, 2.5], 'ab', [True, True]):
    for label in (None, 'q{}{}'):
        F = BaseCNF()
        F.update_variable_number(3)
        tag = 'blockdirect%r%r' % (ranges, label)
        try:
            b = BlockOfVariables(F, ranges, label)
            emit(tag, 'ok', len(b), list(b), b.weights, b.N, b.offset)
            show_group(tag, b, len(ranges), 3)
        except Exception as err:  # noqa
            emit(tag, 'exc', type(err).__name__, str(err))

for kind in ('combinations', 'combinations_with_replacement', 'permutations',
             'words'):
    for n, k in [(0, 0), (0, 1), (1, 0), (3, 2), (2, 3), (3, 3), (4, 1)]:
        F = new_formula(2)
        tag = '%s[%d,%d]' % (kind, n, k)
        try:
            w = getattr(F, 'new_' + kind)(n, k, label='w({})')
        except Exception as err:  # noqa
            emit(tag, 'exc', type(err).__name__, str(err))
            continue
        show_group(tag, w, k if k <= 2 else None, n, [(1, 2, 3), (3, 2, 1)])
        show_formula(tag, F)


def bipartite(L, R, edges):
    B = BipartiteGraph(L, R)
    for u, v in edges:
        B.add_edge(u, v)
    return B


BIPS = [(0, 0, []), (2, 0, []), (0, 2, []), (2, 2, []),
        (2, 3, [(2, 1), (1, 3), (2, 2)]),
        (3, 3, [(3, 3), (3, 1), (1, 2)]),
        (3, 2, [(u, v) for u in (1, 2, 3) for v in (1, 2)])]
for start in (0, 6):
    for pos, (L, R, edges) in enumerate(BIPS):
        B = bipartite(L, R, edges)
        for how in ('new_bipartite_edges', 'new_sparse_mapping'):
            F = new_formula(start)
            tag = '%s[%d]%d' % (how, start, pos)
            try:
                e = getattr(F, how)(B, label='e({},{})')
            except Exception as err:  # noqa
                emit(tag, 'exc', type(err).__name__, str(err))
                continue
            show_group(tag, e, 2, max(L, R), ODD)
            if how == 'new_sparse_mapping':
                probe(tag + '/domain', e.domain)
                probe(tag + '/range', e.range)
                for z in range(0, max(L, R) + 2):
                    probe('%s/domain%d' % (tag, z), lambda: e.domain(z))
                    probe('%s/range%d' % (tag, z), lambda: e.range(z))
            show_formula(tag, F)
    for n, m in [(0, 0), (0, 2), (2, 0), (2, 3)]:
        F = new_formula(start)
        tag = 'mapping[%d]%d,%d' % (start, n, m)
        try:
            e = F.new_mapping(n, m)
        except Exception as err:  # noqa
            emit(tag, 'exc', type(err).__name__, str(err))
            continue
        show_group(tag, e, 2, max(n, m))
        show_formula(tag, F)


def simple(n, edges):
    G = Graph(n)
    for u, v in edges:
        G.add_edge(u, v)
    return G


def directed(n, edges):
    D = DirectedGraph(n)
    for u, v in edges:
        D.add_edge(u, v)
    return D


GRAPHS = [(0, []), (1, []), (3, []), (3, [(2, 1), (1, 3)]),
          (4, [(2, 1), (3, 2), (1, 3), (4, 2)]),
          (4, [(4, 3), (4, 1), (3, 1), (2, 1), (4, 2), (3, 2)])]
DIGRAPHS = [(0, []), (1, []), (3, []), (3, [(1, 2), (2, 1)]),
            (5, [(1, 2), (2, 3), (3, 4), (4, 5), (5, 1)]),
            (5, [(1, 2), (1, 3), (2, 3), (2, 4), (5, 1)]),
            (4, [(4, 1), (3, 1), (1, 3), (4, 4), (2, 2), (3, 4)])]
for start in (0, 3):
    for pos, (n, edges) in enumerate(GRAPHS):
        F = new_formula(start)
        tag = 'graph[%d]%d' % (start, pos)
        try:
            e = F.new_graph_edges(simple(n, edges), label='g[{},{}]')
        except Exception as err:  # noqa
            emit(tag, 'exc', type(err).__name__, str(err))
            continue
        show_group(tag, e, 2, n, ODD)
        show_formula(tag, F)
    for pos, (n, edges) in enumerate(DIGRAPHS):
        for sortby in ('pred', 'succ', 'other', None):
            F = new_formula(start)
            tag = 'digraph[%d]%d%r' % (start, pos, sortby)
            try:
                e = F.new_digraph_edges(directed(n, edges), label='d[{},{}]',
                                        sortby=sortby)
            except Exception as err:  # noqa
                emit(tag, 'exc', type(err).__name__, str(err))
                continue
            show_group(tag, e, 2, n, ODD)
            probe(tag + '/inner', lambda: (list(e.VG), list(e.VG.indices()),
                                           e.VG.offset, e.sortby))
            show_formula(tag, F)

# wrong kinds of graphs, wrong labels
for how, good in [('new_bipartite_edges', bipartite(2, 2, [(1, 2)])),
                  ('new_sparse_mapping', bipartite(2, 2, [(1, 2)])),
                  ('new_graph_edges', simple(3, [(1, 2)])),
                  ('new_digraph_edges', directed(3, [(1, 2)]))]:
    for G in (None, 3, 'G', [(1, 2)], simple(2, [(1, 2)]),
              directed(2, [(1, 2)]), bipartite(1, 1, [(1, 1)]),
              CompleteBipartiteGraph(2, 2)):
        F = new_formula(1)
        tag = 'wrong-%s-%s' % (how, type(G).__name__)
        try:
            e = getattr(F, how)(G)
            emit(tag, 'ok', list(e), list(e.indices()), list(e.label()))
        except Exception as err:  # noqa
            emit(tag, 'exc', type(err).__name__, str(err))
        show_formula(tag, F)
    for label in ('{}', '{}{}{}', 'plain', '{1}{0}', 5):
        F = new_formula(1)
        tag = 'label-%s-%r' % (how, label)
        try:
            e = getattr(F, how)(good, label=label)
            emit(tag, 'ok', list(e), list(e.indices()), list(e.label()))
        except Exception as err:  # noqa
            emit(tag, 'exc', type(err).__name__, str(err))
        show_formula(tag, F)

# --------------------------------------------------- clause insertion, raises
CLAUSES = [[], (), [1], [-1], [3, -7], (2, -2), [5, 5], iter([4, -9]),
           (x for x in (1, 2)), range(1, 4), range(0), {6}, [0], [1, 0, 2],
           ['a'], [1, 'a'], [None], [1.5], [2.0, -3.0], [True], [[1, 2]],
           None, 5, 'ab', '', [10 ** 6], [-10 ** 6]]
for check in (True, False):
    for pos, cl in enumerate(CLAUSES):
        if hasattr(cl, '__next__'):
            cl = list(cl)
        for cls in (CNF, BaseCNF):
            F = new_formula(2, cls)
            tag = 'clause[%s,%d,%s]' % (check, pos, cls.__name__)
            probe(tag + '/add', lambda: F.add_clause(cl, check=check))
            probe(tag + '/add-default', lambda: F.add_clause(cl))
            probe(tag + '/from', lambda: F.add_clauses_from([[1], cl, [-2]],
                                                            check=check))
            probe(tag + '/iter', lambda: F.add_clause(iter(cl), check=check))
            probe(tag + '/n', F.number_of_variables)
            probe(tag + '/m', F.number_of_clauses)
            probe(tag + '/clauses', lambda: [c for c in F])
            probe(tag + '/names', lambda: F.all_variable_labels())
            probe(tag + '/init', lambda: [c for c in cls([[1, -2], cl, [3]])])
            probe(tag + '/init-n',
                  lambda: cls([[1, -2], cl, [3]]).number_of_variables())

# stored clauses are copies and distinct objects
F = CNF()
src = [1, -2]
F.add_clause(src)
src.append(3)
F.add_clause([])
F.add_clause([])
emit('copy', [c for c in F], F._clauses[1] is F._clauses[2],
     F._clauses[0] is src, F[0], F[1])
F._clauses[1].append(4)
emit('copy2', [c for c in F], F.number_of_variables())

for value in (0, 1, 5, -1, 2.0, 'a', None, True, [3]):
    for cls in (CNF, BaseCNF):
        F = new_formula(3, cls)
        tag = 'raise[%r,%s]' % (value, cls.__name__)
        probe(tag, lambda: F.update_variable_number(value))
        probe(tag + '/n', F.number_of_variables)
        probe(tag + '/names', lambda: F.all_variable_labels())

# overlap of a stale group with newer variables
F = CNF()
stale = BlockOfVariables(F, [2, 2], 's{}{}')
F.add_clause([1, -3])
probe('stale/add', lambda: F._add_variable_group(stale))
emptyg = BlockOfVariables(F, [0, 2], 's{}{}')
probe('stale/empty', lambda: F._add_variable_group(emptyg))
show_formula('stale', F)

# random interleavings of group creation, clause insertion and raises
rng = random.Random(20240611)
for trial in range(120):
    F = CNF() if trial % 4 else CNF([[1, -2], [], [3]])
    made = []
    for step in range(rng.randint(1, 9)):
        op = rng.randrange(13)
        tag = 'mix%d.%d.%d' % (trial, step, op)
        try:
            if op == 0:
                made.append(('x', F.new_variable(label='x%d' % step)))
            elif op == 1:
                dims = [rng.randint(0, 3) for _ in range(rng.randint(1, 3))]
                made.append(F.new_block(*dims, label='B%d(' % step + ','.join(['{}'] * len(dims)) + ')'))
            elif op == 2:
                kind = rng.choice(['combinations', 'permutations', 'words',
                                   'combinations_with_replacement'])
                made.append(getattr(F, 'new_' + kind)(rng.randint(0, 4), rng.randint(0, 3)))
            elif op == 3:
                L, R = rng.randint(0, 3), rng.randint(0, 3)
                B = BipartiteGraph(L, R)
                for u in range(1, L + 1):
                    for v in range(R, 0, -1):
                        if rng.random() < 0.5:
                            B.add_edge(u, v)
                made.append(rng.choice([F.new_bipartite_edges, F.new_sparse_mapping])(B))
            elif op == 4:
                n = rng.randint(0, 4)
                G = Graph(n)
                for u in range(n, 0, -1):
                    for v in range(1, u):
                        if rng.random() < 0.5:
                            G.add_edge(u, v)
                made.append(F.new_graph_edges(G))
            elif op == 5:
                n = rng.randint(0, 4)
                D = DirectedGraph(n)
                for u in range(n, 0, -1):
                    for v in range(1, n + 1):
                        if rng.random() < 0.4:
                            D.add_edge(u, v)
                made.append(F.new_digraph_edges(D, sortby=rng.choice(['pred', 'succ'])))
            elif op == 6:
                made.append(F.new_mapping(rng.randint(0, 3), rng.randint(0, 3)))
            elif op == 7:
                made.append(F.new_binary_mapping(rng.randint(0, 3), rng.randint(0, 9)))
            elif op == 8:
                top = F.number_of_variables() + rng.randint(0, 3)
                size = rng.randint(0, 3)
                F.add_clause([rng.choice([1, -1]) * rng.randint(1, max(top, 1))
                              for _ in range(size)], check=rng.random() < 0.8)
            elif op == 9:
                F.update_variable_number(F.number_of_variables() + rng.randint(-2, 3))
            elif op == 10:
                F.add_clause([])
            elif op == 11:
                F.add_clauses_from([[F.number_of_variables() + 1], (), [-1, 1]],
                                   check=rng.random() < 0.5)
            else:
                F.add_clause([0, 1])
            emit(tag, 'ok', F.number_of_variables(), F.number_of_clauses())
        except Exception as err:  # noqa
            emit(tag, 'exc', type(err).__name__, str(err),
                 F.number_of_variables(), F.number_of_clauses())
    show_formula('mix%d' % trial, F)
    names = list(F.all_variable_labels())
    for pos, g in enumerate(F._groups):
        tag = 'mix%d/g%d' % (trial, pos)
        probe(tag + '/ids', lambda: list(g))
        probe(tag + '/indices', lambda: g.indices())
        probe(tag + '/labels', lambda: g.label())

        def aligned():
            res = []
            for idx in g.indices():
                vid = g(*idx)
                res.append((vid, g.to_index(vid), g.to_index(-vid),
                            names[vid - 1] == g.label(*idx)))
            return res
        probe(tag + '/aligned', aligned)

emit('records', NREC[0])
print(H.hexdigest())
