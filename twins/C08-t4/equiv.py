#!/usr/bin/env python
"""Equivalence check for cnfgen.families.subsetcardinality.SubsetCardinalityFormula (CNF and OPB)."""
import sys, os, io, hashlib, random, warnings, itertools
sys.path.insert(0, os.getcwd())
warnings.simplefilter("ignore")

import networkx as nx
from cnfgen.graphs import BipartiteGraph, CompleteBipartiteGraph, Graph
from cnfgen.graphs import bipartite_random, bipartite_random_left_regular, bipartite_random_regular, bipartite_shift
from cnfgen.families.subsetcardinality import SubsetCardinalityFormula
from cnfgen.formula.cnf import CNF
from cnfgen.formula.opb import OPB
from cnfgen.clitools.pbgen import cli as pbcli
from cnfgen.clitools.cnfgen import cli as cnfcli

random.seed(20260101)   # nothing below may depend on an unseeded generator
H = hashlib.sha256()
def rec(*items):
    for it in items:
        H.update(repr(it).encode('utf-8'))
        H.update(b'\x00')

def attempt(tag, fn, *args, **kw):
    try:
        res = fn(*args, **kw)
        rec(tag, 'ok', res if isinstance(res, (str, type(None))) else type(res).__name__)
        return res
    except SystemExit as e:
        rec(tag, 'exit', e.code)
    except BaseException as e:
        rec(tag, 'exc', type(e).__name__, str(e))

def models(nvars, constraints_ok):
    return [bits for bits in itertools.product((False, True), repeat=nvars) if constraints_ok(bits)]

def cnf_ok(F):
    clauses = [list(c) for c in F]
    return lambda bits: all(any(bits[abs(l) - 1] == (l > 0) for l in c) for c in clauses)

def opb_ok(F):
    cons = [list(c) for c in F]
    def ok(bits):
        for c in cons:
            total = sum(k for (k, l) in c[:-2] if bits[abs(l) - 1] == (l > 0))
            if c[-2] == '>=' and not total >= c[-1]:
                return False
            if c[-2] == '==' and not total == c[-1]:
                return False
        return True
    return ok

graphs = []
def add(tag, B):
    graphs.append((tag, B))

add('0x0', BipartiteGraph(0, 0))
add('1x0', BipartiteGraph(1, 0))
add('0x2', BipartiteGraph(0, 2))
add('2x3-empty', BipartiteGraph(2, 3))
B = BipartiteGraph(1, 1); B.add_edge(1, 1); add('single-edge', B)
B = BipartiteGraph(2, 3); B.add_edge(1, 2); B.add_edge(2, 3); add('2x3-two', B)
B = BipartiteGraph(3, 3, name='named graph')
for (u, v) in [(1, 1), (1, 2), (1, 3), (2, 2), (3, 1), (3, 3)]:
    B.add_edge(u, v)
add('3x3-isolated-right', B)
for (l, r) in [(1, 1), (1, 4), (4, 1), (2, 2), (3, 2), (2, 3), (3, 3), (4, 3)]:
    add('K%d,%d' % (l, r), CompleteBipartiteGraph(l, r))
add('shift', bipartite_shift(5, 5, [1, 2, 4]))
add('shift-odd', bipartite_shift(4, 6, [1, 3, 4, 5, 6]))
random.seed(99)
for i in range(12):
    l, r = random.randint(1, 5), random.randint(1, 5)
    add('rnd-p-%d' % i, bipartite_random(l, r, random.choice([.2, .5, .8])))
for i in range(6):
    l, r = random.randint(1, 5), random.randint(2, 5)
    add('rnd-lreg-%d' % i, bipartite_random_left_regular(l, r, random.randint(0, r)))
for i in range(4):
    add('rnd-reg-%d' % i, bipartite_random_regular(4, 4, random.randint(1, 4)))

for tag, B in graphs:
    edges_before = sorted(B.edges())
    res = {}
    for eq in (False, True):
        for cls in (CNF, OPB):
            F = attempt((tag, eq, cls.__name__), SubsetCardinalityFormula, B, equalities=eq, formula_class=cls)
            if F is None:
                continue
            rec(F.header['description'], F.number_of_variables(), len(F), [list(c) for c in F],
                list(F.all_variable_labels()))
            rec(F.to_opb())
            if cls is CNF:
                rec(F.to_dimacs())
            rec(F.to_latex())
            n = F.number_of_variables()
            if n <= 12:
                res[(eq, cls.__name__)] = (n, models(n, cnf_ok(F) if cls is CNF else opb_ok(F)))
                rec(res[(eq, cls.__name__)])
    for eq in (False, True):
        if (eq, 'CNF') in res and (eq, 'OPB') in res:
            rec('same-models', res[(eq, 'CNF')] == res[(eq, 'OPB')])
    rec('graph untouched', sorted(B.edges()) == edges_before)
    # default arguments
    F = attempt((tag, 'default'), SubsetCardinalityFormula, B)
    if F is not None:
        rec(type(F).__name__, [list(c) for c in F])

# inputs in other forms, and invalid inputs
G = nx.Graph(); G.add_nodes_from([1, 2], bipartite=0); G.add_nodes_from(['a', 'b', 'c'], bipartite=1)
G.add_edges_from([(1, 'a'), (1, 'b'), (2, 'b'), (2, 'c'), (1, 'c')])
others = [('nx-bipartite', G), ('nx-complete-bip', nx.complete_bipartite_graph(2, 3)), ('nx-plain', nx.path_graph(4)),
          ('simple', Graph(3)), ('none', None), ('int', 5), ('str', 'graph'), ('list', [(1, 2)])]
for tag, obj in others:
    for eq in (False, True):
        for cls in (CNF, OPB):
            F = attempt((tag, eq, cls.__name__), SubsetCardinalityFormula, obj, eq, cls)
            if F is not None:
                rec(F.header['description'], [list(c) for c in F], list(F.all_variable_labels()))
attempt('badclass', SubsetCardinalityFormula, CompleteBipartiteGraph(2, 2), False, dict)
attempt('badclass2', SubsetCardinalityFormula, CompleteBipartiteGraph(2, 2), True, None)
F = attempt('truthy-eq', SubsetCardinalityFormula, CompleteBipartiteGraph(2, 3), 'yes', OPB)
rec([list(c) for c in F])
F = attempt('falsy-eq', SubsetCardinalityFormula, CompleteBipartiteGraph(2, 3), 0, OPB)
rec([list(c) for c in F])

# command line tools (random streams for a given seed included)
cmds = [
    ['subsetcard', '5'], ['subsetcard', '5', '3'], ['subsetcard', '-e', '4'], ['subsetcard', '6', '-e'],
    ['subsetcard', 'glrd', '4', '5', '3'], ['subsetcard', '-e', 'glrd', '4', '5', '3'],
    ['subsetcard', 'glrp', '4', '5', '.5'], ['subsetcard', '-e', 'glrp', '5', '4', '.7'],
    ['subsetcard', 'glrm', '4', '4', '7'], ['subsetcard', 'regular', '4', '4', '2'],
    ['subsetcard', 'shift', '5', '5', '1', '2', '4'], ['subsetcard', 'complete', '3', '4'],
    ['subsetcard', '-e', 'complete', '3', '4'], ['subsetcard', 'glrd', '4', '5', '3', 'plantbiclique', '2', '2'],
    ['subsetcard', 'glrd', '4', '5', '3', 'addedges', '2'],
    ['subsetcard', 'glrd', '4', '5', '9'], ['subsetcard', 'gnp', '5', '.5'], ['subsetcard'], ['subsetcard', '0'],
    ['subsetcard', '-1'], ['subsetcard', 'nosuchfile.matrix'],
]
for cmd in cmds:
    for seed in ('1', '42'):
        base = ['-S', seed]
        attempt(('pbgen', seed, cmd), pbcli, ['pbgen', '-q'] + base + cmd, mode='string')
        attempt(('pbgen-v', seed, cmd), pbcli, ['pbgen', '--varnames'] + base + cmd, mode='string')
        attempt(('pbgen-tex', seed, cmd), pbcli, ['pbgen', '-q', '-of', 'latex'] + base + cmd, mode='string')
        attempt(('cnfgen', seed, cmd), cnfcli, ['cnfgen', '--varnames'] + base + cmd, mode='string')
        attempt(('cnfgen-opb', seed, cmd), cnfcli, ['cnfgen', '-q', '-of', 'opb'] + base + cmd, mode='string')
        rec('rng after', random.random())
    for tool, run in (('pbgen', pbcli), ('cnfgen', cnfcli)):
        F = attempt((tool, 'formula', cmd), run, [tool, '-S', '5'] + cmd, mode='formula')
        if F is not None:
            rec(list(F.header.items()), [list(c) for c in F])

print(H.hexdigest())
