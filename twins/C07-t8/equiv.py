"""Equivalence script for C07/t8: the cnfshuffle command line tool.

Runs cnfgen.clitools.cnfshuffle.cli in process (stdin/stdout replaced by
string buffers, in the three modes 'output', 'string', 'formula') on several
input formulas, all combinations of the -p/-v/-c/-q switches and many seeds,
and prints one SHA256 of everything observable: output text (header
included), exceptions and messages, random generator state after each run.
"""
import sys
import os
sys.path.insert(0, os.getcwd())
import warnings
warnings.simplefilter('ignore')

import io
import re
import random
import hashlib
import itertools
import contextlib

from cnfgen.clitools.cnfgen import cli as cnfgen_cli
from cnfgen.clitools.cnfshuffle import cli as shuffle_cli

H = hashlib.sha256()
VERSION = re.compile(r'CNFgen \([^)]*\)')


def record(*items):
    for x in items:
        H.update(repr(x).encode('utf-8'))
        H.update(b'\x00')


def clean(text):
    return VERSION.sub('CNFgen (V)', text)


def shuffle(argv, text, mode='output'):
    out, err = io.StringIO(), io.StringIO()
    old_stdin = sys.stdin
    sys.stdin = io.StringIO(text)
    res = None
    try:
        with contextlib.redirect_stdout(out), contextlib.redirect_stderr(err):
            res = shuffle_cli(['cnfshuffle'] + argv, mode=mode)
        if mode == 'formula':
            b = io.StringIO()
            res.to_file(b, fileformat='dimacs', export_header=True)
            res = (list(res.clauses()), clean(b.getvalue()))
        elif mode == 'string':
            res = clean(res)
    except SystemExit as e:
        res = ('SystemExit', e.code)
    except BaseException as e:
        res = (type(e).__name__, str(e))
    finally:
        sys.stdin = old_stdin
    record(argv, mode, res, clean(out.getvalue()), clean(err.getvalue()),
           random.getstate())


def generate(argv):
    b = io.StringIO()
    with contextlib.redirect_stdout(b):
        cnfgen_cli(['cnfgen'] + [str(a) for a in argv], mode='output')
    return clean(b.getvalue())


INPUTS = [
    generate(['--seed', 5, 'php', 4, 3]),
    generate(['-q', '--seed', 5, 'randkcnf', 3, 8, 15]),
    generate(['--seed', 2, 'tseitin', 'random', 'gnd', 6, 3]),
    generate(['--seed', 1, 'op', 4]),
    generate(['and', 0, 0]),
    generate(['or', 0, 0]),
    generate(['and', 1, 0]),
    generate(['-q', 'or', 3, 2]),
    "p cnf 0 0\n",
    "p cnf 3 0\n",
    "p cnf 3 2\n0\n1 -2 3 0\n",
    "c a comment\nc another\np cnf 4 3\n1 2 0\n-1\n-2 0\n3 4 -1 0\n",
    "p cnf 5 3\n1 1 -1 0\n5 0\n5 0\n",
]
BAD_INPUTS = [
    "",
    "p cnf 2 1\n1 3 0\n",
    "p cnf 2 2\n1 2 0\n",
    "p cnf 2 1\n1 2\n",
    "p cnf x y\n",
    "1 2 0\n",
    "p cnf 2 1\n1 a 0\n",
]
SWITCHES = []
for r in range(4):
    for c in itertools.combinations(['-p', '-v', '-c'], r):
        SWITCHES.append(list(c))
LONG = ['--no-polarity-flips', '--no-variables-permutation',
        '--no-clauses-permutation']

for seed in ['0', '1', '-17', 'hello', '123456789012345678901234567890', '']:
    for text in INPUTS:
        for sw in SWITCHES:
            shuffle(['--seed', seed] + sw, text)
        shuffle(['-S', seed, '-q'], text)
        shuffle(['-q', '-S', seed] + LONG, text)
        shuffle(['--seed', seed, LONG[0], LONG[2]], text, mode='string')
        shuffle(['--seed', seed, LONG[1]], text, mode='formula')
        shuffle(['--seed', seed], text, mode='string')
        shuffle(['--seed', seed], text, mode='formula')

# integer (non string) arguments are accepted too
for seed in [0, 3, -4]:
    for text in INPUTS[:4]:
        shuffle(['--seed', seed], text)
        shuffle(['-pvc', '--seed', seed], text)

# without --seed: the generator is not touched by the option handling
for sw in SWITCHES:
    for text in INPUTS[:6]:
        random.seed(424242)
        shuffle(list(sw), text)
        shuffle(list(sw), text)

# same seed twice in a row, and shuffling a shuffled formula
for text in INPUTS[:4]:
    random.seed(6)
    shuffle(['--seed', '9'], text)
    shuffle(['--seed', '9'], text)

# error paths
for text in BAD_INPUTS:
    for sw in [[], ['-pvc'], ['-q']]:
        shuffle(['--seed', '3'] + sw, text)
        shuffle(['--seed', '3'] + sw, text, mode='string')
for argv in [['--seed'], ['--bogus'], ['-S', '1', 'extra'], ['-h'],
             ['-i', '/nonexistent/dir/file.cnf'], ['--seed', '1', '-x']]:
    random.seed(1)
    shuffle(argv, INPUTS[0])

print(H.hexdigest())
