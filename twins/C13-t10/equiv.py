"""Equivalence script for CNFLinear.add_parity (cnfgen/formula/linear.py),
the encoder used by RandomKXOR for every sampled parity constraint.

Calls add_parity directly (lists, tuples, ranges, generators, negative and
repeated literals, odd constants, check on/off, invalid literals) and via
RandomKXOR / add_linear / the `cnfgen randkxor` command line.  Prints one
SHA256 digest of everything observed.
"""
import sys
import os
import hashlib
import random
import warnings
import itertools

warnings.simplefilter('ignore')
sys.path.insert(0, os.getcwd())

from cnfgen import CNF, RandomKXOR
from cnfgen.formula.linear import CNFLinear
from cnfgen.clitools import cnfgen as cnfgen_cli

H = hashlib.sha256()


def rec(*items):
    for it in items:
        H.update(repr(it).encode('utf-8'))
        H.update(b'\x00')


def state(F):
    return (F.number_of_variables(), len(F), list(F.clauses()))


def run(tag, fn):
    try:
        rec(tag, 'ok', fn())
    except Exception as e:
        rec(tag, 'exc', type(e).__name__, str(e),
            type(e.__cause__).__name__, str(e.__cause__))


def gen(seq):
    for x in seq:
        yield x


# 1. direct calls
literal_lists = [[], [1], [-1], [3], [1, 2], [-1, 2], [2, -1], [1, 2, 3],
                 [3, 1, 2], [-4, 2, -7], [1, 1], [1, -1], [2, 2, 2],
                 [1, 2, 3, 4], [5, -6, 7, -8, 9], list(range(1, 8)),
                 [10, 20, 30, 40, 50, 60, 70, 80]]
constants = [0, 1, 2, 3, -1, True, False, 1.0, '1', None]
for cls in (CNFLinear, CNF):
    for lits in literal_lists:
        for const in constants:
            for check in (True, False):
                for wrap in (list, tuple, gen, iter):
                    def call():
                        F = cls()
                        F.update_variable_number(2)
                        F.add_clause([1, -2])
                        r = F.add_parity(wrap(lits), const, check=check)
                        return (r, state(F))
                    run((cls.__name__, lits, const, check, wrap.__name__), call)
    run((cls.__name__, 'range'), lambda: (lambda F: (F.add_parity(range(2, 6), 1), state(F)))(cls()))
    run((cls.__name__, 'default check'), lambda: (lambda F: (F.add_parity([4, -9], 0), state(F)))(cls()))

# invalid inputs (error paths)
for lits in ([0], [1, 0, 2], [1, 'a'], ['a', 'b'], [1.5, 2], [None], 5, None, 'ab'):
    for const in (0, 1):
        for check in (True, False):
            def call():
                F = CNFLinear()
                r = F.add_parity(lits, const, check=check)
                return (r, state(F))
            run(('bad', lits, const, check), call)

# several parities accumulated in one formula
random.seed(2024)
F = CNF()
for _ in range(60):
    w = random.randint(0, 6)
    X = random.sample(range(1, 15), w)
    X = [x * random.choice([1, -1]) for x in X]
    b = random.randint(0, 1)
    F.add_parity(X, b, check=random.choice([True, False]))
    rec(state(F))
rec(F.to_dimacs())

# 2. through RandomKXOR, which encodes each sampled parity with add_parity
planted_sets = [None, [], [[1, 2, 3, 4, 5, 6]], [[-1, 2, -3, 4, -5, 6]],
                [[1, 2, 3, 4, 5, 6], [-1, -2, 3, 4, 5, 6]]]
for k in range(0, 5):
    for n in range(0, 7):
        for m in (0, 1, 2, 7, 15, 30, 31, 40, 41):
            for pi, planted in enumerate(planted_sets):
                for seed in (0, 13):
                    def call():
                        G = RandomKXOR(k, n, m, seed=seed, planted_assignments=planted)
                        return (state(G), dict(G.header), G.to_dimacs(), random.random())
                    run(('kxor', k, n, m, pi, seed), call)

# 3. command line
for cl in (['--seed', '3', 'randkxor', '3', '7', '12'],
           ['--seed', '3', 'randkxor', '3', '7', '12', '-p'],
           ['--seed', '9', 'randkxor', '1', '1', '2'],
           ['--seed', '9', 'randkxor', '1', '1', '3'],
           ['--seed', '9', 'randkxor', '4', '4', '2', '--plant'],
           ['--seed', '9', '-of', 'latex', 'randkxor', '2', '4', '3'],
           ['--seed', '9', 'randkxor', '5', '4', '1']):
    run(('cli', cl), lambda: cnfgen_cli(['cnfgen'] + cl, mode='string'))

print(H.hexdigest())
