"""Equivalence harness for cnfgen.utils.parsedimacs.to_dimacs_file (C11: variable names aligned)."""
import contextlib
import hashlib
import io
import os
import shutil
import sys
import tempfile
sys.path.insert(0, '.')

from cnfgen.info import info
info['version'] = 'VERSION'  # the real one depends on the git commit of the checkout

from cnfgen.formula.cnf import CNF
from cnfgen.formula.basecnf import BaseCNF
from cnfgen.utils.parsedimacs import to_dimacs_file
from cnfgen.graphs import Graph, DirectedGraph, BipartiteGraph
from cnfgen.clitools.cnfgen import cli

OUT = []


def rec(*args):
    OUT.append(repr(args))


try:
    TMP = tempfile.mkdtemp(prefix='equiv_t17_', dir=os.getcwd())
except OSError:
    TMP = tempfile.mkdtemp(prefix='equiv_t17_')


def formulas():
    yield 'empty', CNF()
    F = CNF([[1, -2], [], [3]])
    yield 'plain', F
    F = CNF(description='multi\nline\n\ndescription è non ascii')
    x = F.new_variable('x')
    F.add_clause([x, -4])
    p = F.new_block(2, 3, label='p_{{{},{}}}')
    F.update_variable_number(F.number_of_variables() + 2)
    e0 = F.new_block(0, 4, label='z({},{})')
    c = F.new_combinations(4, 2, label='S[{}]')
    F.add_clause(list(p(1, None)) + [-c(2, 3)])
    w = F.new_words(2, 2, label='w\n{}')
    F.add_clause([F.number_of_variables() + 3])
    q = F.new_permutations(3, 2)
    yield 'mixed', F
    F = CNF()
    G = Graph(4)
    for u, v in [(2, 1), (3, 2), (1, 3), (4, 2)]:
        G.add_edge(u, v)
    D = DirectedGraph(4)
    for u, v in [(1, 2), (1, 3), (2, 3), (4, 1)]:
        D.add_edge(u, v)
    B = BipartiteGraph(3, 2)
    for u, v in [(1, 2), (2, 1), (3, 1), (3, 2)]:
        B.add_edge(u, v)
    F.update_variable_number(1)
    e = F.new_graph_edges(G, label='e{}-{}')
    F.new_graph_edges(Graph(3))
    d = F.new_digraph_edges(D, sortby='succ')
    F.add_clause([-1, e(2, 3), d(4, 1)])
    b = F.new_bipartite_edges(B)
    f = F.new_mapping(2, 3)
    s = F.new_sparse_mapping(B, label='s({})->{}')
    g = F.new_binary_mapping(3, 5)
    F.new_binary_mapping(0, 4)
    F.new_binary_mapping(4, 0)
    F.force_complete_mapping(f)
    F.force_functional_mapping(s)
    F.force_complete_mapping(g)
    F.new_variable(None)
    F.new_variable('last')
    yield 'graphs', F
    yield 'base', BaseCNF([[1, 2], [-5]])


class Sink:
    """A file-like object which is not a real file"""
    def __init__(self):
        self.chunks = []

    def write(self, text):
        self.chunks.append(text)


count = 0
for name, F in formulas():
    rec('labels', name, F.number_of_variables(), list(F.all_variable_labels()))
    for hdr in (True, False):
        for vn in (True, False):
            # 1. explicit file object
            buf = io.StringIO()
            res = to_dimacs_file(F, buf, export_header=hdr, export_varnames=vn)
            rec('fileobj', name, hdr, vn, res, buf.getvalue())
            # 2. duck-typed object
            sink = Sink()
            res = to_dimacs_file(F, sink, export_header=hdr, export_varnames=vn)
            rec('sink', name, hdr, vn, res, sink.chunks)
            # 3. stdout (None)
            cap = io.StringIO()
            with contextlib.redirect_stdout(cap):
                res = to_dimacs_file(F, None, export_header=hdr, export_varnames=vn)
            rec('stdout', name, hdr, vn, res, cap.getvalue())
            # 4. file name
            count += 1
            fname = os.path.join(TMP, 'f%d.cnf' % count)
            res = to_dimacs_file(F, fname, export_header=hdr, export_varnames=vn)
            with open(fname, 'rb') as fh:
                rec('fname', name, hdr, vn, res, fh.read())
            # 5. through the formula methods
            if hasattr(F, 'to_file'):
                buf = io.StringIO()
                F.to_file(buf, fileformat='dimacs', export_header=hdr, export_varnames=vn)
                rec('to_file', name, hdr, vn, buf.getvalue())
                count += 1
                fname = os.path.join(TMP, 'g%d.cnf' % count)
                F.to_file(fname, export_header=hdr, export_varnames=vn)
                with open(fname, 'rb') as fh:
                    rec('to_file-name', name, hdr, vn, fh.read())
    if hasattr(F, 'to_dimacs'):
        rec('to_dimacs', name, F.to_dimacs())
    # defaults
    buf = io.StringIO()
    to_dimacs_file(F, buf)
    rec('defaults', name, buf.getvalue())

# error paths
F = CNF([[1, 2]])
F.new_variable('v')
for target in (os.path.join(TMP, 'no', 'such', 'dir.cnf'), TMP, 12, 3.5, b'bytes', object, ''):
    cap = io.StringIO()
    try:
        with contextlib.redirect_stdout(cap):
            res = to_dimacs_file(F, target, export_varnames=True)
        rec('err', repr(target).replace(TMP, 'TMP'), 'ok', res, cap.getvalue())
    except Exception as e:  # noqa
        rec('err', repr(target).replace(TMP, 'TMP'), type(e).__name__,
            str(e).replace(TMP, 'TMP'), cap.getvalue())


class Broken:
    def write(self, text):
        if text.startswith('c varname 2'):
            raise IOError('disk full')
        self.last = text


br = Broken()
try:
    to_dimacs_file(F, br, export_header=False, export_varnames=True)
    rec('broken', 'ok')
except Exception as e:  # noqa
    rec('broken', type(e).__name__, str(e), br.last)

# command line tool
cmdlines = [
    ['cnfgen', '--varnames', 'php', '3', '2'],
    ['cnfgen', '-q', '--varnames', 'php', '3', '2'],
    ['cnfgen', '-q', '--varnames', 'op', '3'],
    ['cnfgen', '-q', '--varnames', 'tseitin', 'first', 'grid', '2', '2'],
    ['cnfgen', '-q', '--varnames', 'peb', 'pyramid', '2'],
    ['cnfgen', '-q', '--varnames', 'kclique', '2', 'complete', '3'],
    ['cnfgen', '-q', '--varnames', '--seed', '7', 'randkcnf', '3', '5', '4'],
    ['cnfgen', '-q', '--varnames', 'php', '2', '2', '-T', 'xor', '2'],
    ['cnfgen', '-q', '--varnames', 'bphp', '3', '2'],
]
for argv in cmdlines:
    cap = io.StringIO()
    err = io.StringIO()
    try:
        with contextlib.redirect_stdout(cap), contextlib.redirect_stderr(err):
            res = cli(list(argv), mode='output')
        rec('cli', argv, 'ok', res, cap.getvalue(), err.getvalue())
    except BaseException as e:  # noqa
        rec('cli', argv, type(e).__name__, str(e), cap.getvalue(), err.getvalue())
    count += 1
    fname = os.path.join(TMP, 'c%d.cnf' % count)
    try:
        with contextlib.redirect_stdout(cap), contextlib.redirect_stderr(err):
            cli(argv[:1] + ['-o', fname] + argv[1:], mode='output')
        with open(fname, 'rb') as fh:
            data = fh.read().replace(TMP.encode(), b'TMP')
        rec('cli-file', argv, data)
    except BaseException as e:  # noqa
        rec('cli-file', argv, type(e).__name__, str(e).replace(TMP, 'TMP'))

shutil.rmtree(TMP, ignore_errors=True)

digest = hashlib.sha256('\n'.join(OUT).encode('utf-8')).hexdigest()
print(digest)
