"""Equivalence script for the refactoring of the 'save' / numeric argument
consumers of cnfgen.clitools.graph_args.parse_graph_argument."""
import os, sys, hashlib, tempfile, random, itertools, io, contextlib
sys.path.insert(0, os.getcwd())

from cnfgen.clitools.graph_args import parse_graph_argument, make_graph_from_spec
from cnfgen.clitools.cnfgen import cli
from cnfgen.clitools.cmdline import CLIError

out = []
def rec(*xs):
    out.append(repr(xs))

def attempt(tag, f, *a, **k):
    try:
        rec(tag, 'ok', f(*a, **k))
    except SystemExit as e:
        rec(tag, 'exit', e.code)
    except BaseException as e:
        rec(tag, 'exc', type(e).__name__, str(e))

heads = {
    'simple': [['gnp', '5', '.5'], ['grid', '2', '3'], ['complete', '4'], ['g.gml'], ['gml', 'g.x'],
               ['dot', 'x'], ['kthlist', 'a'], ['empty', '3'], ['gnd', '6', '3'], ['torus', '3', '3']],
    'bipartite': [['glrp', '3', '4', '.5'], ['complete', '2', '3'], ['b.matrix'], ['matrix', 'b.x'],
                  ['shift', '4', '4', '0', '1'], ['regular', '4', '4', '2']],
    'dag': [['tree', '2'], ['pyramid', '3'], ['path', '4'], ['d.kthlist'], ['kthlist', 'd.x']],
    'digraph': [['tree', '2'], ['path', '4'], ['d.gml'], ['gml', 'd.x']],
}
tails = [[], ['save'], ['save', 'out.gml'], ['save', 'gml'], ['save', 'gml', 'out.x'],
         ['save', 'dot', 'o.dot'], ['save', 'kthlist'], ['save', 'kthlist', 'k'],
         ['save', 'matrix'], ['save', 'matrix', 'm'], ['save', 'dimacs', 'f'], ['save', 'dimacs'],
         ['save', 'a', 'b'], ['save', 'a', 'save', 'b'], ['save', 'gml', 'save'],
         ['save', 'save'], ['save', '3'], ['save', 'gml', '3', '4'],
         ['addedges', '3', 'save', 'x.gml'], ['save', 'x.gml', 'addedges', '3'],
         ['addedges'], ['addedges', '1', '2', 'x'], ['addedges', '1e3', '-2', '.5', 'nan', 'inf'],
         ['plantclique', '3', 'save', 'gml', 'w', 'addedges', '2'],
         ['plantbiclique', '1', '2', 'save', 'matrix', 'w'],
         ['splitedges', '2', 'save', 'dot'], ['splitedges', '2', 'splitedges', '1'],
         ['--foo'], ['-3'], ['gnp', '3'], ['simple'], ['dag'], ['args'], ['graphtype'],
         ['construction', '1'], ['filename'], ['save', 'autodetect'], ['save', 'autodetect', 'z'],
         ['save', '-'], ['save', 'gml', '-'], ['1', '2'], ['0x10']]

for gt in sorted(heads):
    for h in heads[gt]:
        for t in tails:
            attempt((gt, h, t), parse_graph_argument, gt, h + t)
            attempt((gt, 's', h, t), parse_graph_argument, gt, " ".join(h + t))
    attempt((gt, 'empty'), parse_graph_argument, gt, [])
    attempt((gt, 'emptystr'), parse_graph_argument, gt, "")
    attempt((gt, 'blank'), parse_graph_argument, gt, "   ")

# random token soups
rng = random.Random(1717)
vocab = ['save', 'gml', 'dot', 'kthlist', 'matrix', 'dimacs', 'gnp', 'grid', 'glrp', 'tree', 'addedges',
         'plantclique', 'plantbiclique', 'splitedges', '1', '2', '.5', '-1', 'f.gml', 'f.dot', 'f', '-', '-x', '1e1']
for i in range(1500):
    gt = rng.choice(sorted(heads))
    spec = [rng.choice(vocab) for _ in range(rng.randint(0, 7))]
    attempt(('soup', i, gt, spec), parse_graph_argument, gt, spec)

# Real runs: graphs saved to files, then read back; formulas compared textually.
def fcontent(fn):
    try:
        with open(fn) as f:
            return f.read()
    except OSError as e:
        return 'NOFILE'

def run(argv):
    random.seed(99)
    buf = io.StringIO()
    try:
        with contextlib.redirect_stderr(buf):
            s = cli(['cnfgen', '-q'] + argv, mode='string')
        rec('cli', argv, s, buf.getvalue())
    except SystemExit as e:
        rec('cli', argv, 'exit', e.code, buf.getvalue())
    except BaseException as e:
        rec('cli', argv, type(e).__name__, str(e), buf.getvalue())

cwd = os.getcwd()
with tempfile.TemporaryDirectory() as d:
    os.chdir(d)
    try:
        runs = [
            ['-S', '1', 'tseitin', 'first', 'gnp', '6', '.6', 'save', 'a.gml'],
            ['tseitin', 'first', 'a.gml'],
            ['tseitin', 'first', 'gml', 'a.gml', 'save', 'dot', 'a2'],
            ['tseitin', 'first', 'dot', 'a2'],
            ['-S', '2', 'kclique', '3', 'gnm', '6', '9', 'plantclique', '3', 'save', 'kthlist', 'k.txt', 'addedges', '1'],
            ['kclique', '3', 'kthlist', 'k.txt', 'save', 'k2.dimacs'],
            ['kclique', '3', 'k2.dimacs'],
            ['php', '4', '3'],
            ['-S', '3', 'php', 'glrd', '5', '4', '2', 'save', 'matrix', 'b.mat', 'plantbiclique', '2', '2'],
            ['php', 'matrix', 'b.mat', 'save', 'b.matrix'],
            ['php', 'b.matrix'],
            ['peb', 'pyramid', '3', 'save', 'p.kthlist'],
            ['peb', 'p.kthlist', '-T', 'xor', '2'],
            ['peb', 'tree', '2', 'save', 'gml', 'p.g'],
            ['peb', 'gml', 'p.g', 'save'],
            ['peb', 'gml', 'p.g', 'save', 'gml'],
            ['peb', 'tree', '2', 'save', 'noext'],
            ['peb', 'tree', '2', 'save', 'bad.xyz'],
            ['peb', 'tree', '2', 'save', 'matrix', 'q'],
            ['matching', 'grid', '2', '3', 'save', 'dot', 'save'],
            ['matching', 'dot', 'save'],
            ['subgraph', '-G', 'grid', '3', '3', 'save', 'G.gml', '-H', 'complete', '3', 'save', 'dot', 'H.d'],
            ['subgraph', '-G', 'G.gml', '-H', 'dot', 'H.d'],
        ]
        for r in runs:
            run(r)
        for fn in sorted(os.listdir('.')):
            rec('file', fn, fcontent(fn))
    finally:
        os.chdir(cwd)

print(hashlib.sha256("\n".join(out).encode('utf-8')).hexdigest())
