#!/usr/bin/env python
"""Equivalence script for the refactoring of
cnfgen.clitools.graph_fileinput.read_graph_from_input (command line helper
that loads a graph file, possibly guessing the format from the extension).

Prints a single SHA256 digest of everything observed: graphs read, their
names, exceptions and messages, stderr chatter, formulas built by the
command line from graph files, and files saved with the `save` option."""
import sys
import os
import io
import random
import hashlib
import tempfile
import shutil
import contextlib

sys.path.insert(0, os.getcwd())

from cnfgen.graphs import (readGraph, writeGraph, Graph, DirectedGraph,
                           BipartiteGraph, supported_graph_formats)
from cnfgen.clitools.graph_fileinput import read_graph_from_input, open_input
from cnfgen.clitools.graph_args import make_graph_from_spec
from cnfgen.clitools.cnfgen import cli

H = hashlib.sha256()


def emit(*items):
    H.update(repr(items).encode('utf-8'))
    H.update(b'\n')


def describe(G):
    d = [type(G).__name__, G.number_of_vertices(), G.number_of_edges(),
         list(G.edges()), G.name]
    if G.is_bipartite():
        d.append((G.left_order(), G.right_order()))
    else:
        d.append(G.is_dag())
    return d


class FakeStdin(io.StringIO):
    def __init__(self, text, tty):
        io.StringIO.__init__(self, text)
        self.tty = tty

    def isatty(self):
        return self.tty


def attempt(tag, fn, stdin_text=None, tty=False):
    err = io.StringIO()
    out = io.StringIO()   # pydot reports parse errors on stdout
    old_stdin = sys.stdin
    if stdin_text is not None:
        sys.stdin = FakeStdin(stdin_text, tty)
    try:
        with contextlib.redirect_stderr(err), contextlib.redirect_stdout(out):
            try:
                res = fn()
                if isinstance(res, str):
                    emit(tag, 'STR', res)
                else:
                    emit(tag, 'G', describe(res))
            except BaseException as e:
                emit(tag, 'EXC', type(e).__name__, str(e))
    finally:
        sys.stdin = old_stdin
    emit(tag, 'stderr', err.getvalue())
    emit(tag, 'stdout', out.getvalue())


rnd = random.Random(1413)


def rnd_simple(n, p):
    G = Graph(n, name='simple {}'.format(n))
    for u in range(1, n + 1):
        for v in range(u + 1, n + 1):
            if rnd.random() < p:
                G.add_edge(u, v)
    return G


def rnd_directed(n, p, dag):
    G = DirectedGraph(n, name='directed {}'.format(n))
    for u in range(1, n + 1):
        for v in range(1, n + 1):
            if u == v or (dag and u > v):
                continue
            if rnd.random() < p:
                G.add_edge(u, v)
    return G


def rnd_bipartite(L, R, p):
    G = BipartiteGraph(L, R, name='bip {} {}'.format(L, R))
    for u in range(1, L + 1):
        for v in range(1, R + 1):
            if rnd.random() < p:
                G.add_edge(u, v)
    return G


FORMATS = supported_graph_formats()
emit('formats', sorted(FORMATS.items()))

workdir = tempfile.mkdtemp(prefix='c14t13')
os.chdir(workdir)
try:
    graphs = {
        'simple': [rnd_simple(n, p) for n in (0, 1, 2, 5, 11) for p in (0.0, 0.5)],
        'digraph': [rnd_directed(n, p, False) for n in (0, 1, 3, 10) for p in (0.0, 0.4)],
        'dag': [rnd_directed(n, p, True) for n in (0, 1, 4, 12) for p in (0.0, 0.5)],
        'bipartite': [rnd_bipartite(L, R, p)
                      for (L, R) in ((0, 0), (1, 1), (3, 2), (2, 11), (10, 4))
                      for p in (0.0, 0.5)],
    }
    files = []
    for gtype in ('simple', 'digraph', 'dag', 'bipartite'):
        for i, G in enumerate(graphs[gtype]):
            for fmt in FORMATS[gtype]:
                fname = '{}{}.{}'.format(gtype, i, fmt)
                writeGraph(G, fname, gtype, fmt)
                files.append((gtype, i, fmt, fname))
                # the same content with misleading / missing extensions
                for alias in ('{}{}_{}'.format(gtype, i, fmt),
                              '{}{}_{}.txt'.format(gtype, i, fmt),
                              '{}{}_{}.'.format(gtype, i, fmt),
                              '.{}'.format(fmt)):
                    shutil.copy(fname, alias)

    # 1. read every file: autodetect, explicit right format, other formats
    for (gtype, i, fmt, fname) in files:
        G = graphs[gtype][i]
        for how in ['autodetect'] + FORMATS[gtype] + ['bogus', '', None]:
            attempt(('read', gtype, fname, how),
                    lambda: read_graph_from_input(gtype, fname, how))
        try:
            with contextlib.redirect_stdout(io.StringIO()):
                G2 = read_graph_from_input(gtype, fname, 'autodetect')
            emit('roundtrip', gtype, fname,
                 G2.number_of_vertices() == G.number_of_vertices(),
                 list(G2.edges()) == list(G.edges()))
        except ValueError as e:
            emit('roundtrip', gtype, fname, 'ValueError', str(e))
        # wrong graph type for this file
        for other in ('simple', 'digraph', 'dag', 'bipartite', 'multi', ''):
            if other != gtype:
                attempt(('read-as', other, fname),
                        lambda: read_graph_from_input(other, fname,
                                                      'autodetect'))
        if i < 3:
            base = '{}{}_{}'.format(gtype, i, fmt)
            for alias in (base, base + '.txt', base + '.', '.' + fmt):
                for how in ('autodetect', fmt):
                    attempt(('alias', gtype, alias, how),
                            lambda: read_graph_from_input(gtype, alias, how))

    # 2. missing files, odd file names
    for gtype in ('simple', 'digraph', 'dag', 'bipartite'):
        for fname in ('missing.kthlist', 'missing.gml', 'missing', 'missing.xyz',
                      'missing.', '', '.', 'dir.kthlist/x', 'a.b.kthlist',
                      'UPPER.KTHLIST', 'missing.matrix', 'missing.dimacs'):
            for how in ('autodetect', 'kthlist', 'gml'):
                attempt(('missing', gtype, fname, how),
                        lambda: read_graph_from_input(gtype, fname, how))
        for fname in (None, 7, b'bytes.kthlist'):
            for how in ('autodetect', 'kthlist'):
                attempt(('oddname', gtype, repr(fname), how),
                        lambda: read_graph_from_input(gtype, fname, how))
    os.mkdir('adir.kthlist')
    attempt(('directory',),
            lambda: read_graph_from_input('simple', 'adir.kthlist', 'autodetect'))

    # 3. standard input
    TEXTS = {
        'kthlist': "c name\n3\n1 : 0\n2 : 1 0\n3 : 1 2 0\n",
        'dimacs': "c name\np edge 3 2\ne 1 2\ne 2 3\n",
        'matrix': "2 2\n1 0\n1 1\n",
        'gml': 'graph [\n  node [\n    id 1\n  ]\n  node [\n    id 2\n  ]\n'
               '  edge [\n    source 1\n    target 2\n  ]\n]\n',
        'broken': "3\n1 : 2\n",
        'empty': "",
    }
    for gtype in ('simple', 'digraph', 'dag', 'bipartite'):
        for how in ['autodetect', 'bogus'] + FORMATS[gtype]:
            for tname in sorted(TEXTS):
                for tty in (False, True):
                    attempt(('stdin', gtype, how, tname, tty),
                            lambda: read_graph_from_input(gtype, '-', how),
                            stdin_text=TEXTS[tname], tty=tty)

    # 4. open_input
    with open('plain.txt', 'w') as f:
        f.write('hello\nworld\n')
    with open_input('plain.txt') as fh:
        emit('open_input', fh.read(), fh.name, fh.closed)
    emit('open_input closed', fh.closed)
    old = sys.stdin
    sys.stdin = FakeStdin('from stdin', False)
    try:
        with open_input('-') as fh:
            emit('open_input stdin', fh.read(), fh is sys.stdin)
        emit('open_input stdin closed', fh.closed)
    finally:
        sys.stdin = old

    # 5. through the graph specification parser and the command line
    for (gtype, i, fmt, fname) in files:
        if i not in (2, 3):
            continue
        attempt(('spec', gtype, fname),
                lambda: make_graph_from_spec(gtype, [fname]))
        attempt(('spec-fmt', gtype, fname),
                lambda: make_graph_from_spec(gtype, [fmt, fname]))
        attempt(('spec-alias', gtype, fname),
                lambda: make_graph_from_spec(
                    gtype, ['{}{}_{}.txt'.format(gtype, i, fmt)]))
        attempt(('spec-save', gtype, fname),
                lambda: make_graph_from_spec(
                    gtype, [fname, 'save', 'saved_' + fname]))
        if os.path.exists('saved_' + fname):
            with open('saved_' + fname) as f:
                emit('saved', fname, f.read())
    for gtype in ('simple', 'digraph', 'dag', 'bipartite'):
        for spec in (['nothere.kthlist'], ['nothere'], ['nothere.jpg'],
                     ['kthlist'], ['kthlist', 'nothere']):
            attempt(('spec-missing', gtype, spec),
                    lambda: make_graph_from_spec(gtype, spec))

    CLI = [
        ['cnfgen', '-q', 'peb', 'dag3.kthlist'],
        ['cnfgen', '-q', 'peb', 'kthlist', 'dag3_kthlist.txt'],
        ['cnfgen', '-q', 'peb', 'dag3_kthlist.txt'],
        ['cnfgen', '-q', 'peb', 'dag3_kthlist'],
        ['cnfgen', '-q', 'peb', 'digraph3.kthlist'],
        ['cnfgen', '-q', 'peb', 'dag2.gml'],
        ['cnfgen', '-q', 'peb', 'dag2.dimacs'],
        ['cnfgen', '-q', 'peb', 'nothere.kthlist'],
        ['cnfgen', '-q', 'tseitin', 'first', 'simple3.kthlist'],
        ['cnfgen', '-q', 'tseitin', 'first', 'simple3.dimacs'],
        ['cnfgen', '-q', 'tseitin', 'first', 'simple3.gml'],
        ['cnfgen', '-q', 'tseitin', 'first', 'simple3_gml'],
        ['cnfgen', '-q', 'kcolor', 3, 'simple4.gml'],
        ['cnfgen', '-q', 'kcolor', 3, 'bipartite4.matrix'],
        ['cnfgen', '-q', 'matching', 'simple2.kthlist'],
        ['cnfgen', '-q', 'subsetcard', 'bipartite3.matrix'],
        ['cnfgen', '-q', 'subsetcard', 'bipartite3.kthlist'],
        ['cnfgen', '-q', 'subsetcard', 'bipartite3.gml'],
        ['cnfgen', '-q', 'subsetcard', 'bipartite3_matrix.txt'],
        ['cnfgen', '-q', 'subsetcard', 'matrix', 'bipartite3_matrix.txt'],
        ['cnfgen', '-q', 'subsetcard', 'simple3.dimacs'],
        ['cnfgen', '-q', 'php', 'bipartite4.matrix'],
    ]
    if 'dot' in FORMATS['simple']:
        CLI += [['cnfgen', '-q', 'tseitin', 'first', 'simple3.dot'],
                ['cnfgen', '-q', 'peb', 'dag3.dot'],
                ['cnfgen', '-q', 'subsetcard', 'bipartite3.dot']]
    for argv in CLI:
        attempt(('cli', argv), lambda: cli(argv, mode='string'))
finally:
    os.chdir('/')
    shutil.rmtree(workdir)

print(H.hexdigest())
