"""Equivalence script for t10: cnfgen.clitools.cnfshuffle.cli / main"""
import hashlib, io, os, sys, random, shutil, subprocess, tempfile, contextlib
sys.path.insert(0, os.getcwd())

from cnfgen.clitools.cnfshuffle import cli
from cnfgen.formula.cnf import CNF

out = []
def rec(*a):
    out.append(repr(a))

tmp = tempfile.mkdtemp()
inputs = {
    'empty.cnf': "p cnf 0 0\n",
    'onlyvars.cnf': "c nothing\np cnf 5 0\n",
    'emptyclause.cnf': "p cnf 3 2\n0\n1 -3 0\n",
    'small.cnf': "c hello\np cnf 4 3\n1 -2 0\n2 3\n-4 0\n-1 0\n",
    'unused.cnf': "p cnf 10 3\n1 2 3 0\n-9 0\n4 -5 0\n",
    'php.cnf': None,
    'bad_count.cnf': "p cnf 3 3\n1 2 0\n",
    'bad_lit.cnf': "p cnf 2 1\n1 3 0\n",
    'truncated.cnf': "p cnf 2 1\n1 2",
    'nospec.cnf': "1 2 0\n",
    'twospec.cnf': "p cnf 1 1\np cnf 1 1\n1 0\n",
    'garbage.cnf': "p cnf 2 1\n1 x 0\n",
    'nothing.cnf': "",
}
import cnfgen
php = cnfgen.PigeonholePrinciple(4, 3)
inputs['php.cnf'] = php.to_dimacs()
for name, text in inputs.items():
    with open(os.path.join(tmp, name), 'w') as fh:
        fh.write(text)

flagsets = [[], ['-p'], ['-v'], ['-c'], ['-p', '-v'], ['-p', '-c'], ['-v', '-c'], ['-p', '-v', '-c'],
            ['--no-polarity-flips', '--no-variables-permutation', '--no-clauses-permutation'],
            ['-q'], ['-q', '-p', '-v', '-c']]
seeds = [None, '0', '42', 'hello', '', 17, 0]

def run(argv, mode):
    """run cli in process; returns observable stuff"""
    so, se = io.StringIO(), io.StringIO()
    try:
        with contextlib.redirect_stdout(so), contextlib.redirect_stderr(se):
            res = cli(argv, mode=mode)
        if isinstance(res, CNF):
            res = ('CNF', res.number_of_variables(), [list(c) for c in res],
                   list(res.all_variable_labels()), list(res.header.items()))
        return ('ok', res, so.getvalue(), se.getvalue())
    except SystemExit as e:
        return ('exit', e.code, so.getvalue(), se.getvalue())
    except BaseException as e:
        return ('exc', type(e).__name__, str(e), so.getvalue(), se.getvalue())

try:
    for name in inputs:
        path = os.path.join(tmp, name)
        for flags in flagsets:
            for seed in seeds:
                for mode in ['formula', 'string', 'output', 'other']:
                    argv = ['cnfshuffle', '-i', path] + flags
                    if seed is not None:
                        argv += ['-S', seed]
                    opath = os.path.join(tmp, 'out.cnf')
                    if mode in ('output', 'other') and (seed in ('42', None)):
                        argv += ['-o', opath]
                    random.seed(12345)   # state visible when no seed is given
                    r = run(argv, mode)
                    after = random.random()
                    content = None
                    if '-o' in argv and os.path.exists(opath):
                        with open(opath) as fh:
                            content = fh.read()
                        os.unlink(opath)
                    rec(name, flags, seed, mode, r, after, content)
                    # round trip of whatever was produced
                    if r[0] == 'ok' and isinstance(r[1], str):
                        H = CNF.from_file(io.StringIO(r[1]))
                        rec('rt', H.number_of_variables(), [list(c) for c in H])
    # command line errors
    for argv in [['cnfshuffle', '--bogus'], ['cnfshuffle', '-i', os.path.join(tmp, 'missing.cnf')],
                 ['cnfshuffle', '-h'], ['cnfshuffle', '-S'], ['cnfshuffle', 'extra'],
                 ['/some/path/shuf', '-i', os.path.join(tmp, 'small.cnf'), '-S', 3, '-p']]:
        random.seed(1)
        rec('cmdline', [str(a) for a in argv], run(argv, 'string'), random.random())

    # the real launcher, through subprocesses
    env = dict(os.environ)
    env['PYTHONPATH'] = os.getcwd()
    env['PYTHONWARNINGS'] = 'ignore'
    env['COLUMNS'] = '80'
    def sub(args, stdin_text=None):
        p = subprocess.run([sys.executable, '-W', 'ignore', '-m', 'cnfgen.clitools.cnfshuffle'] + args,
                           input=stdin_text, stdout=subprocess.PIPE, stderr=subprocess.PIPE,
                           text=True, env=env, cwd=os.getcwd())
        rec('sub', args, stdin_text, p.returncode, p.stdout, p.stderr)
    sub(['-S', '7'], inputs['small.cnf'])
    sub(['-p', '-v', '-c'], inputs['php.cnf'])
    sub(['-S', '7', '-q', '-c'], inputs['unused.cnf'])
    sub(['-S', '1'], inputs['bad_count.cnf'])
    sub(['-S', '1'], inputs['bad_lit.cnf'])
    sub([], inputs['truncated.cnf'])
    sub([], '')
    sub(['-i', os.path.join(tmp, 'missing.cnf')])
    sub(['--nope'])
    sub(['-S', '7', '-i', os.path.join(tmp, 'small.cnf'), '-o', os.path.join(tmp, 'sub.cnf')])
    with open(os.path.join(tmp, 'sub.cnf')) as fh:
        rec('subfile', fh.read())
    sub(['-S', '7', '-i', os.path.join(tmp, 'small.cnf'), '-o', os.path.join(tmp, 'nodir', 'x.cnf')])
finally:
    shutil.rmtree(tmp)

text = "\n".join(out).replace(tmp, '<TMP>')
if '-v' in sys.argv: print(text)
print(hashlib.sha256(text.encode('utf-8', 'backslashreplace')).hexdigest())
