#!/usr/bin/env python
"""Equivalence script for refactoring t9 (property C11).

Target: cnfgen/graphs.py  BipartiteEdgeList.__iter__ , i.e. the edge
enumeration that BipartiteEdgesVariables.indices() (and every group built on
top of it: graph edges, digraph edges, unary / sparse mappings) returns when
no pattern is given.

Run as:  cd <checkout> && /venv/bin/python equiv.py
Prints a single SHA256 digest of everything observed.
"""
import sys
import os
import hashlib
import random
import types
import itertools

sys.path.insert(0, os.getcwd())

from cnfgen.formula.cnf import CNF
from cnfgen.formula.basecnf import BaseCNF
from cnfgen.formula.variables import (BipartiteEdgesVariables,
                                      GraphEdgesVariables,
                                      DiGraphEdgesVariables,
                                      UnaryMappingVariables)
from cnfgen.graphs import (BipartiteGraph, CompleteBipartiteGraph, Graph,
                           DirectedGraph, BipartiteEdgeList)

LOG = []


def emit(*items):
    LOG.append(" ".join(str(x) for x in items))


def materialise(value):
    if isinstance(value, (types.GeneratorType, itertools.product, range,
                          BipartiteEdgeList)) \
            or type(value).__name__.endswith('EdgeList') \
            or type(value).__name__.endswith('iterator'):
        return [type(value).__name__, [materialise(x) for x in value]]
    if isinstance(value, (list, tuple)):
        return type(value)(materialise(x) for x in value)
    return value


def record(tag, fn, *args, **kwargs):
    try:
        res = materialise(fn(*args, **kwargs))
        emit(tag, 'OK', repr(res))
        return res
    except Exception as e:  # noqa
        emit(tag, 'EXC', type(e).__name__, str(e))
        return None


def random_bipartite(rng, L, R, p):
    B = BipartiteGraph(L, R)
    pairs = [(u, v) for u in range(1, L + 1) for v in range(1, R + 1)]
    rng.shuffle(pairs)
    for u, v in pairs:
        if rng.random() < p:
            B.add_edge(u, v)
    return B


def probe_edge_list(tag, B):
    E = B.edges()
    record(tag + ' type', lambda: type(E).__name__)
    record(tag + ' len', len, E)
    record(tag + ' iter1', list, E)
    # a second, independent iteration over the same object
    record(tag + ' iter2', lambda: [e for e in E])
    # two interleaved iterators
    it1, it2 = iter(E), iter(E)
    inter = []
    for _ in range(len(E) + 2):
        for it in (it1, it2):
            try:
                inter.append(next(it))
            except StopIteration:
                inter.append('STOP')
    emit(tag + ' interleaved', repr(inter))
    record(tag + ' iter-type', lambda: type(iter(E)).__name__)
    for t in [(1, 1), (1, 2), (0, 0), (2, 1), (1, 2, 3), (99, 99)]:
        record(tag + ' contains ' + repr(t), lambda t=t: t in E)
    # mutation between two steps of the iteration is observed lazily
    it = iter(E)
    first = next(it, 'STOP')
    emit(tag + ' first', repr(first))


def probe_group(tag, F, vg, lits_extra=()):
    record(tag + ' len', len, vg)
    record(tag + ' ids', lambda: (vg.ids.start, vg.ids.stop))
    idx = record(tag + ' indices()', vg.indices)
    record(tag + ' call()', vg)
    record(tag + ' label()', vg.label)
    record(tag + ' to_dict', lambda: sorted(vg.to_dict().items()))
    ids = list(vg)
    for i in ids:
        record(tag + ' to_index +%d' % i, vg.to_index, i)
        record(tag + ' to_index -%d' % i, vg.to_index, -i)
    for lit in list(lits_extra) + [0, (ids[0] - 1) if ids else 0,
                                    (ids[-1] + 1) if ids else 1]:
        record(tag + ' to_index out %d' % lit, vg.to_index, lit)
    # round trip in identifier order
    seq = []
    for t in vg.indices():
        seq.append((tuple(t), vg(*t), vg.label(*t)))
    emit(tag + ' roundtrip', repr(seq))
    emit(tag + ' contiguous', [x[1] for x in seq] == ids)
    # patterns with wildcards
    for pat in [(None, None), (1, None), (None, 1), (2, None), (None, 2),
                (3, None), (None, 3), (0, None), (None, 0), (99, None),
                (None, 99), (1, 1), (2, 1), (1, 2), (3, 3), (0, 0),
                (1,), (1, 2, 3)]:
        record(tag + ' indices' + repr(pat), vg.indices, *pat)
        record(tag + ' call' + repr(pat), vg, *pat)
        record(tag + ' label' + repr(pat), vg.label, *pat)


def main():
    rng = random.Random(20240911)

    # --- the edge lists themselves ------------------------------------
    shapes = [(0, 0), (0, 3), (3, 0), (1, 1), (2, 3), (4, 4), (5, 2), (7, 6)]
    graphs = []
    for L, R in shapes:
        for p in (0.0, 0.3, 0.7, 1.0):
            B = random_bipartite(rng, L, R, p)
            graphs.append(('B(%d,%d,%.1f)' % (L, R, p), B))
        graphs.append(('K(%d,%d)' % (L, R), CompleteBipartiteGraph(L, R)))
    for tag, B in graphs:
        probe_edge_list('EL ' + tag, B)

    # lazy behaviour: edges added while iterating
    B = BipartiteGraph(3, 3)
    B.add_edge(1, 2)
    B.add_edge(2, 2)
    it = iter(B.edges())
    got = [next(it)]
    B.add_edge(1, 3)
    B.add_edge(2, 1)
    B.add_edge(3, 3)
    got.extend(it)
    emit('lazy mutation', repr(got))

    # a bipartite-like object with surprising answers
    class Weird(BipartiteGraph):
        def left_order(self):
            emit('weird left_order called')
            return 2

        def right_neighbors(self, u):
            emit('weird right_neighbors', u)
            return iter([u, u + 10])

    W = Weird(5, 20)
    record('weird edges', list, W.edges())

    # --- groups built on those edge lists -----------------------------
    for tag, B in graphs:
        F = CNF()
        pre = rng.randrange(0, 4)
        if pre:
            F.update_variable_number(pre)
        e = record('new_bipartite_edges ' + tag,
                   lambda: type(F.new_bipartite_edges(B, label='b[{},{}]')).__name__)
        vg = F._groups[-1]
        probe_group('BG ' + tag, F, vg)
        F.add_clause([1, -(F.number_of_variables() + 2)])
        m = F.new_sparse_mapping(B, label='f({})={}')
        probe_group('SM ' + tag, F, m)
        record('SM domain ' + tag, m.domain)
        record('SM range ' + tag, m.range)
        x = F.new_variable('X')
        emit('labels ' + tag, repr(list(F.all_variable_labels())))
        emit('labels y ' + tag, repr(list(F.all_variable_labels('y_{}'))))
        emit('numvar ' + tag, F.number_of_variables(), x)
        try:
            F.force_complete_mapping(m)
            F.force_functional_mapping(m)
            F.force_injective_mapping(m)
            F.force_surjective_mapping(m)
            F.force_nondecreasing_mapping(m)
        except Exception as ex:  # noqa
            emit('force EXC', type(ex).__name__, str(ex))
        emit('clauses ' + tag, repr(list(F)))
        emit('dimacs ' + tag, F.to_dimacs())

    # unary mappings (complete bipartite)
    for n, m in [(0, 0), (0, 2), (2, 0), (1, 1), (3, 2), (2, 4)]:
        F = CNF()
        F.update_variable_number(n)
        f = F.new_mapping(n, m)
        probe_group('UM %d %d' % (n, m), F, f)
        emit('UM labels', repr(list(F.all_variable_labels())))

    # simple and directed graphs
    for n in [0, 1, 2, 4, 6]:
        for p in (0.0, 0.4, 1.0):
            G = Graph(n)
            D = DirectedGraph(n)
            pairs = [(u, v) for u in range(1, n + 1) for v in range(1, n + 1) if u != v]
            rng.shuffle(pairs)
            for u, v in pairs:
                if rng.random() < p:
                    if not G.has_edge(u, v):
                        G.add_edge(u, v)
                if rng.random() < p:
                    D.add_edge(u, v)
            F = CNF()
            F.add_clause([2, -3])
            g = F.new_graph_edges(G, label='g{{{},{}}}')
            probe_group('GE %d %.1f' % (n, p), F, g)
            F.update_variable_number(F.number_of_variables() + 2)
            d1 = F.new_digraph_edges(D, label='d({},{})')
            probe_group('DP %d %.1f' % (n, p), F, d1)
            d2 = F.new_digraph_edges(D, label='s({},{})', sortby='succ')
            probe_group('DS %d %.1f' % (n, p), F, d2)
            emit('G labels', repr(list(F.all_variable_labels())))
            emit('G dimacs', F.to_dimacs())

    # error paths of the constructors
    F = BaseCNF()
    record('bad graph 1', BipartiteEdgesVariables, F, Graph(2))
    record('bad graph 2', GraphEdgesVariables, F, BipartiteGraph(2, 2))
    record('bad graph 3', DiGraphEdgesVariables, F, Graph(2))
    record('bad label', BipartiteEdgesVariables, F, BipartiteGraph(2, 2), '{}{}{}')
    record('bad sortby', DiGraphEdgesVariables, F, DirectedGraph(2), 'e{}{}', 'other')

    data = "\n".join(LOG).encode('utf-8')
    print(hashlib.sha256(data).hexdigest())


if __name__ == '__main__':
    main()
