"""Equivalence script for the refactoring of BipartiteGraph.add_edge
(cnfgen/graphs.py).  Prints one SHA256 digest."""
import sys, os, hashlib, io, contextlib, random
from itertools import product
sys.path.insert(0, os.getcwd())

import networkx
from cnfgen import cnfgen
from cnfgen.graphs import (BipartiteGraph, CompleteBipartiteGraph,
                           bipartite_random_left_regular,
                           bipartite_random_regular, bipartite_random_m_edges,
                           bipartite_random, bipartite_shift,
                           add_random_missing_edges, split_random_edges)
from cnfgen.families.pigeonhole import GraphPigeonholePrinciple
from cnfgen.families.subsetcardinality import SubsetCardinalityFormula

H = hashlib.sha256()


def rec(*items):
    for it in items:
        H.update(repr(it).encode('utf-8'))
        H.update(b'\x00')
    H.update(b'\n')


def attempt(tag, fn):
    try:
        rec(tag, 'OK', fn())
    except BaseException as e:
        rec(tag, 'EXC', type(e).__name__, str(e))


def state(B):
    return (B.left_order(), B.right_order(), B.number_of_edges(),
            sorted(B.ladj.items()), sorted(B.radj.items()),
            list(B.ladj.keys()), list(B.radj.keys()),
            sorted(B.edgeset), list(B.edges()), B.name,
            [B.right_neighbors(u) for u in range(1, B.left_order() + 1)],
            [B.left_neighbors(v) for v in range(1, B.right_order() + 1)],
            [B.right_degree(u) for u in range(1, B.left_order() + 1)],
            [B.left_degree(v) for v in range(1, B.right_order() + 1)])


# 1. add_edge directly: valid, duplicated and invalid edges, odd argument types
for (L, R) in [(0, 0), (0, 3), (3, 0), (1, 1), (3, 5), (4, 4)]:
    B = BipartiteGraph(L, R)
    rec('empty', L, R, state(B))
    pairs = list(product(range(-1, L + 3), range(-1, R + 3)))
    random.seed(1000 * L + R)
    random.shuffle(pairs)
    for (u, v) in pairs + pairs[:7]:
        attempt(('add', L, R, u, v), lambda: B.add_edge(u, v))
        rec('state', state(B))
    for (u, v) in [(1, 'a'), ('a', 1), (None, 1), (1, None), (1.0, 1.0),
                   (1.5, 1), (1, 2.5), (True, True), ([1], 1), (1, [1]),
                   (0, 'a'), (L + 1, None), ('a', 0)]:
        attempt(('add-odd', L, R, u, v), lambda: B.add_edge(u, v))
        attempt(('state-odd', L, R, u, v),
                lambda: (sorted(B.ladj.items(), key=repr),
                         sorted(B.radj.items(), key=repr),
                         sorted(B.edgeset, key=repr)))
    attempt(('add_edges_from', L, R),
            lambda: B.add_edges_from([(1, 1), (L, R), (L, R + 1)]))
    attempt(('has', L, R), lambda: [B.has_edge(u, v) for u, v in pairs])

# 2. insertion order independence / sorted adjacency
for seed in range(5):
    random.seed(seed)
    B = BipartiteGraph(6, 7)
    edges = [(random.randint(1, 6), random.randint(1, 7)) for _ in range(40)]
    for e in edges:
        B.add_edge(*e)
    rec('rand-insert', seed, edges, state(B))

# 3. conversion from networkx
def nxgraphs():
    yield 'k34', networkx.bipartite.complete_bipartite_graph(3, 4)
    yield 'k00', networkx.bipartite.complete_bipartite_graph(0, 0)
    G = networkx.Graph(name='custom')
    G.add_nodes_from(['z', 'b', 'c'], bipartite=0)
    G.add_nodes_from([10, 7, 8, 9], bipartite=1)
    G.add_edges_from([('z', 7), (9, 'b'), ('c', 10), (8, 'z'), ('z', 9), (7, 'z')])
    yield 'custom', G
    G = networkx.Graph()
    G.add_nodes_from([1, 2], bipartite='0')
    G.add_nodes_from([3, 4], bipartite='1')
    G.add_edges_from([(1, 3), (4, 2), (2, 3)])
    yield 'strlabels', G
    G = networkx.Graph()
    G.add_nodes_from([1, 2], bipartite=0)
    G.add_nodes_from([3, 4], bipartite=1)
    G.add_edges_from([(1, 2)])
    yield 'across-left', G
    G = networkx.Graph()
    G.add_nodes_from([1, 2], bipartite=0)
    G.add_nodes_from([3, 4], bipartite=1)
    G.add_edges_from([(1, 3), (3, 4)])
    yield 'across-right', G
    G = networkx.Graph()
    G.add_nodes_from([1, 2], bipartite=0)
    G.add_node(3)
    yield 'unlabelled', G
    G = networkx.Graph()
    G.add_nodes_from([1, 2], bipartite=2)
    yield 'badlabel', G
    G = networkx.MultiGraph()
    G.add_nodes_from([1, 2], bipartite=0)
    G.add_nodes_from([3, 4], bipartite=1)
    G.add_edges_from([(1, 3), (1, 3), (3, 1), (2, 4)])
    yield 'multi', G
    yield 'digraph', networkx.DiGraph([(1, 2)])

for name, G in nxgraphs():
    attempt(('from_nx', name), lambda: state(BipartiteGraph.from_networkx(G)))
    attempt(('normalize', name), lambda: state(BipartiteGraph.normalize(G, 'G')))
    attempt(('gphp-nx', name), lambda: GraphPigeonholePrinciple(G).to_dimacs())
    attempt(('ssc-nx', name), lambda: SubsetCardinalityFormula(G).to_dimacs())
for bad in [None, 3, 'graph', [(1, 2)]]:
    attempt(('normalize-bad', bad), lambda: BipartiteGraph.normalize(bad, 'X'))
    attempt(('from_nx-bad', bad), lambda: BipartiteGraph.from_networkx(bad))

# 4. round trip and generators (random streams for fixed seeds)
gens = []
for seed in [0, 1, 7]:
    gens += [
        ('glrd', seed, lambda s=seed: bipartite_random_left_regular(5, 4, 2, seed=s)),
        ('glrd-big-d', seed, lambda s=seed: bipartite_random_left_regular(3, 2, 5, seed=s)),
        ('regular', seed, lambda s=seed: bipartite_random_regular(6, 4, 2, seed=s)),
        ('gnm', seed, lambda s=seed: bipartite_random_m_edges(4, 5, 9, seed=s)),
        ('gnp', seed, lambda s=seed: bipartite_random(4, 5, 0.5, seed=s)),
    ]
gens += [('shift', 0, lambda: bipartite_shift(5, 6, [1, 2, 4])),
         ('shift-empty', 0, lambda: bipartite_shift(3, 3, [])),
         ('glrd-neg', 0, lambda: bipartite_random_left_regular(-1, 2, 1, seed=1)),
         ('complete', 0, lambda: CompleteBipartiteGraph(2, 3))]


def models(F):
    nv = F.number_of_variables()
    cls = [list(c) for c in F.clauses()]
    return [bits for bits in product([False, True], repeat=nv)
            if all(any((bits[abs(l) - 1] == (l > 0)) for l in c) for c in cls)]


for name, seed, mk in gens:
    def go():
        B = mk()
        out = [state(B) if type(B) is BipartiteGraph else list(B.edges())]
        N = B.to_networkx()
        out.append((sorted(N.nodes(data=True)), sorted(N.edges())))
        out.append(state(BipartiteGraph.from_networkx(N)))
        for functional, onto in product([False, True], repeat=2):
            F = GraphPigeonholePrinciple(B, functional=functional, onto=onto)
            out.append(F.to_dimacs())
        if type(B) is BipartiteGraph:
            # in-place addition of random edges (and its error path)
            try:
                add_random_missing_edges(B, 2, seed=seed)
                add_random_missing_edges(B, 1)
                out.append(state(B))
                add_random_missing_edges(B, 1000)
            except (ValueError, RuntimeError) as e:
                out.append((type(e).__name__, str(e), state(B)))
        for functional, onto in product([False, True], repeat=2):
            F = GraphPigeonholePrinciple(B, functional=functional, onto=onto)
            out.append(F.to_dimacs())
            if F.number_of_variables() <= 12:
                ms = models(F)
                out.append((len(ms), ms[:4]))
        for eq in [False, True]:
            F = SubsetCardinalityFormula(B, equalities=eq)
            out.append(F.to_dimacs())
            if F.number_of_variables() <= 12:
                ms = models(F)
                out.append((len(ms), ms[:4]))
        return out
    attempt(('gen', name, seed), go)

# 5. graph file input (kthlist and matrix readers call add_edge)
files = {
    'kthlist': ["c comment\n5\n1 : 4 5 0\n2 : 5 0\n3 : 4 0\n",
                "3\n1 : 2 3 0\n",
                "4\n1 : 3 4 0\n2 : 3 0\n1 : 4 0\n",
                "4\n1 : 3 0\n3 : 1 0\n",
                "2\n1 : 5 0\n",
                "0\n"],
    'matrix': ["3 4\n1 0 1 0\n0 1 1 1\n1 1 0 0\n", "0 0\n", "2 2\n1 1\n1\n",
               "2 2\n1 2\n0 1\n", "1 3\n0 0 0\n"],
}
for fmt, texts in files.items():
    for t in texts:
        attempt(('file', fmt, t),
                lambda: state(BipartiteGraph.from_file(io.StringIO(t), fmt)))

# 6. command line
for argv in [['php', 'glrd', '5', '4', '2'], ['php', '5', '4', '2'],
             ['php', 'regular', '4', '4', '2', '--functional'],
             ['php', 'glrm', '4', '4', '6', '--onto'],
             ['php', 'shift', '4', '4', '1', '2', 'addedges', '2'],
             ['php', 'empty', '3', '3', 'plantbiclique', '2', '2'],
             ['subsetcard', '4'], ['subsetcard', '5'], ['subsetcard', '5', '2'], ['subsetcard', '6', '4', '-e'],
             ['subsetcard', 'glrp', '4', '4', '.5'],
             ['php', 'glrd', '3', '2', '5'], ['php', 'glrm', '2', '2', '9'], ['php', 'complete', '2', '2', 'addedges', '1']]:
    for of in ['dimacs', 'opb']:
        def go():
            out = io.StringIO()
            with contextlib.redirect_stdout(out), contextlib.redirect_stderr(out):
                r = cnfgen(['cnfgen', '--seed', '23', '-of', of] + argv, mode='string')
            return (r, out.getvalue())
        attempt(('cli', argv, of), go)

print(H.hexdigest())
