"""Equivalence check for the two-index pattern handling of the edge /
mapping variable groups (C11)."""
import sys, os, hashlib, itertools, random, warnings
warnings.simplefilter('ignore')
sys.path.insert(0, os.getcwd())

from cnfgen.formula.cnf import CNF
from cnfgen.formula.opb import OPB
from cnfgen.formula.basecnf import BaseCNF
from cnfgen.graphs import Graph, DirectedGraph, BipartiteGraph, CompleteBipartiteGraph
from cnfgen.formula.variables import (BipartiteEdgesVariables, GraphEdgesVariables,
                                      DiGraphEdgesVariables, UnaryMappingVariables,
                                      BinaryMappingVariables)

out = []


def rec(*args):
    out.append(repr(args))


def materialize(x):
    if x is None or isinstance(x, (int, str, tuple)):
        return x
    return list(x)


def attempt(tag, fn):
    try:
        res = materialize(fn())
        rec(tag, 'ok', res)
        return res
    except Exception as e:  # noqa
        rec(tag, 'EXC', type(e).__name__, str(e))
        return None


def patterns(n, m):
    vals_u = [None, -1, 0, 1, 2, n, n + 1]
    vals_v = [None, -1, 0, 1, 2, m, m + 1]
    pats = [()]
    pats += [(a,) for a in [None, 1, 0]]
    pats += list(itertools.product(vals_u, vals_v))
    pats += [(1, 1, 1), (None, None, None), (1, None, 2), (1, 2, 3, 4)]
    return pats


def dump_group(tag, F, g, n, m):
    rec(tag, 'len', len(g), 'ids', list(g), repr(g.ids), F.number_of_variables())
    for pat in patterns(n, m):
        attempt((tag, 'indices', pat), lambda: g.indices(*pat))
        attempt((tag, 'call', pat), lambda: g(*pat))
        attempt((tag, 'label', pat), lambda: g.label(*pat))
    attempt((tag, 'to_dict'), lambda: list(g.to_dict().items()))
    for idx in list(g.indices()):
        v = g(*idx)
        rec(tag, 'rt', idx, v, g.to_index(v), g.to_index(-v), v in g, -v in g)
    ids = list(g)
    lo = ids[0] if ids else F.number_of_variables() + 1
    hi = ids[-1] if ids else F.number_of_variables()
    for lit in [lo - 1, -(lo - 1), hi + 1, -(hi + 1), 0]:
        attempt((tag, 'to_index', lit), lambda: g.to_index(lit))


rnd = random.Random(20241)


def rnd_bipartite(n, m, p):
    B = BipartiteGraph(n, m)
    for u in range(1, n + 1):
        for v in range(1, m + 1):
            if rnd.random() < p:
                B.add_edge(u, v)
    return B


def rnd_graph(n, p):
    G = Graph(n)
    for u in range(1, n + 1):
        for v in range(u + 1, n + 1):
            if rnd.random() < p:
                G.add_edge(v, u) if rnd.random() < 0.5 else G.add_edge(u, v)
    return G


def rnd_digraph(n, p):
    D = DirectedGraph(n)
    for u in range(1, n + 1):
        for v in range(1, n + 1):
            if u != v and rnd.random() < p:
                D.add_edge(u, v)
    return D


# bipartite edges, sparse mappings
for (n, m, p) in [(0, 0, 0), (0, 3, 0), (3, 0, 0), (2, 3, 0.0), (2, 3, 0.5),
                  (4, 4, 0.4), (3, 5, 1.0), (1, 1, 1.0), (5, 2, 0.3)]:
    for start in (0, 7):
        B = rnd_bipartite(n, m, p)
        F = BaseCNF()
        F.update_variable_number(start)
        g = BipartiteEdgesVariables(F, B, labelfmt='E[{},{}]')
        dump_group(('bip', n, m, p, start), F, g, n, m)
        F = CNF()
        F.update_variable_number(start)
        f = F.new_sparse_mapping(B, label='s({})={}')
        dump_group(('sparse', n, m, p, start), F, f, n, m)
        rec('sparse dom/rng', list(f.domain()), list(f.range()),
            [list(f.domain(v)) for v in range(1, m + 1)],
            [list(f.range(u)) for u in range(1, n + 1)])
        for meth in ['force_complete_mapping', 'force_functional_mapping',
                     'force_surjective_mapping', 'force_injective_mapping',
                     'force_nondecreasing_mapping']:
            attempt(('sparse', meth), lambda: getattr(F, meth)(f))
        rec('sparse formula', list(F), list(F.all_variable_labels()), F.to_dimacs())

# complete bipartite / unary mapping
for (n, m) in [(0, 0), (0, 2), (2, 0), (1, 1), (3, 4), (4, 2)]:
    for cls in (CNF, OPB):
        F = cls()
        x = F.new_variable('x')
        f = F.new_mapping(n, m)
        F.update_variable_number(F.number_of_variables() + 2)
        e = F.new_bipartite_edges(CompleteBipartiteGraph(n, m), label='K<{},{}>')
        dump_group(('unary', cls.__name__, n, m), F, f, n, m)
        dump_group(('Knm', cls.__name__, n, m), F, e, n, m)
        for meth in ['force_complete_mapping', 'force_functional_mapping',
                     'force_surjective_mapping', 'force_injective_mapping',
                     'force_nondecreasing_mapping']:
            attempt(('unary', meth), lambda: getattr(F, meth)(f))
        rec('unary formula', list(F), list(F.all_variable_labels()))
        rec('unary out', F.to_dimacs() if cls is CNF else F.to_opb())

# simple graphs
for (n, p) in [(0, 0), (1, 0), (2, 1.0), (4, 0.0), (4, 0.5), (5, 0.6), (5, 1.0), (6, 0.3)]:
    for start in (0, 4):
        G = rnd_graph(n, p)
        F = BaseCNF()
        F.update_variable_number(start)
        g = GraphEdgesVariables(F, G, labelfmt='e{{{},{}}}')
        dump_group(('graph', n, p, start), F, g, n, n)
        F = CNF()
        F.new_block(start, label='b{}')
        g = F.new_graph_edges(G)
        F.add_clause([F.number_of_variables() + 2])
        dump_group(('mgr graph', n, p, start), F, g, n, n)
        rec('graph labels', list(F.all_variable_labels()), F.to_dimacs())

# directed graphs
for (n, p) in [(0, 0), (1, 0), (3, 0.0), (3, 1.0), (4, 0.4), (5, 0.3), (5, 0.7)]:
    for sortby in ('pred', 'succ'):
        for start in (0, 5):
            D = rnd_digraph(n, p)
            F = BaseCNF()
            F.update_variable_number(start)
            g = DiGraphEdgesVariables(F, D, labelfmt='a({},{})', sortby=sortby)
            dump_group(('digraph', n, p, sortby, start), F, g, n, n)
            F = OPB()
            F.update_variable_number(start)
            g = F.new_digraph_edges(D, sortby=sortby)
            y = F.new_variable('y')
            dump_group(('mgr digraph', n, p, sortby, start), F, g, n, n)
            rec('digraph labels', list(F.all_variable_labels()), F.to_opb())

# binary mappings
for (n, m) in [(0, 0), (0, 5), (3, 0), (3, 1), (1, 2), (2, 3), (4, 6), (3, 8), (2, 9)]:
    for start in (0, 3):
        F = BaseCNF()
        F.update_variable_number(start)
        g = BinaryMappingVariables(F, n, m, labelfmt='v<{},{}>')
        k = g.bits()
        rec('binary', n, m, start, k, list(g.domain()), list(g.range()), g.flips)
        dump_group(('binary', n, m, start), F, g, n, k)
        for i in range(0, n + 2):
            for j in [-1, 0, 1, m - 1, m, 2 ** k - 1, 2 ** k]:
                attempt(('forbid', n, m, i, j), lambda: g.forbid(i, j))
        F = CNF()
        F.update_variable_number(start)
        f = F.new_binary_mapping(n, m)
        F.add_clause([-(F.number_of_variables() + 1)])
        z = F.new_block(2, 2)
        dump_group(('mgr binary', n, m, start), F, f, n, f.bits())
        for meth in ['force_complete_mapping', 'force_functional_mapping',
                     'force_surjective_mapping', 'force_injective_mapping',
                     'force_nondecreasing_mapping']:
            attempt(('binary', meth), lambda: getattr(F, meth)(f))
        rec('binary formula', list(F), list(F.all_variable_labels()), F.to_dimacs())

# constructor error paths
F = BaseCNF()
attempt('bad1', lambda: BinaryMappingVariables(F, -1, 2))
attempt('bad2', lambda: BinaryMappingVariables(F, 2, -1))
attempt('bad3', lambda: BipartiteEdgesVariables(F, Graph(3)))
attempt('bad4', lambda: GraphEdgesVariables(F, BipartiteGraph(2, 2)))
attempt('bad5', lambda: DiGraphEdgesVariables(F, Graph(2)))
attempt('bad6', lambda: DiGraphEdgesVariables(F, DirectedGraph(2), sortby='x'))
attempt('bad7', lambda: BipartiteEdgesVariables(F, BipartiteGraph(2, 2), labelfmt='{}{}{}'))
C = CNF()
attempt('bad8', lambda: C.new_mapping(-1, 2))
attempt('bad9', lambda: C.new_binary_mapping(2, -2))
attempt('bad10', lambda: C.new_sparse_mapping(Graph(3)))
rec('after', F.number_of_variables(), C.number_of_variables())

print(hashlib.sha256('\n'.join(out).encode('utf-8')).hexdigest())
