#!/usr/bin/env python
"""Equivalence script for t21: validation preamble of the force_*_mapping
methods of VariablesManager, and every graph family built on mappings."""
import sys, os, hashlib, itertools, random
sys.path.insert(0, os.getcwd())

import networkx as nx
from cnfgen.formula.cnf import CNF
from cnfgen.formula.basecnf import BaseCNF
from cnfgen.formula.linear import CNFLinear
from cnfgen.formula.variables import VariablesManager
from cnfgen.graphs import Graph, BipartiteGraph
from cnfgen.families.graphisomorphism import GraphIsomorphism, GraphAutomorphism
from cnfgen.families.subgraph import (SubgraphFormula, CliqueFormula,
                                      BinaryCliqueFormula, RamseyWitnessFormula)
from cnfgen.families.dominatingset import DominatingSet, Tiling
from cnfgen.families.coloring import GraphColoringFormula
from cnfgen.families.pigeonhole import PigeonholePrinciple, BinaryPigeonholePrinciple

H = hashlib.sha256()


def emit(*things):
    for t in things:
        H.update(repr(t).encode('utf-8'))
        H.update(b'\n')


def attempt(tag, fn):
    try:
        res = fn()
    except Exception as e:  # record type and message
        emit(tag, 'EXC', type(e).__name__, str(e))
        return None
    emit(tag, 'OK', res if res is None else type(res).__name__)
    return res


def dump(tag, F):
    emit(tag, F.number_of_variables(), F.number_of_clauses(),
         [list(c) for c in F.clauses()], F.header.get('description'),
         list(F.all_variable_labels()))


METHODS = ['force_complete_mapping', 'force_functional_mapping',
           'force_surjective_mapping', 'force_injective_mapping',
           'force_nondecreasing_mapping']

# --- direct use of the methods on all kinds of mappings -----------------
rnd = random.Random(2024)
for n, m in itertools.product(range(0, 5), range(0, 6)):
    for kind in ['unary', 'binary', 'sparse']:
        for meth in METHODS:
            F = CNF()
            F.new_variable('pad')
            if kind == 'unary':
                f = F.new_mapping(n, m)
            elif kind == 'binary':
                f = F.new_binary_mapping(n, m)
            else:
                B = BipartiteGraph(n, m)
                for u in range(1, n + 1):
                    for v in range(1, m + 1):
                        if rnd.random() < 0.6:
                            B.add_edge(u, v)
                f = F.new_sparse_mapping(B)
            attempt((n, m, kind, meth), lambda: getattr(F, meth)(f))
            dump((n, m, kind, meth), F)

# --- error paths: wrong type of f, mapping from another formula ---------
for meth in METHODS:
    F = CNF()
    G = CNF()
    fu = F.new_mapping(3, 4)
    fb = F.new_binary_mapping(3, 5)
    gu = G.new_mapping(3, 4)
    gb = G.new_binary_mapping(3, 5)
    blk = F.new_block(3, 4)
    edges = F.new_graph_edges(Graph.complete_graph(4))
    for name, obj in [('None', None), ('int', 3), ('str', 'f'), ('block', blk),
                      ('edges', edges), ('list', [1, 2]),
                      ('foreign-unary', gu), ('foreign-binary', gb),
                      ('own-unary', fu), ('own-binary', fb)]:
        attempt((meth, name), lambda: getattr(F, meth)(obj))
    dump(meth, F)
    dump(meth + '-other', G)
    # plain VariablesManager wrapping other formula kinds
    for base in (BaseCNF, CNFLinear):
        C = base()
        V = VariablesManager(C)
        f = V.new_mapping(3, 3)
        g = V.new_binary_mapping(2, 3)
        attempt((meth, base.__name__, 'u'), lambda: getattr(V, meth)(f))
        attempt((meth, base.__name__, 'b'), lambda: getattr(V, meth)(g))
        attempt((meth, base.__name__, 'foreign'), lambda: getattr(V, meth)(fu))
        emit([list(c) for c in C.clauses()])


# --- the graph families that rely on these methods -----------------------
def graphs():
    yield Graph.null_graph()
    yield Graph(1)
    yield Graph.empty_graph(3)
    yield Graph.complete_graph(4)
    yield Graph.star_graph(3)
    r = random.Random(7)
    for n in (2, 3, 4, 5):
        for p in (0.3, 0.7):
            G = Graph(n, 'rnd{}-{}'.format(n, p))
            for u, v in itertools.combinations(range(1, n + 1), 2):
                if r.random() < p:
                    G.add_edge(u, v)
            yield G
    yield nx.path_graph(4)
    yield nx.cycle_graph(5)


GS = list(graphs())
for i, G in enumerate(GS):
    for k in range(0, 4):
        for sb in (True, False):
            F = attempt(('clique', i, k, sb), lambda: CliqueFormula(G, k, symbreak=sb))
            if F is not None:
                dump(('clique', i, k, sb), F)
            F = attempt(('bclique', i, k, sb), lambda: BinaryCliqueFormula(G, k, symbreak=sb))
            if F is not None:
                dump(('bclique', i, k, sb), F)
        for s in range(0, 3):
            F = attempt(('ram', i, k, s), lambda: RamseyWitnessFormula(G, k, s, symbreak=(s % 2 == 0)))
            if F is not None:
                dump(('ram', i, k, s), F)
        F = attempt(('col', i, k), lambda: GraphColoringFormula(G, k, functional=(k % 2 == 0)))
        if F is not None:
            dump(('col', i, k), F)
    for d in range(0, 4):
        for alt in (False, True):
            F = attempt(('dom', i, d, alt), lambda: DominatingSet(G, d, alternative=alt))
            if F is not None:
                dump(('dom', i, d, alt), F)
    F = attempt(('aut', i), lambda: GraphAutomorphism(G))
    if F is not None:
        dump(('aut', i), F)

for (i, G1), (j, G2) in itertools.product(list(enumerate(GS))[:9], repeat=2):
    for nt in (False, True):
        F = attempt(('iso', i, j, nt), lambda: GraphIsomorphism(G1, G2, nontrivial=nt))
        if F is not None:
            dump(('iso', i, j, nt), F)
    for ind, sb in itertools.product((False, True), repeat=2):
        F = attempt(('sub', i, j, ind, sb), lambda: SubgraphFormula(G1, G2, induced=ind, symbreak=sb))
        if F is not None:
            dump(('sub', i, j, ind, sb), F)

for p, h in itertools.product(range(0, 4), range(0, 4)):
    for fn, on in itertools.product((False, True), repeat=2):
        F = attempt(('php', p, h, fn, on), lambda: PigeonholePrinciple(p, h, functional=fn, onto=on))
        if F is not None:
            dump(('php', p, h, fn, on), F)
    F = attempt(('bphp', p, h), lambda: BinaryPigeonholePrinciple(p, h))
    if F is not None:
        dump(('bphp', p, h), F)

print(H.hexdigest())
