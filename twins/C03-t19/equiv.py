#!/usr/bin/env python
"""Equivalence script for t19: command line helper of the (graph) ordering
principle, cnfgen/clihelpers/ordering_helpers.py :: OPCmdHelper.build_formula

Run as:  cd <checkout> && /venv/bin/python equiv.py
Prints one SHA256 digest of everything observable.
"""
import sys
import os
import hashlib
import itertools
import random
import warnings
from argparse import Namespace

warnings.simplefilter('ignore')
sys.path.insert(0, os.getcwd())

from cnfgen.formula.cnf import CNF
from cnfgen.graphs import Graph
from cnfgen.clitools.cnfgen import cli
from cnfgen.clihelpers.ordering_helpers import OPCmdHelper

H = hashlib.sha256()


def emit(*items):
    for x in items:
        H.update(repr(x).encode('utf-8'))
        H.update(b'\x00')


def observe_formula(F):
    emit(sorted(F.header.items()) if hasattr(F.header, 'items') else F.header)
    emit(F.number_of_variables(), len(F))
    emit(list(F.all_variable_labels()))
    emit([list(c) for c in F.clauses()])
    emit(F.to_dimacs())


def describe(x):
    if isinstance(x, Namespace):
        return sorted((k, describe(v)) for k, v in vars(x).items())
    if isinstance(x, Graph):
        return ('Graph', x.name, x.number_of_vertices(), sorted(x.edges()))
    if isinstance(x, type):
        return x.__name__
    return repr(x)


def attempt(tag, fn, *args, **kwargs):
    emit('CALL', tag, [describe(a) for a in args], sorted(kwargs.items()))
    try:
        res = fn(*args, **kwargs)
    except BaseException as e:  # noqa
        emit('EXC', type(e).__name__, str(e))
        return None
    return res


flagsets = [[], ['--total'], ['--smart'], ['--knuth2'], ['--knuth3'],
            ['--plant'], ['-t', '-p'], ['-s', '-p'], ['--knuth2', '--plant'],
            ['--knuth3', '-p'], ['-t', '-s'], ['--knuth2', '--knuth3'],
            ['--total', '--knuth2']]

positional = [
    ['0'], ['1'], ['2'], ['3'], ['4'], ['5'], ['6'],
    ['4', '3'], ['6', '3'], ['5', '2'], ['5', '4'], ['8', '3'], ['7', '4'],
    ['5', '3'], ['7', '3'], ['3', '3'], ['3', '5'], ['4', '0'], ['1', '0'],
    ['5', '0'], ['0', '0'], ['2', '1'], ['3', '1'], ['5', '-1'],
    ['-1'], ['-3', '2'], ['x'], ['4', 'y'], ['4', '2', '1'], [],
    ['gnd', '6', '3'], ['gnd', '5', '3'], ['gnm', '6', '8'], ['gnp', '6', '.5'],
    ['complete', '4'], ['grid', '2', '3'], ['torus', '3', '3'],
    ['complete', '0'], ['gnm', '5', '0'], ['nosuchgraph', '3'],
    ['gnm', '6', '8', 'addedges', '2'], ['gnm', '6', '8', 'plantclique', '3'],
]

for pos in positional:
    for flags in flagsets:
        for order in (0, 1):
            if order == 0:
                cmd = ['cnfgen', '-q', '--seed', '17', 'op'] + flags + pos
            else:
                if not flags or len(flags) > 1 or len(pos) > 2:
                    continue
                cmd = ['cnfgen', '-q', '--seed', '17', 'op'] + pos + flags
            random.seed(1234)
            out = attempt('cli', cli, cmd, mode='string')
            emit(out)
            # state of the random stream afterwards
            emit(random.random())

# other output formats / verbose
for cmd in [
        ['cnfgen', '--seed', '5', 'op', '6', '3'],
        ['cnfgen', '--seed', '5', '-of', 'latex', 'op', '5', '2', '--smart'],
        ['cnfgen', '--seed', '5', '-of', 'opb', 'op', '4', '--plant'],
        ['cnfgen', '--seed', '5', 'op', '6', '3', '-T', 'shuffle'],
        ['cnfgen', '--seed', '5', 'op', '5', '3', '-T', 'shuffle'],
]:
    random.seed(99)
    out = attempt('cli2', cli, cmd, mode='string')
    emit(out)
    F = attempt('cli2f', cli, cmd, mode='formula')
    if F is not None:
        observe_formula(F)

# direct calls of the helper with hand-made namespaces
graphs = [Graph.complete_graph(0), Graph.complete_graph(1),
          Graph.complete_graph(4)]
G = Graph(5)
for u, v in [(1, 2), (2, 3), (3, 4), (4, 5), (1, 5), (2, 5)]:
    G.add_edge(u, v)
G.name = 'a small test graph'
graphs.append(G)

for total, smart, plant, knuth in itertools.product(
        [False, True], [False, True], [False, True], [None, 0, 2, 3]):
    common = dict(total=total, smart=smart, plant=plant, knuth=knuth)
    for g in graphs:
        ns = Namespace(G=g, **common)
        F = attempt('ns-G', OPCmdHelper.build_formula, ns, CNF)
        if F is not None:
            observe_formula(F)
    # G wins over N/d when both present
    ns = Namespace(G=graphs[2], N=7, d=3, **common)
    F = attempt('ns-G-N-d', OPCmdHelper.build_formula, ns, CNF)
    if F is not None:
        observe_formula(F)
    for N, d in [(6, 3), (5, 3), (4, 2), (5, None), (0, None), (3, 0),
                 (7, 1), (4, 4), (1, 1), (2, 1), (-2, None), ('a', None)]:
        ns = Namespace(N=N, d=d, **common)
        random.seed(4321)
        F = attempt('ns-N-d', OPCmdHelper.build_formula, ns, CNF)
        if F is not None:
            observe_formula(F)
        emit(random.random())
    for N in [0, 1, 3, 5]:
        ns = Namespace(N=N, **common)
        F = attempt('ns-N', OPCmdHelper.build_formula, ns, CNF)
        if F is not None:
            observe_formula(F)

# missing attributes -> AttributeError messages
for ns in [Namespace(), Namespace(N=3), Namespace(N=3, total=False),
           Namespace(G=graphs[2]), Namespace(d=3, total=False, smart=False,
                                             plant=False, knuth=0),
           Namespace(N=6, d=3), Namespace(N=5, d=3)]:
    random.seed(7)
    F = attempt('ns-missing', OPCmdHelper.build_formula, ns, CNF)
    if F is not None:
        observe_formula(F)
    emit(random.random())

print(H.hexdigest())
