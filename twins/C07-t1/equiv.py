"""Equivalence script for the refactoring of cnfgen.transformations.shuffle.Shuffle"""
import hashlib
import io
import os
import random
import sys
from contextlib import redirect_stdout, redirect_stderr

sys.path.insert(0, os.getcwd())

from cnfgen.formula.cnf import CNF
from cnfgen.transformations.shuffle import Shuffle
from cnfgen.families.randomformulas import RandomKCNF
from cnfgen.families.pigeonhole import PigeonholePrinciple
from cnfgen.clitools.cnfshuffle import cli as shufflecli
from cnfgen.clitools.cnfgen import cli as cnfgencli

H = hashlib.sha256()


def emit(*items):
    for x in items:
        H.update(repr(x).encode('utf8'))
        H.update(b'\n')


def observe(tag, fn):
    try:
        res = fn()
    except SystemExit as e:
        emit(tag, 'EXIT', e.code)
        return None
    except Exception as e:
        emit(tag, 'EXC', type(e).__name__, str(e))
        return None
    if isinstance(res, CNF):
        emit(tag, 'CNF', res.number_of_variables(), res.number_of_clauses(),
             list(res.clauses()), sorted(res.header.items()),
             res.to_dimacs())
    else:
        emit(tag, 'VAL', res)
    emit(tag, 'RND', random.random())
    return res


def formulas():
    yield 'empty', CNF()
    yield 'emptyclause', CNF([[]])
    F = CNF()
    F.update_variable_number(5)
    yield 'noclauses', F
    yield 'small', CNF([[1, -2], [2, 3, -4], [-1], [4, 1, -3], [1, -2]])
    yield 'php', PigeonholePrinciple(4, 3)
    yield 'rand', RandomKCNF(3, 12, 30, seed=7)
    G = Shuffle(RandomKCNF(3, 8, 10, seed=1))
    yield 'twice', G


modes = ['fixed', 'shuffle']
for name, F in formulas():
    N = F.number_of_variables()
    M = F.number_of_clauses()
    for seed in [0, 1, -5, 123456789]:
        for p in modes:
            for v in modes:
                for c in modes:
                    random.seed(seed)
                    observe((name, seed, p, v, c),
                            lambda: Shuffle(F, p, v, c))
    # explicit parameters
    rnd = random.Random(99)
    for rep in range(4):
        flips = [rnd.choice([-1, 1]) for _ in range(N)]
        vperm = list(range(1, N + 1))
        rnd.shuffle(vperm)
        cperm = list(range(M))
        rnd.shuffle(cperm)
        random.seed(rep)
        observe((name, 'explicit', rep), lambda: Shuffle(F, flips, vperm, cperm))
        observe((name, 'explicit-tuple', rep),
                lambda: Shuffle(F, tuple(flips), tuple(vperm), tuple(cperm)))
        observe((name, 'explicit-mixed1', rep), lambda: Shuffle(F, flips, 'shuffle', cperm))
        observe((name, 'explicit-mixed2', rep), lambda: Shuffle(F, 'shuffle', vperm, 'fixed'))
    # invalid parameters
    bad_flips = [[1] * (N + 1), [1] * max(N - 1, 0) + [0] if N else [1],
                 [2] * N if N else [3], [1.0] * N, [-1] * N, 'fixedx', [], None, 7]
    bad_vperm = [list(range(N)), list(range(1, N + 2)), [1] * N if N else [1],
                 list(range(2, N + 2)), [float(x) for x in range(1, N + 1)], 'bogus', [], None]
    bad_cperm = [list(range(1, M + 1)), list(range(M + 1)), [0] * M if M else [0],
                 list(reversed(range(M))), 'bogus', [], None]
    for i, b in enumerate(bad_flips):
        random.seed(3)
        observe((name, 'badflips', i), lambda: Shuffle(F, b, 'shuffle', 'shuffle'))
    for i, b in enumerate(bad_vperm):
        random.seed(3)
        observe((name, 'badvperm', i), lambda: Shuffle(F, 'shuffle', b, 'shuffle'))
    for i, b in enumerate(bad_cperm):
        random.seed(3)
        observe((name, 'badcperm', i), lambda: Shuffle(F, 'shuffle', 'shuffle', b))

# Command line: cnfshuffle and the shuffle transformation of cnfgen
dimacs = RandomKCNF(3, 10, 25, seed=42).to_dimacs()
for seed in [0, 1, 17, -3]:
    for opts in [[], ['-p'], ['-v'], ['-c'], ['-p', '-v', '-c'], ['-q'], ['-q', '-c']]:
        # string mode, formula read from stdin
        def run2():
            old = sys.stdin
            sys.stdin = io.StringIO(dimacs)
            err = io.StringIO()
            try:
                with redirect_stderr(err):
                    res = shufflecli(['cnfshuffle', '--seed', seed] + opts, mode='string')
            finally:
                sys.stdin = old
            return (res, err.getvalue())
        observe(('cnfshuffle', seed, tuple(opts)), run2)

for seed in [0, 5]:
    for cmd in [['php', 5, 4, '-T', 'shuffle'],
                ['randkcnf', 3, 10, 20, '-T', 'shuffle', '-T', 'shuffle'],
                ['op', 4, '-T', 'shuffle', '-T', 'xor', 2],
                ['tseitin', 'random', 'gnd', 8, 4, '-T', 'shuffle']]:
        def run3():
            err = io.StringIO()
            with redirect_stderr(err):
                res = cnfgencli(['cnfgen', '--seed', seed] + cmd, mode='string')
            return (res, err.getvalue())
        observe(('cnfgen', seed, tuple(cmd)), run3)

print(H.hexdigest())
