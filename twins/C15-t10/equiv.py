"""Equivalence check for the refactoring of the `consumesaveinfo` helper inside
cnfgen.clitools.graph_args.parse_graph_argument (parsing of the `save` option)."""
import hashlib
import os
import random
import shutil
import sys
import tempfile

sys.path.insert(0, os.getcwd())

from cnfgen.clitools.graph_args import (parse_graph_argument, obtain_graph,
                                        make_graph_from_spec, formats)
from cnfgen.clitools.cnfgen import cli

H = hashlib.sha256()


def rec(*items):
    for x in items:
        H.update(repr(x).encode('utf-8'))
        H.update(b'\x00')


def attempt(label, fn):
    try:
        res = fn()
        rec(label, 'ok', res)
    except SystemExit as e:
        rec(label, 'exit', e.code)
    except BaseException as e:
        rec(label, 'exc', type(e).__name__, str(e))


ROOT = os.getcwd()
tmp = tempfile.mkdtemp(prefix='equiv_tmp_', dir=ROOT)
os.chdir(tmp)

base = {
    'simple': ['gnm 5 4', 'complete 4', 'grid 2 3', 'gnd 6 3', 'empty 3',
               'gnp 5 0.5 plantclique 3', 'gnm 5 2 addedges 3',
               'torus 3 3 splitedges 2', 'somefile.gml', 'dot somefile'],
    'bipartite': ['glrm 3 4 6', 'glrd 3 4 2', 'regular 4 4 2', 'shift 3 3 0 1',
                  'complete 2 2 plantbiclique 1 1', 'empty 2 3 addedges 2',
                  'matrix somefile'],
    'dag': ['tree 2', 'pyramid 3', 'path 4', 'kthlist somefile'],
    'digraph': ['tree 1', 'pyramid 0', 'path 0'],
}

all_formats = sorted(set(f for t in formats for f in formats[t]))
tails = ['save', 'save out.gml', 'save out.unknownext', 'save out',
         'save 7', 'save save', 'save save save', 'save addedges 2',
         'save out.dot addedges 1', 'save out.kthlist save other.kthlist',
         'save out.kthlist extra', 'save plantclique', 'save -o',
         'save gnp', 'save simple', 'save dag x', 'save bipartite']
for f in all_formats:
    tails += ['save ' + f, 'save ' + f + ' out.txt', 'save ' + f + ' ' + f,
              'save ' + f + ' out.txt addedges 1', 'save ' + f + ' 3',
              'save ' + f + ' out.txt extra', 'save ' + f + ' save',
              'save ' + f + ' out.txt save ' + f + ' again.txt',
              'addedges 1 save ' + f, 'addedges 1 save ' + f + ' o.' + f,
              'save o.' + f, 'save o.' + f + ' ' + f]

# 1. pure parsing, both as string and as token list
for gtype in sorted(base):
    for head in base[gtype]:
        for tail in tails:
            spec = head + ' ' + tail
            attempt(('parse', gtype, spec),
                    lambda: sorted(parse_graph_argument(gtype, spec).items(),
                                   key=lambda kv: kv[0]))
            attempt(('parse-list', gtype, spec),
                    lambda: sorted(parse_graph_argument(gtype, spec.split()).items(),
                                   key=lambda kv: kv[0]))
    attempt(('parse', gtype, 'save'), lambda: parse_graph_argument(gtype, 'save'))
    attempt(('parse', gtype, ''), lambda: parse_graph_argument(gtype, ''))
    attempt(('parse', gtype, []), lambda: parse_graph_argument(gtype, []))


# 2. actually building and saving the graphs
def describe(G):
    if G.is_bipartite():
        size = (G.left_order(), G.right_order())
    else:
        size = G.number_of_vertices()
    return (G.name, size, sorted(G.edges()))


counter = 0
for gtype in sorted(base):
    for head in base[gtype]:
        if 'somefile' in head:
            continue
        for f in formats[gtype]:
            for how in ('explicit', 'auto', 'missing'):
                counter += 1
                if how == 'explicit':
                    fname = 'g{}.txt'.format(counter)
                    spec = '{} save {} {}'.format(head, f, fname)
                elif how == 'auto':
                    fname = 'g{}.{}'.format(counter, f)
                    spec = '{} save {}'.format(head, fname)
                else:
                    fname = f
                    spec = '{} save {}'.format(head, f)

                def run():
                    random.seed(counter)
                    G = make_graph_from_spec(gtype, spec)
                    content = None
                    if os.path.isfile(fname):
                        with open(fname) as fh:
                            content = fh.read()
                    return (describe(G), content)
                attempt(('build', gtype, spec), run)

rec('files', sorted(os.listdir('.')))

# 3. full command line
cmdlines = [
    ['php', 'glrm', 3, 3, 4, 'save', 'matrix', 'cli0.txt'],
    ['php', 'glrm', 3, 3, 4, 'save', 'cli1.kthlist'],
    ['php', 'glrm', 3, 3, 4, 'save', 'matrix'],
    ['php', 'glrm', 3, 3, 4, 'save'],
    ['php', 'glrm', 3, 3, 10, 'save', 'cli4.matrix'],
    ['kclique', 3, 'gnm', 5, 6, 'save', 'dimacs', 'cli5.txt'],
    ['kclique', 3, 'gnm', 5, 6, 'plantclique', 3, 'save', 'cli6.kthlist'],
    ['kclique', 3, 'gnm', 5, 6, 'save', 'matrix', 'cli7.txt'],
    ['kclique', 3, 'gnm', 5, 6, 'save', 'cli8.matrix'],
    ['kclique', 3, 'gnm', 5, 6, 'save', 'kthlist'],
    ['peb', 'pyramid', 2, 'save', 'kthlist', 'cli10.txt'],
    ['peb', 'tree', 2, 'save', 'cli11.dimacs'],
    ['peb', 'path', 2, 'save', 'dimacs'],
    ['peb', 'path', 2, 'save', 'cli13.gml', 'save', 'cli13b.gml'],
]
for i, argv in enumerate(cmdlines):
    def run():
        out = cli(['cnfgen', '-q', '--seed', 100 + i] + argv, mode='string')
        content = None
        fname = str(argv[-1])
        if os.path.isfile(fname):
            with open(fname) as fh:
                content = fh.read()
        return (out, content)
    attempt(('cli', i), run)

rec('files', sorted(os.listdir('.')))

os.chdir(ROOT)
for d in os.listdir(ROOT):
    if d.startswith('equiv_tmp_'):
        shutil.rmtree(os.path.join(ROOT, d))
print(H.hexdigest())
