import sys, os, hashlib, random, itertools
sys.path.insert(0, os.getcwd())
from cnfgen.formula.cnf import CNF
from cnfgen.formula.opb import OPB
from cnfgen.formula.basecnf import BaseCNF
from cnfgen.formula.baseopb import BaseOPB, normalize_opb
from cnfgen.formula.linear import CNFLinear
from cnfgen.formula.variables import VariablesManager
from cnfgen.graphs import BipartiteGraph

H = hashlib.sha256()
def out(*a):
    H.update((" ".join(repr(x) for x in a) + "\n").encode())

def attempt(tag, fn):
    try:
        r = fn()
        out(tag, 'ok', r)
    except Exception as e:
        out(tag, 'EXC', type(e).__name__, str(e),
            type(e.__cause__).__name__ if e.__cause__ else None,
            str(e.__cause__) if e.__cause__ else None)

def dump(F):
    return (F.number_of_variables(), [list(c) for c in F])

rnd = random.Random(1304)

def shapes(lits):
    yield 'list', lambda: list(lits)
    yield 'tuple', lambda: tuple(lits)
    yield 'gen', lambda: (l for l in lits)

litlists = [[], [1], [-1], [1, 2], [-2, 3], [1, -2, 3], [4, 2, -7, 1], [-1, -2, -3, -4, -5], [3, 3, -3], [1, 2, 3, 4, 5, 6]]
for _ in range(6):
    n = rnd.randint(1, 6)
    litlists.append([rnd.choice([-1, 1]) * rnd.randint(1, 9) for _ in range(n)])
ops = ['<=', '>=', '<', '>', '==', '!=', '=', '=<', None]

for cls in (CNFLinear, CNF, BaseOPB, OPB):
    for lits in litlists:
        for sname, mk in shapes(lits):
            for check in (True, False):
                for const in (0, 1, 2):
                    def f():
                        F = cls(); F.add_parity(mk(), const, check=check); return dump(F)
                    attempt(('parity', cls.__name__, lits, sname, check, const), f)
                for name in ('add_loose_majority', 'add_loose_minority', 'add_strict_majority', 'add_strict_minority'):
                    def f():
                        F = cls(); getattr(F, name)(mk(), check=check); return dump(F)
                    attempt((name, cls.__name__, lits, sname, check), f)
                for v in range(-2, len(lits) + 3):
                    for name in ('cardinality_geq', 'cardinality_leq', 'cardinality_eq', 'cardinality_neq'):
                        def f():
                            F = cls(); getattr(F, name)(mk(), v, check=check); return dump(F)
                        attempt((name, cls.__name__, lits, sname, check, v), f)
                    if hasattr(cls, 'add_linear'):
                        for op in ops:
                            def f():
                                F = cls(); F.add_linear(mk(), op, v, check=check); return dump(F)
                            attempt(('linear', cls.__name__, lits, sname, check, op, v), f)
    # range inputs and bad literals
    for r in (range(1, 4), range(1, 1), range(2, 7, 2), range(0, 3)):
        for name in ('cardinality_geq', 'cardinality_leq', 'cardinality_eq', 'cardinality_neq'):
            def f():
                F = cls(); getattr(F, name)(r, 1); return dump(F)
            attempt((name, cls.__name__, 'range', list(r)), f)
        def f():
            F = cls(); F.add_parity(r, 1); return dump(F)
        attempt(('parity', cls.__name__, 'range', list(r)), f)
    for bad in ([0], [1, 0, 2], ['a'], [1.5], [None], [1, 'x']):
        for name in ('cardinality_geq', 'cardinality_neq'):
            def f():
                F = cls(); getattr(F, name)(bad, 1); return dump(F)
            attempt((name, cls.__name__, 'bad', bad), f)
        def f():
            F = cls(); F.add_parity(bad, 1); return dump(F)
        attempt(('parity', cls.__name__, 'bad', bad), f)

# normalize_opb
cons = []
for _ in range(300):
    n = rnd.randint(0, 5)
    terms = [(rnd.randint(-4, 4), rnd.choice([-1, 1]) * rnd.randint(1, 6)) for _ in range(n)]
    cons.append(terms + [rnd.choice(['<=', '>=', '<', '>', '==', '!=', 'x']), rnd.randint(-6, 8)])
for c in cons:
    orig = list(c)
    attempt(('norm', orig), lambda: normalize_opb(c))
    out('norm-input-after', c)
    attempt(('norm-tuple', orig), lambda: normalize_opb(tuple(c)))
    for cls in (BaseOPB, OPB):
        for check in (True, False):
            def f():
                F = cls(); F.add_constraint(list(c), check=check); return dump(F)
            attempt(('addcons', cls.__name__, orig, check), f)
for bad in ([], [1], ['>=', 1], [(1, 0), '>=', 1], [(1, 'a'), '>=', 1], [(1, 2, 3), '>=', 1], [5, '>=', 1], [(1, 2), '>=', 'z'], [(-1, 2), '<', 'z']):
    attempt(('norm-bad', bad), lambda: normalize_opb(list(bad)))
    def f():
        F = OPB(); F.add_constraint(list(bad)); return dump(F)
    attempt(('addcons-bad', bad), f)

# mappings
def sparse(n, m, p, seed):
    r = random.Random(seed)
    B = BipartiteGraph(n, m)
    for u in range(1, n + 1):
        for v in range(1, m + 1):
            if r.random() < p:
                B.add_edge(u, v)
    return B

forces = ['force_complete_mapping', 'force_functional_mapping', 'force_surjective_mapping',
          'force_injective_mapping', 'force_nondecreasing_mapping']
def makers():
    for n, m in [(1, 1), (2, 3), (3, 2), (4, 4), (3, 5), (5, 1), (1, 4)]:
        yield ('unary', n, m), (lambda F, n=n, m=m: F.new_mapping(n, m))
        yield ('binary', n, m), (lambda F, n=n, m=m: F.new_binary_mapping(n, m))
        for s in (1, 2):
            yield ('sparse', n, m, s), (lambda F, n=n, m=m, s=s: F.new_sparse_mapping(sparse(n, m, 0.6, s)))
    yield ('block',), (lambda F: F.new_block(2, 3))
    yield ('var',), (lambda F: F.new_variable())
    yield ('bip',), (lambda F: F.new_bipartite_edges(sparse(2, 2, 1.0, 0)))
    yield ('int',), (lambda F: 7)
    yield ('none',), (lambda F: None)

for cls in (CNF, OPB):
    for tag, mk in makers():
        for name in forces:
            def f():
                F = cls(); g = mk(F); getattr(F, name)(g); return dump(F)
            attempt((cls.__name__, tag, name), f)
            def f2():
                F = cls(); G = cls(); g = mk(G); getattr(F, name)(g); return dump(F), dump(G)
            attempt((cls.__name__, tag, name, 'foreign'), f2)
        def f3():
            F = cls(); g = mk(F)
            for name in forces:
                try:
                    getattr(F, name)(g)
                except ValueError as e:
                    out('all-exc', name, str(e))
            return dump(F)
        attempt((cls.__name__, tag, 'all'), f3)

# standalone manager on BaseCNF / CNFLinear
for base in (BaseCNF, CNFLinear):
    def f():
        C = base(); V = VariablesManager(C)
        g = V.new_mapping(3, 4); V.force_complete_mapping(g); V.force_surjective_mapping(g)
        h = V.new_binary_mapping(3, 5); V.force_complete_mapping(h); V.force_injective_mapping(h); V.force_nondecreasing_mapping(h)
        V.force_functional_mapping(h)
        return dump(C)
    attempt(('standalone', base.__name__), f)

print(H.hexdigest())
