#!/usr/bin/env python
"""Equivalence script for refactoring t23 (VariableCompression gadget selection).

Run as:  cd <checkout> && /venv/bin/python equiv.py
Prints one SHA256 digest of everything observable.
"""
import os
import sys
import hashlib
import random
import itertools

sys.path.insert(0, os.getcwd())

from cnfgen import CNF
from cnfgen.graphs import BipartiteGraph
from cnfgen.transformations.substitutions import VariableCompression
from cnfgen.transformations.substitutions import XorSubstitution, MajoritySubstitution

OUT = []


def emit(*things):
    OUT.append(repr(things))


def observe(tag, F):
    emit(tag, 'nvars', F.number_of_variables())
    emit(tag, 'nclauses', F.number_of_clauses())
    emit(tag, 'clauses', [list(c) for c in F.clauses()])
    emit(tag, 'header', sorted((str(k), str(v)) for k, v in F.header.items()))
    emit(tag, 'labels', list(F.all_variable_labels()))
    emit(tag, 'dimacs', F.to_dimacs())
    emit(tag, 'latex', F.to_latex())


def attempt(tag, fn, *args, **kwargs):
    try:
        F = fn(*args, **kwargs)
    except BaseException as e:   # noqa
        emit(tag, 'EXC', type(e).__name__, str(e))
        return None
    observe(tag, F)
    return F


def sample_cnfs():
    res = []
    res.append(('empty', CNF()))
    res.append(('emptyclause', CNF([[]])))
    F = CNF([[1, -2], [], [3]])
    res.append(('mixed-empty', F))
    F = CNF([[1, -2]])
    F.update_variable_number(4)
    res.append(('unused', F))
    F = CNF()
    F.update_variable_number(3)
    F.add_clause([1, 1, -2], check=False)
    F.add_clause([2, -2], check=False)
    F.add_clause([-3, -3, 3, 1], check=False)
    res.append(('repeated-opposite', F))
    F = CNF()
    x = F.new_variable('x')
    y = F.new_variable('y_{1}')
    z = F.new_block(2, 2, label='z_{{{},{}}}')
    F.add_clause([x, -y])
    F.add_clause([-x, z(1, 2), z(2, 1)])
    F.add_clause([y, -z(2, 2)])
    F.header['note'] = 'labelled {curly}'
    res.append(('labelled', F))
    rng = random.Random(20240512)
    for n in (1, 2, 5):
        F = CNF()
        F.update_variable_number(n)
        for _ in range(n + 2):
            w = rng.randint(1, min(n, 3))
            vs = rng.sample(range(1, n + 1), w)
            F.add_clause([v * rng.choice([1, -1]) for v in vs])
        res.append(('random{}'.format(n), F))
    return res


def bipartite(L, R, edges):
    B = BipartiteGraph(L, R)
    for u, v in edges:
        B.add_edge(u, v)
    return B


def graphs_for(n):
    """A family of bipartite graphs with left side n (and some wrong ones)"""
    rng = random.Random(1000 + n)
    res = []
    res.append(('noedges', bipartite(n, 3, [])))
    res.append(('rightempty', bipartite(n, 0, [])))
    res.append(('complete', bipartite(n, 2, [(u, v) for u in range(1, n + 1) for v in (1, 2)])))
    res.append(('identity', bipartite(n, max(n, 1), [(u, u) for u in range(1, n + 1)])))
    for R in (1, 3, 4):
        edges = [(u, v) for u in range(1, n + 1) for v in range(1, R + 1)
                 if rng.random() < 0.6]
        res.append(('rand{}'.format(R), bipartite(n, R, edges)))
    res.append(('wrongleft', bipartite(n + 1, 3, [(1, 1)])))
    if n > 0:
        res.append(('wrongleft-small', bipartite(n - 1, 3, [])))
    return res


def main():
    for name, F in sample_cnfs():
        n = F.number_of_variables()
        for gname, B in graphs_for(n):
            for function in ('xor', 'maj', 'and', 'XOR', '', None, 3):
                tag = 'comp/{}/{}/{}'.format(name, gname, function)
                G = attempt(tag, VariableCompression, F, B, function)
                # the transformation applies again on its own result
                if G is not None and gname == 'rand3' and function in ('xor', 'maj'):
                    B2 = bipartite(3, 2, [(1, 1), (2, 2), (3, 1), (3, 2)])
                    attempt(tag + '/twice', VariableCompression, G, B2, function)
        # keyword form and networkx graph input
        attempt('kw/' + name, VariableCompression, F, function='xor',
                B=bipartite(n, 2, [(u, 1 + u % 2) for u in range(1, n + 1)]))
        attempt('badgraph/' + name, VariableCompression, F, 'not a graph', 'maj')
        attempt('nonegraph/' + name, VariableCompression, F, None, 'xor')

    # full compression by the complete graph equals the plain substitution
    # clause-wise when F has one variable
    F = CNF([[1], [-1]])
    for k in range(1, 5):
        B = bipartite(1, k, [(1, v) for v in range(1, k + 1)])
        a = attempt('cmp-xor{}'.format(k), VariableCompression, F, B, 'xor')
        b = XorSubstitution(F, k)
        emit('samexor', k, list(a.clauses()) == list(b.clauses()))
        a = attempt('cmp-maj{}'.format(k), VariableCompression, F, B, 'maj')
        b = MajoritySubstitution(F, k)
        emit('samemaj', k, list(a.clauses()) == list(b.clauses()))

    # semantic check: assignments satisfy the compression iff induced one satisfies F
    F = CNF([[1, -2], [2, 3], [-1, -3], [1, 2, 3]])
    B = bipartite(3, 4, [(1, 1), (1, 2), (2, 2), (2, 3), (2, 4), (3, 1), (3, 4)])
    for function in ('xor', 'maj'):
        G = VariableCompression(F, B, function)
        sats = []
        for bits in itertools.product([False, True], repeat=4):
            val = [None] + list(bits)
            sat = all(any((val[abs(l)] if l > 0 else not val[abs(l)]) for l in c)
                      for c in G.clauses())
            sats.append(sat)
        emit('semantics', function, sats)

    # the version string comes from `git describe`: it is not part of the behaviour
    from cnfgen.info import info
    text = '\n'.join(OUT).replace('CNFgen ({})'.format(info['version']), 'CNFgen (VERSION)')
    digest = hashlib.sha256(text.encode('utf-8')).hexdigest()
    print(digest)


if __name__ == '__main__':
    main()
