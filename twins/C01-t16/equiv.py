"""Equivalence script for refactoring t16 (BinaryMappingVariables in formula/variables.py).

Exercises the binary mapping variable group directly and through the
binary pigeonhole principle, and hashes everything observable.
"""
import os
import sys
sys.path.insert(0, os.getcwd())
import hashlib
import io
import contextlib

from cnfgen.formula.cnf import CNF
from cnfgen.formula.basecnf import BaseCNF
from cnfgen.formula.variables import BinaryMappingVariables, VariablesManager
from cnfgen.families.pigeonhole import BinaryPigeonholePrinciple
from cnfgen.clitools.cnfgen import cli

out = []


def record(*items):
    out.append(repr(items))


def attempt(tag, fn, *args, **kwargs):
    try:
        res = fn(*args, **kwargs)
        if hasattr(res, '__iter__') and not isinstance(res, (str, list, tuple, range)):
            res = list(res)
        record(tag, args, sorted(kwargs.items()), 'OK', res)
    except BaseException as e:
        record(tag, args, sorted(kwargs.items()), 'EXC', type(e).__name__, str(e))


# 1. the family itself
for pigeons in range(0, 7):
    for holes in range(0, 10):
        F = BinaryPigeonholePrinciple(pigeons, holes)
        record('BPHP', pigeons, holes, F.to_dimacs(), list(F.clauses()),
               list(F.all_variable_labels()), sorted(F.header.items()),
               F.number_of_variables(), len(F))
record('BPHP-opb', BinaryPigeonholePrinciple(3, 5).to_opb())
record('BPHP-latex', BinaryPigeonholePrinciple(3, 3).to_latex())
for bad in [(-1, 2), (2, -1), (1.0, 2), ('a', 2), (2, None), (2, 2.5)]:
    attempt('BPHP-bad', BinaryPigeonholePrinciple, *bad)

# 2. the variable group, directly
for offset in [0, 3]:
    for n in range(0, 5):
        for m in list(range(0, 10)) + [16, 17]:
            F = BaseCNF()
            F.update_variable_number(offset)
            f = BinaryMappingVariables(F, n, m, labelfmt='f({},{})')
            record('GRP', offset, n, m, len(f), f.bits(), f.bitlength,
                   f.domain_size, f.range_size, f.id_offset,
                   type(f.flips).__name__, [tuple(x) for x in f.flips],
                   [type(x).__name__ for x in f.flips],
                   f.domain(), f.range(), list(f()), list(f.label()),
                   list(f.indices()))
            for i in [0, 1, n, n + 1]:
                for j in [-1, 0, 1, m - 1, m, 2**f.bits() - 1, 2**f.bits(),
                          2**f.bits() + 3]:
                    attempt('forbid', f.forbid, i, j)
            for pat in [(), (1, None), (None, 0), (n, f.bits() - 1), (None, None),
                        (0, None), (None, f.bits()), (1,), (1, 2, 3), (n + 1, 0),
                        (None, -1)]:
                attempt('indices', f.indices, *pat)
                attempt('call', f, *pat)
                attempt('label', lambda *p: list(f.label(*p)), *pat)
            for lit in [0, offset, offset + 1, -(offset + 1), offset + len(f),
                        offset + len(f) + 1]:
                attempt('to_index', f.to_index, lit)
for bad in [(-1, 3), (3, -1), (-2, -2)]:
    attempt('GRP-bad' + repr(bad), lambda: len(BinaryMappingVariables(BaseCNF(), *bad)))

# 3. the constraints on mappings
for n in range(0, 5):
    for m in [0, 1, 2, 3, 5, 8, 9]:
        F = CNF()
        V = F
        g = F.new_binary_mapping(n, m)
        steps = []
        F.force_complete_mapping(g)
        steps.append(list(F.clauses()))
        F.force_functional_mapping(g)
        steps.append(len(F))
        F.force_injective_mapping(g)
        steps.append(list(F.clauses()))
        attempt('surj', lambda: F.force_surjective_mapping(g))
        attempt('nondecr', lambda: F.force_nondecreasing_mapping(g))
        steps.append(list(F.clauses()))
        record('MAP', n, m, steps, F.to_dimacs())
attempt('newbin-bad', CNF().new_binary_mapping, -1, 2)
attempt('newbin-bad', CNF().new_binary_mapping, 2, -1)
G = CNF()
h = CNF().new_binary_mapping(2, 3)
attempt('foreign-complete', lambda: G.force_complete_mapping(h))
attempt('foreign-injective', lambda: G.force_injective_mapping(h))
attempt('foreign-functional', lambda: G.force_functional_mapping(h))

# 4. command line
for argv in [['bphp', '3', '2'], ['bphp', '4', '7'], ['bphp', '1', '1'],
             ['bphp', '0', '3'], ['bphp', '3'], ['bphp', '3', '-2'],
             ['bphp', '2', '5', '-T', 'shuffle']]:
    sout, serr = io.StringIO(), io.StringIO()
    try:
        with contextlib.redirect_stdout(sout), contextlib.redirect_stderr(serr):
            res = cli(['cnfgen', '--seed', '3'] + argv, mode='string')
        record('CLI', argv, res, sout.getvalue(), serr.getvalue())
    except SystemExit as e:
        record('CLI-EXIT', argv, e.code, sout.getvalue(), serr.getvalue())
    except BaseException as e:
        record('CLI-EXC', argv, type(e).__name__, str(e))

print(hashlib.sha256("\n".join(out).encode('utf-8')).hexdigest())
