"""Equivalence harness for TseitinCmdHelper.build_formula
(cnfgen/clihelpers/counting_helpers.py): command lines, direct calls
with hand made namespaces, error paths and the random stream."""
import argparse
import contextlib
import hashlib
import io
import itertools
import os
import random
import sys

sys.path.insert(0, os.getcwd())

import networkx as nx

from cnfgen.clitools.cnfgen import cli
from cnfgen.clihelpers.counting_helpers import TseitinCmdHelper
from cnfgen.formula.cnf import CNF
from cnfgen.graphs import Graph
from cnfgen.info import info

# the version string comes from `git describe`: pin it, it is not under test
info['version'] = 'equiv'

H = hashlib.sha256()


def rec(*items):
    for it in items:
        H.update(repr(it).encode('utf8'))
        H.update(b'\x00')
    H.update(b'\n')


def chain(e):
    out = []
    while e is not None:
        out.append((type(e).__name__, str(e)))
        e = e.__cause__ or e.__context__
    return out


def rndstate():
    return hashlib.sha256(repr(random.getstate()).encode()).hexdigest()


def run_cli(argv, mode='string'):
    out, err = io.StringIO(), io.StringIO()
    random.seed(987654321)
    try:
        with contextlib.redirect_stdout(out), contextlib.redirect_stderr(err):
            res = cli(argv, mode=mode)
        if mode == 'formula':
            res = (res.header.get('description'), res.number_of_variables(),
                   list(res.clauses()))
        rec('cli', argv, mode, 'OK', res)
    except BaseException as e:
        rec('cli', argv, mode, 'EXC', chain(e))
    rec('cli-io', out.getvalue(), err.getvalue(), rndstate())


# 1. command lines
charges = ['first', 'random', 'randomodd', 'randomeven', 'zero', 'one']
graphs = [
    ['gnp', '0', '.5'],
    ['gnp', '1', '.5'],
    ['gnp', '2', '1'],
    ['gnp', '6', '.5'],
    ['gnp', '7', '.3'],
    ['gnm', '6', '9'],
    ['gnd', '8', '3'],
    ['grid', '3', '3'],
    ['grid', '2', '2', 'plantclique', '3'],
    ['torus', '3', '3'],
    ['complete', '5'],
    ['empty', '4'],
    ['gnp', '6', '.5', 'addedges', '2'],
]
for seed in ('0', '1', '42', 'hello'):
    for ch in charges:
        for g in graphs:
            run_cli(['cnfgen', '--seed', seed, 'tseitin', ch] + g)
for ch in charges:
    for g in graphs[:6]:
        run_cli(['cnfgen', 'tseitin', ch] + g)   # no explicit seed
for seed in ('0', '5', '77'):
    for N, d in itertools.product(range(0, 9), range(0, 6)):
        run_cli(['cnfgen', '--seed', seed, 'tseitin', N, d])
    for N in range(0, 10):
        run_cli(['cnfgen', '--seed', seed, 'tseitin', N])
for extra in (['-v'], ['-q'], ['--output-format', 'opb'],
              ['--output-format', 'latex'], ['--varnames']):
    run_cli(['cnfgen', '--seed', '9'] + extra + ['tseitin', '6', '3'])
    run_cli(['cnfgen', '--seed', '9'] + extra +
            ['tseitin', 'random', 'gnp', '5', '.6'])
run_cli(['cnfgen', '--seed', '9', 'tseitin', '6', '3'], mode='formula')
run_cli(['cnfgen', '--seed', '9', 'tseitin', 'first', 'grid', '2', '3'],
        mode='output')
run_cli(['cnfgen', '--seed', '9', 'tseitin', '8'], mode='output')
run_cli(['cnfgen', '--seed', '9', 'tseitin', 'first', 'gnp', '5', '.5',
         '-T', 'xor', '2'])
# bad command lines
for bad in (['tseitin'], ['tseitin', 'bogus', 'gnp', '5', '.5'],
            ['tseitin', 'first'], ['tseitin', '-3'], ['tseitin', '5', '0'],
            ['tseitin', '5', '5'], ['tseitin', '5', '7'], ['tseitin', '5', '3'],
            ['tseitin', '3', '1'], ['tseitin', 'x', 'y'],
            ['tseitin', 'first', 'gnp', '5'], ['tseitin', '4', '2', '1'],
            ['tseitin', 'first', 'nosuchfile.gml'], ['tseitin', '-h']):
    run_cli(['cnfgen', '--seed', '4'] + bad)


# 2. direct calls with hand made namespaces
def direct(tag, seed, **kw):
    ns = argparse.Namespace(**kw)
    random.seed(seed)
    try:
        F = TseitinCmdHelper.build_formula(ns, CNF)
        rec('direct', tag, seed, F.header.get('description'),
            F.number_of_variables(), list(F.clauses()), F.to_dimacs())
    except BaseException as e:
        rec('direct', tag, seed, 'EXC', chain(e))
    rec('direct-rnd', tag, seed, rndstate())


def sample_graphs():
    rnd = random.Random(1602)
    yield 'null', Graph(0)
    yield 'one', Graph(1)
    yield 'two', Graph(2)
    yield 'k4', Graph.complete_graph(4)
    yield 'star', Graph.star_graph(4)
    for i in range(10):
        n = rnd.randint(1, 8)
        G = Graph(n, 'sample {}'.format(i))
        for u, v in itertools.combinations(range(1, n + 1), 2):
            if rnd.random() < 0.45:
                G.add_edge(u, v)
        yield 'rnd{}'.format(i), G
    yield 'nxpath', nx.path_graph(4)


for seed in (0, 1, 31337):
    for tag, G in sample_graphs():
        for ch in charges + ['bogus', '', None, 'FIRST']:
            direct((tag, ch), seed, G=G, charge=ch)
        direct((tag, 'nocharge'), seed, G=G)
    for N, d in itertools.product(range(0, 9), range(0, 6)):
        direct(('Nd', N, d), seed, N=N, d=d)
    direct(('Nd+charge', 6, 3), seed, N=6, d=3, charge='zero')
    direct(('nothing',), seed)
    direct(('onlyN',), seed, N=4)
    direct(('badG',), seed, G=12, charge='first')

print(H.hexdigest())
