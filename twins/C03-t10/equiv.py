#!/usr/bin/env python
"""Equivalence script for refactoring t10 (DirectedGraph.normalize in cnfgen/graphs.py).

Run as:  cd <checkout> && /venv/bin/python equiv.py
Prints one SHA256 digest of everything observable.
"""
import sys, os, hashlib, random, warnings
sys.path.insert(0, os.getcwd())
warnings.simplefilter('ignore')

import networkx

from cnfgen.graphs import DirectedGraph, Graph, BipartiteGraph, CompleteBipartiteGraph
from cnfgen.graphs import dag_pyramid, dag_complete_binary_tree, dag_path
from cnfgen.graphs import bipartite_random_left_regular
from cnfgen.families.pebbling import PebblingFormula, StoneFormula, SparseStoneFormula
from cnfgen.formula.cnf import CNF

out = []


def rec(*items):
    out.append(repr(items))


def describe_graph(D):
    return (type(D).__name__, D.number_of_vertices(), D.number_of_edges(),
            list(D.edges()), D.is_dag(), D.name)


def describe_formula(F):
    return (F.number_of_variables(), list(F.clauses()),
            list(F.all_variable_labels()), dict(F.header), F.to_dimacs())


def attempt(tag, fn):
    try:
        rec(tag, 'ok', fn())
    except Exception as e:
        ctx = e.__context__
        cause = e.__cause__
        rec(tag, 'exc', type(e).__name__, str(e),
            type(ctx).__name__, str(ctx), type(cause).__name__,
            e.__suppress_context__)


class MyDirected(DirectedGraph):
    pass


class BrokenEdges(networkx.DiGraph):
    """a DiGraph for which the conversion fails with AttributeError"""
    @property
    def edges(self):
        raise AttributeError("no edges here")


class BrokenKey(networkx.DiGraph):
    @property
    def edges(self):
        raise KeyError("other failure")


class Both(DirectedGraph, networkx.DiGraph):
    def __init__(self, n):
        networkx.DiGraph.__init__(self)
        DirectedGraph.__init__(self, n, name='both')


def nx_graphs():
    rnd = random.Random(12345)
    G = networkx.DiGraph()
    yield 'nx-null', G
    G = networkx.DiGraph()
    G.add_node(7)
    yield 'nx-single', G
    G = networkx.DiGraph()
    G.add_edges_from([(1, 2), (2, 3), (1, 3), (3, 4)])
    G.name = 'little dag'
    yield 'nx-dag', G
    G = networkx.DiGraph()
    G.add_edges_from([(1, 2), (2, 3), (3, 1)])
    yield 'nx-cycle', G
    G = networkx.DiGraph()
    G.add_edges_from([(3, 2), (2, 1)])
    yield 'nx-backward', G
    G = networkx.DiGraph()
    G.add_edges_from([('a', 'b'), ('b', 'c'), ('a', 'd'), ('c', 'd')])
    yield 'nx-strings', G
    G = networkx.DiGraph()
    G.add_edges_from([('10', '2'), ('2', '1'), ('1', '30')])
    yield 'nx-numstrings', G
    G = networkx.DiGraph()
    G.add_edges_from([(1, 'x'), ('x', (2, 3)), ((2, 3), 4.5)])
    yield 'nx-mixed', G
    G = networkx.DiGraph()
    G.add_edge(1, 1)
    yield 'nx-selfloop', G
    G = networkx.MultiDiGraph()
    G.add_edges_from([(1, 2), (1, 2), (2, 3)])
    yield 'nx-multidigraph', G
    for n in (2, 5, 8):
        G = networkx.gnp_random_graph(n, 0.5, seed=rnd.randrange(1000), directed=True)
        yield 'nx-gnp-%d' % n, G
        H = networkx.DiGraph([(u, v) for (u, v) in G.edges() if u < v])
        H.add_nodes_from(G.nodes())
        yield 'nx-gnp-dag-%d' % n, H
    G = BrokenEdges()
    G.add_nodes_from([1, 2, 3])
    yield 'nx-broken-attr', G
    G = BrokenKey()
    G.add_nodes_from([1, 2, 3])
    yield 'nx-broken-key', G


def cnfgen_graphs():
    yield 'dg-0', DirectedGraph(0)
    yield 'dg-1', DirectedGraph(1)
    D = DirectedGraph(4, name=None)
    D.add_edges_from([(1, 2), (2, 4), (3, 4)])
    yield 'dg-4', D
    D = DirectedGraph(3)
    D.add_edges_from([(1, 2), (2, 3), (3, 1)])
    yield 'dg-cycle', D
    yield 'pyramid-0', dag_pyramid(0)
    yield 'pyramid-2', dag_pyramid(2)
    yield 'tree-2', dag_complete_binary_tree(2)
    yield 'path-3', dag_path(3)
    M = MyDirected(3)
    M.add_edge(1, 3)
    yield 'mydirected', M
    B = Both(3)
    DirectedGraph.add_edge(B, 1, 2)
    yield 'both', B


def wrong_objects():
    yield 'none', None
    yield 'int', 5
    yield 'str', 'pyramid 3'
    yield 'list', [(1, 2)]
    yield 'nx-graph', networkx.path_graph(3)
    yield 'nx-multigraph', networkx.MultiGraph([(1, 2)])
    yield 'cnfgen-graph', Graph.complete_graph(3)
    yield 'cnfgen-bipartite', CompleteBipartiteGraph(2, 2)
    yield 'class', DirectedGraph
    yield 'nxclass', networkx.DiGraph


everything = list(nx_graphs()) + list(cnfgen_graphs()) + list(wrong_objects())

# 1. normalize itself, as classmethod of base and of a subclass
for name, G in everything:
    def same():
        D = DirectedGraph.normalize(G)
        return (D is G, describe_graph(D))
    attempt(('normalize-default', name), same)
    for varname in ('digraph', 'D', '', '{}', 17, None):
        attempt(('normalize', name, varname),
                lambda: describe_graph(DirectedGraph.normalize(G, varname)))
    attempt(('normalize-sub', name),
            lambda: describe_graph(MyDirected.normalize(G, 'sub')))
    attempt(('normalize-kw', name),
            lambda: describe_graph(DirectedGraph.normalize(G=G, varname='kw')))

# 2. the formulas documented as contradictions that normalise their DAG
random.seed(42)
for name, G in everything:
    attempt(('peb', name), lambda: describe_formula(PebblingFormula(G)))
    for s in (0, 1, 2, 3):
        attempt(('stone', name, s), lambda: describe_formula(StoneFormula(G, s)))
    attempt(('stone-neg', name), lambda: describe_formula(StoneFormula(G, -1)))
    attempt(('stone-str', name), lambda: describe_formula(StoneFormula(G, 'two')))
    try:
        n = G.number_of_vertices() if not isinstance(G, networkx.Graph) else G.order()
    except Exception:
        n = 3
    for (r, d) in ((2, 1), (3, 2)):
        def sparse():
            B = bipartite_random_left_regular(n, r, d, seed=n * 10 + r)
            return describe_formula(SparseStoneFormula(G, B))
        attempt(('sparse', name, r, d), sparse)
    attempt(('sparse-mismatch', name),
            lambda: describe_formula(SparseStoneFormula(G, CompleteBipartiteGraph(n + 1, 2))))
    attempt(('sparse-badB', name),
            lambda: describe_formula(SparseStoneFormula(G, 'B')))

# 3. random-stream check: nothing above may consume the global generator differently
rec('rng', random.random(), random.getrandbits(64))

# the version string comes from `git describe`: make the digest independent of it
import re
text = re.sub(r"CNFgen \([^)\n]*\)", "CNFgen (VERSION)", "\n".join(out))
print(hashlib.sha256(text.encode('utf-8')).hexdigest())
