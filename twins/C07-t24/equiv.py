#!/usr/bin/env python
"""Equivalence script for t24: multipartite_tnp moved from clitools.graph_build to cnfgen.graphs"""
import sys
import os
import hashlib
import random

sys.path.insert(0, os.getcwd())

from cnfgen.clitools import graph_build
from cnfgen.clitools.graph_args import make_graph_from_spec
from cnfgen.clitools import cnfgen as cnfgen_cli
from cnfgen.clitools import CLIError

out = []


def record(*items):
    out.append(repr(items))


def graph_obs(G):
    return (type(G).__name__, G.name, G.number_of_vertices(),
            G.number_of_edges(), list(G.edges()))


# direct calls of the helper, through the name visible in graph_build
for seed in [0, 1, 7, 12345]:
    for t, n, p in [(1, 1, 0.5), (1, 4, 1.0), (2, 1, 0.5), (2, 3, 0.0), (2, 3, 1.0),
                    (3, 2, 0.5), (3, 4, 0.3), (4, 3, 0.75), (5, 2, 0.1), (2, 6, 0.5)]:
        for sb in [False, True]:
            random.seed(seed)
            try:
                G = graph_build.multipartite_tnp(t, n, p, shuffleblocks=sb)
                record('tnp', seed, t, n, p, sb, graph_obs(G), random.random())
            except Exception as e:
                record('tnp-exc', seed, t, n, p, sb, type(e).__name__, str(e))
    random.seed(seed)
    G = graph_build.multipartite_tnp(3, 2, 0.5)
    record('tnp-default', seed, graph_obs(G), random.random())

# odd arguments
for args in [(0, 3, 0.5), (3, 0, 0.5), (2, 2, 2.0), (2, 2, -1.0), ('a', 2, 0.5), (2, 'b', 0.5)]:
    random.seed(3)
    try:
        G = graph_build.multipartite_tnp(*args)
        record('odd', args, graph_obs(G), random.random())
    except Exception as e:
        record('odd-exc', args, type(e).__name__, str(e))

# through obtain_gnp and the graph spec parser
specs = [['gnp', '5', '.5'], ['gnp', '5', '.5', '1'], ['gnp', '4', '.5', '2'],
         ['gnp', '3', '.7', '3'], ['gnp', '2', '1', '4'], ['gnp', '2', '0', '4'],
         ['gnp', '3', '.5', '3', 'plantclique', '3'],
         ['gnp', '3', '.5', '3', 'addedges', '2'],
         ['gnp', '3', '.5', '2', 'splitedges', '1'],
         ['gnp', '3', '.5', '0'], ['gnp', '3', '1.5', '2'], ['gnp', '0', '.5', '2'],
         ['gnp', '3'], ['gnp', '3', '.5', '2', '2'], ['gnp', 'x', '.5', '2']]
for seed in [0, 5, 99]:
    for spec in specs:
        random.seed(seed)
        try:
            G = make_graph_from_spec('simple', spec)
            record('spec', seed, spec, graph_obs(G), random.random())
        except Exception as e:
            record('spec-exc', seed, spec, type(e).__name__, str(e))

# through the command line
cmdlines = [
    ['cnfgen', '--seed', '0', 'kclique', '3', 'gnp', '3', '.5', '3'],
    ['cnfgen', '--seed', '17', 'kcolor', '3', 'gnp', '4', '.4', '2'],
    ['cnfgen', '--seed', '17', 'tseitin', 'random', 'gnp', '3', '.9', '2'],
    ['cnfgen', '--seed', '4', 'domset', '2', 'gnp', '2', '.5', '3', 'addedges', '1'],
    ['cnfgen', '--seed', '4', 'kclique', '2', 'gnp', '2', '.5', '0'],
    ['cnfgen', '--seed', '4', 'kclique', '2', 'gnp', '2', '7', '2'],
]
for argv in cmdlines:
    try:
        text = cnfgen_cli(argv, mode='string')
        record('cli', argv, text)
    except CLIError as e:
        record('cli-err', argv, str(e))
    except SystemExit as e:
        record('cli-exit', argv, e.code)
    except Exception as e:
        record('cli-exc', argv, type(e).__name__, str(e))

print(hashlib.sha256("\n".join(out).encode('utf-8')).hexdigest())
