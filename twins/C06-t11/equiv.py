"""Equivalence script for t11: VariablesManager.all_variable_labels (names in DIMACS 'c varname' comments)"""
import hashlib, io, os, sys, random, itertools, contextlib
sys.path.insert(0, os.getcwd())

import cnfgen
from cnfgen.formula.cnf import CNF
from cnfgen.formula.basecnf import BaseCNF
from cnfgen.formula.variables import VariablesManager
from cnfgen.graphs import BipartiteGraph, Graph, DirectedGraph
from cnfgen.clitools.cnfgen import cli as cnfgen_cli

out = []
def rec(*a):
    out.append(repr(a))

def observe(tag, F):
    try:
        labels = list(F.all_variable_labels())
        rec(tag, 'labels', F.number_of_variables(), labels)
    except BaseException as e:
        rec(tag, 'labels-exc', type(e).__name__, str(e))
    for fmt in ['x{}', 'y_{{{}}}', 'v', '{0}{0}', '']:
        try:
            rec(tag, fmt, list(F.all_variable_labels(default_label_format=fmt)))
        except BaseException as e:
            rec(tag, fmt, 'exc', type(e).__name__, str(e))
    try:
        rec(tag, 'bad fmt', list(F.all_variable_labels('{}{}')))
    except BaseException as e:
        rec(tag, 'bad fmt exc', type(e).__name__, str(e))
    # partial consumption
    g = F.all_variable_labels()
    rec(tag, 'partial', list(itertools.islice(g, 3)), list(itertools.islice(g, 2)))
    if isinstance(F, CNF):
        for hdr in (True, False):
            for vn in (True, False):
                s = io.StringIO()
                F.to_file(s, fileformat='dimacs', export_header=hdr, export_varnames=vn)
                text = s.getvalue()
                rec(tag, 'dimacs', hdr, vn, text)
                H = CNF.from_file(io.StringIO(text))
                rec(tag, 'rt', H.number_of_variables() == F.number_of_variables(),
                    [list(c) for c in H] == [list(c) for c in F], list(H.all_variable_labels()))
        try:
            s = io.StringIO()
            F.to_file(s, fileformat='opb', export_varnames=True)
            rec(tag, 'opb', s.getvalue())
        except BaseException as e:
            rec(tag, 'opb exc', type(e).__name__, str(e))
        try:
            rec(tag, 'latex', F.to_latex())
        except BaseException as e:
            rec(tag, 'latex exc', type(e).__name__, str(e))

# --- hand built formulas with groups and gaps
F = CNF(); observe('empty', F)

F = CNF(); F.update_variable_number(5); observe('only anonymous', F)

F = CNF([[1, -2], [], [4]]); observe('clauses only', F)

F = CNF()
x = F.new_variable(label='X')
observe('one named', F)
F.update_variable_number(3)
observe('named then gap', F)
y = F.new_variable(label='Y\nnewline é')
observe('named gap named', F)
F.add_clause([x, -y, 7])
observe('named gap named gap', F)
b = F.new_block(2, 3, label='z_{{{},{}}}')
F.add_clause([b(1, 1), -b(2, 3)])
F.update_variable_number(20)
w = F.new_words(2, 2, label='w_{{{}}}')
observe('blocks and gaps', F)

F = CNF()
F.update_variable_number(4)
e0 = F.new_block(0, 3, label='e{}{}')
observe('gap then empty block', F)
e1 = F.new_block(3, 0)
s = F.new_variable()
observe('empty blocks and unnamed singleton', F)
c = F.new_combinations(4, 2)
p = F.new_permutations(3)
cr = F.new_combinations_with_replacement(2, 2, label='c{}')
F.add_clause([-1, c(1, 2), 40])
observe('combinatorial groups', F)

F = CNF()
B = BipartiteGraph(2, 3)
for (u, v) in [(1, 2), (1, 3), (2, 1)]:
    B.add_edge(u, v)
be = F.new_bipartite_edges(B)
F.update_variable_number(5)
G = Graph(4)
for (u, v) in [(1, 2), (2, 3), (3, 4), (1, 4)]:
    G.add_edge(u, v)
ge = F.new_graph_edges(G)
D = DirectedGraph(3)
D.add_edge(1, 2); D.add_edge(2, 3); D.add_edge(1, 3)
F.add_clause([12])
de = F.new_digraph_edges(D)
m = F.new_mapping(2, 2)
F.update_variable_number(F.number_of_variables() + 2)
sm = F.new_sparse_mapping(B)
bm = F.new_binary_mapping(3, 4)
F.force_complete_mapping(m)
F.force_functional_mapping(sm)
observe('graph groups', F)

# groups added while labels are being consumed
F = CNF()
F.new_variable('a'); F.update_variable_number(3); F.new_variable('b')
def drain(g):
    got = []
    try:
        for lab in g:
            got.append(lab)
        return ('done', got)
    except BaseException as e:
        return ('exc', type(e).__name__, str(e), got)

g = F.all_variable_labels()
first = [next(g), next(g)]
F.new_variable('late'); F.update_variable_number(9)
rec('live', first, drain(g))
g = F.all_variable_labels()
first = [next(g) for _ in range(6)]
F.update_variable_number(12)
rec('live2', first, drain(g))
g = F.all_variable_labels()
first = [next(g) for _ in range(2)]
F.new_block(2, 2, label='n{}{}')
rec('live3', first, drain(g))
rec('after', drain(F.all_variable_labels()))

# VariablesManager over a BaseCNF
C = BaseCNF()
V = VariablesManager(C)
V.new_variable(label='X'); C.update_variable_number(4); V.new_block(2, 2, label='q{}{}')
C.add_clause([1, 9])
rec('manager on BaseCNF', C.number_of_variables(), drain(V.all_variable_labels()), drain(V.all_variable_labels('y{}')), drain(C.all_variable_labels()))

# random constructions
rnd = random.Random(2024)
for t in range(60):
    F = CNF(description='random {}'.format(t))
    for step in range(rnd.randint(0, 8)):
        k = rnd.randint(0, 5)
        if k == 0:
            F.new_variable(label=rnd.choice([None, 'v{}'.format(step), 'a b']))
        elif k == 1:
            F.new_block(rnd.randint(0, 3), rnd.randint(0, 3), label='b%d_{{{},{}}}' % step)
        elif k == 2:
            F.update_variable_number(F.number_of_variables() + rnd.randint(0, 4))
        elif k == 3:
            n = F.number_of_variables() + rnd.randint(0, 3)
            if n > 0:
                F.add_clause([rnd.choice([-1, 1]) * rnd.randint(1, n) for _ in range(rnd.randint(0, 4))])
        elif k == 4:
            F.new_combinations(rnd.randint(0, 4), rnd.randint(0, 2), label='c%d{}' % step)
        else:
            F.new_block(rnd.randint(1, 4))
    observe('random %d' % t, F)

# families and transformation chains (substitutions iterate over all_variable_labels)
fams = [
    ('php', lambda: cnfgen.PigeonholePrinciple(3, 2)),
    ('op', lambda: cnfgen.OrderingPrinciple(3)),
    ('parity', lambda: cnfgen.CountingPrinciple(4, 2)),
    ('cliq', lambda: cnfgen.CliqueFormula(Graph.complete_graph(3) if hasattr(Graph, 'complete_graph') else G, 2)),
    ('php xor', lambda: cnfgen.XorSubstitution(cnfgen.PigeonholePrinciple(2, 2), 2)),
    ('op or', lambda: cnfgen.OrSubstitution(cnfgen.OrderingPrinciple(3), 2)),
    ('php lift', lambda: cnfgen.FormulaLifting(cnfgen.PigeonholePrinciple(2, 1), 2)),
    ('shuffle', lambda: cnfgen.Shuffle(cnfgen.PigeonholePrinciple(2, 2), 'fixed', [4, 3, 2, 1], 'fixed')),
    ('flip', lambda: cnfgen.FlipPolarity(cnfgen.OrderingPrinciple(3))),
    ('maj', lambda: cnfgen.MajoritySubstitution(cnfgen.CNF([[1, -2], [3]]), 3)),
    ('varcompr', lambda: cnfgen.VariableCompression(cnfgen.CNF([[1, -2], [3]]), _vc(), 'xor')),
]
def _vc():
    Bv = BipartiteGraph(3, 2)
    Bv.add_edge(1, 1); Bv.add_edge(3, 1); Bv.add_edge(2, 2); Bv.add_edge(3, 2)
    return Bv
for name, mk in fams:
    try:
        observe('fam ' + name, mk())
    except BaseException as e:
        rec('fam exc', name, type(e).__name__, str(e))

# the command line
for argv in [['cnfgen', '--varnames', 'php', 3, 2],
             ['cnfgen', '-q', '--varnames', 'op', 3],
             ['cnfgen', '--varnames', 'php', 2, 2, '-T', 'xor', 2],
             ['cnfgen', '--varnames', '-q', 'randkcnf', 3, 6, 4, '-T', 'or', 2],
             ['cnfgen', '--seed', 5, '--varnames', 'randkcnf', 3, 6, 4, '-T', 'shuffle'],
             ['cnfgen', '--varnames', '-of', 'latex', 'peb', 'pyramid', 2],
             ['cnfgen', '--varnames', 'and', 0, 0],
             ['cnfgen', '--varnames', 'or', 2, 1]]:
    try:
        random.seed(99)
        so, se = io.StringIO(), io.StringIO()
        with contextlib.redirect_stdout(so), contextlib.redirect_stderr(se):
            res = cnfgen_cli(argv, mode='output')
        rec('cli', argv, res, so.getvalue(), se.getvalue())
    except BaseException as e:
        rec('cli exc', argv, type(e).__name__, str(e))

text = "\n".join(out)
if '-v' in sys.argv: print(text)
print(hashlib.sha256(text.encode('utf-8', 'backslashreplace')).hexdigest())
