#!/usr/bin/env python
"""Equivalence check for the non_edges helper and the k-clique formulas using it."""
import sys, os, io, random, hashlib, itertools
from contextlib import redirect_stdout, redirect_stderr
sys.path.insert(0, os.getcwd())

import networkx as nx
import cnfgen
from cnfgen.graphs import Graph, BipartiteGraph, DirectedGraph
from cnfgen.clitools import cnfgen as cnfgen_cli
import cnfgen.families.subgraph as sg
from cnfgen.families.subgraph import (CliqueFormula, BinaryCliqueFormula,
                                      SubgraphFormula, RamseyWitnessFormula)

H = hashlib.sha256()


def emit(*items):
    for it in items:
        H.update(repr(it).encode('utf8'))
        H.update(b'\x00')


def attempt(tag, fn):
    try:
        emit(tag, 'ok', fn())
    except BaseException as e:
        emit(tag, 'exc', type(e).__name__, str(e))


def mkgraph(n, edges, name=None):
    G = Graph(n, name=name)
    for u, v in edges:
        G.add_edge(u, v)
    return G


def dump(F):
    return (F.header.get('description'), F.number_of_variables(),
            list(F.all_variable_labels()), list(F.clauses()), F.to_dimacs())


def ne(G):
    it = sg.non_edges(G)
    return (type(it).__name__, list(it))


graphs = []
for n in range(0, 5):
    pairs = list(itertools.combinations(range(1, n + 1), 2))
    for mask in range(1 << len(pairs)):
        edges = [p for i, p in enumerate(pairs) if mask >> i & 1]
        graphs.append(mkgraph(n, edges, 'g{}_{}'.format(n, mask)))
rnd = random.Random(77)
for n in (5, 6, 8):
    for p in (0.0, 0.3, 0.7, 1.0):
        pairs = list(itertools.combinations(range(1, n + 1), 2))
        graphs.append(mkgraph(n, [e for e in pairs if rnd.random() < p],
                              'r{}_{}'.format(n, p)))
graphs.append(Graph.from_networkx(nx.petersen_graph()))
graphs.append(Graph.from_networkx(nx.complete_multipartite_graph(2, 2, 2)))

for G in graphs:
    attempt(('ne', G.name), lambda: ne(G))
    for k in (0, 1, 2, 3, 4):
        if G.order() > 6 and k > 3:
            continue
        for sb in (True, False):
            attempt(('clique', G.name, k, sb), lambda: dump(CliqueFormula(G, k, symbreak=sb)))
            attempt(('binclique', G.name, k, sb), lambda: dump(BinaryCliqueFormula(G, k, symbreak=sb)))
    if G.order() <= 5:
        for k, s in ((2, 2), (3, 2), (2, 3), (0, 1), (3, 3)):
            for sb in (True, False):
                attempt(('ramlb', G.name, k, s, sb),
                        lambda: dump(RamseyWitnessFormula(G, k, s, symbreak=sb)))

small = [g for g in graphs if g.order() <= 3]
for G in graphs[::7]:
    for Hh in small[::3]:
        for ind in (False, True):
            for sb in (False, True):
                attempt(('sub', G.name, Hh.name, ind, sb),
                        lambda: dump(SubgraphFormula(G, Hh, induced=ind, symbreak=sb)))

# networkx input, default arguments, top level names
for nxg in (nx.path_graph(4), nx.complete_graph(4), nx.null_graph(), nx.empty_graph(2), nx.cycle_graph(5)):
    attempt('nx-clique', lambda: dump(cnfgen.CliqueFormula(nxg, 3)))
    attempt('nx-binclique', lambda: dump(cnfgen.BinaryCliqueFormula(nxg, 3)))

# non_edges on other graph classes and bad inputs
B = BipartiteGraph(2, 3)
B.add_edge(1, 2)
D = DirectedGraph(3)
D.add_edge(1, 2)
for obj in (B, D, nx.path_graph(3), None, 4, 'g', [1, 2]):
    attempt(('ne other', type(obj).__name__), lambda: ne(obj))
K3 = mkgraph(3, [(1, 2), (2, 3), (1, 3)], 'k3')
for bad_k in (-1, 1.5, 'two', None, True):
    attempt(('bad k', bad_k), lambda: dump(CliqueFormula(K3, bad_k)))
    attempt(('bad k bin', bad_k), lambda: dump(BinaryCliqueFormula(K3, bad_k)))
for bad_g in (None, 3, 'graph', [1, 2], nx.DiGraph([(1, 2)]), B):
    attempt(('bad G', type(bad_g).__name__), lambda: dump(CliqueFormula(bad_g, 2)))
    attempt(('bad G bin', type(bad_g).__name__), lambda: dump(BinaryCliqueFormula(bad_g, 2)))


def run_cli(argv):
    out, err = io.StringIO(), io.StringIO()
    try:
        with redirect_stdout(out), redirect_stderr(err):
            res = cnfgen_cli(argv, mode='string')
        emit('CLI', argv, 'ok', res, out.getvalue(), err.getvalue())
    except SystemExit as e:
        emit('CLI', argv, 'exit', e.code, out.getvalue(), err.getvalue())
    except BaseException as e:
        emit('CLI', argv, 'exc', type(e).__name__, str(e), out.getvalue(), err.getvalue())


for spec in (['complete', 4], ['grid', 3, 3], ['empty', 3], ['gnp', 7, 0.5], ['gnd', 8, 3],
             ['gnm', 8, 10, 'plantclique', 4], ['complete', 2, 3], ['torus', 3, 3], ['complete', 0]):
    for k in (0, 1, 2, 3, 4, -1):
        run_cli(['cnfgen', '-q', '--seed', 23, 'kclique', k] + spec)
        run_cli(['cnfgen', '-q', '--seed', 23, 'kclique', k] + spec + ['--no-symmetry-breaking'])
        run_cli(['cnfgen', '-q', '--seed', 23, 'kcliquebin', k] + spec)
    run_cli(['cnfgen', '--seed', 23, 'kclique', 3] + spec)
    run_cli(['cnfgen', '-q', '--seed', 23, 'ramlb', 3, 3] + spec)
    run_cli(['cnfgen', '-q', '--seed', 23, 'subgraph', '-G'] + spec + ['-H', 'complete', 3])
run_cli(['cnfgen', '-q', '-of', 'latex', 'kclique', 3, 'grid', 2, 3])
run_cli(['cnfgen', '-q', '-of', 'opb', 'kcliquebin', 3, 'grid', 2, 3])
run_cli(['cnfgen', '-q', 'kclique'])
run_cli(['cnfgen', '-q', 'kclique', 3])
run_cli(['cnfgen', '-q', 'kcliquebin', 'x', 'complete', 3])

print(H.hexdigest())
