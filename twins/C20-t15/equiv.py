#!/usr/bin/env python
"""Equivalence check for property C20 (solve / is_satisfiable / sat_solve /
some_solver_installed).  Fake SAT solvers (tiny /bin/sh scripts) speaking the
three I/O conventions are placed in a private directory which becomes the
whole PATH; everything observable (results, exceptions and messages, stderr
chatter, what the solver was fed, leftover temporary files) is hashed.

Run as:  cd <checkout> && /venv/bin/python equiv.py
"""
import contextlib
import hashlib
import io
import os
import random
import re
import shutil
import stat
import sys
import tempfile
import warnings

sys.path.insert(0, os.getcwd())
warnings.simplefilter("ignore")

from cnfgen import CNF                                    # noqa: E402
import cnfgen                                             # noqa: E402
from cnfgen.utils import solver as S                      # noqa: E402

H = hashlib.sha256()
NREC = [0]


def rec(*items):
    NREC[0] += 1
    H.update(repr(items).encode("utf-8", "backslashreplace"))
    H.update(b"\n")
    if os.environ.get("EQUIV_DUMP"):
        sys.stderr.write(repr(items) + "\n")


BASE = tempfile.mkdtemp(prefix="c20equiv")
BIN = os.path.join(BASE, "bin")
TMP = os.path.join(BASE, "tmp")
LOG = os.path.join(BASE, "log")
os.mkdir(BIN)
os.mkdir(TMP)
tempfile.tempdir = TMP
os.environ["PATH"] = BIN
os.environ["FAKE_LOG"] = LOG

TMPRE = re.compile(re.escape(TMP) + r"/tmp[a-z0-9_]{8}")


def norm(text):
    return TMPRE.sub("<TMP>", text)


SCRIPT = r"""#!/bin/sh
PATH=/usr/bin:/bin
exec 2>/dev/null
if [ "$1" = "--help" ]; then exit 0; fi
echo "ARGV %(name)s $*" >> "$FAKE_LOG"
conv=%(conv)s
prev=
last=
for a; do prev=$last; last=$a; done
case "$conv" in
  stdin)   cat >> "$FAKE_LOG"; printf '%%s' "$FAKE_OUT" ;;
  filein)  cat "$last" >> "$FAKE_LOG"; printf '%%s' "$FAKE_OUT" ;;
  fileout) cat "$prev" >> "$FAKE_LOG"; printf '%%s' "$FAKE_STDOUT"
           printf '%%s' "$FAKE_OUT" > "$last" ;;
  filerm)  cat "$prev" >> "$FAKE_LOG"; rm -f "$last" ;;
  noread)  printf '%%s' "$FAKE_OUT" ;;
esac
exit ${FAKE_RC:-0}
"""

# independent table of the conventions of the supported solvers
CONV = {
    'cadical': 'stdin', 'kissat': 'stdin', 'lingeling': 'stdin',
    'plingeling': 'stdin', 'precosat': 'stdin', 'picosat': 'stdin',
    'march': 'filein', 'cryptominisat': 'stdin', 'minisat': 'fileout',
    'glucose': 'stdin', 'sat4j': 'filein',
}


def install(name, conv, executable=True):
    path = os.path.join(BIN, name)
    with open(path, "w") as f:
        f.write(SCRIPT % {"name": name, "conv": conv})
    os.chmod(path, 0o755 if executable else 0o644)


def clear_bin():
    for name in os.listdir(BIN):
        p = os.path.join(BIN, name)
        if os.path.isdir(p):
            os.rmdir(p)
        else:
            os.unlink(p)


def set_out(out, stdout="", rc=0):
    os.environb[b"FAKE_OUT"] = out if isinstance(out, bytes) else out.encode()
    os.environ["FAKE_STDOUT"] = stdout
    os.environ["FAKE_RC"] = str(rc)


def run(tag, fn, *args, **kwargs):
    """Call fn, record everything observable."""
    if os.path.exists(LOG):
        os.unlink(LOG)
    err = io.StringIO()
    out = io.StringIO()
    try:
        with contextlib.redirect_stderr(err), contextlib.redirect_stdout(out):
            res = fn(*args, **kwargs)
        outcome = ("ok", repr(res), type(res).__name__)
    except BaseException as e:                            # noqa
        outcome = ("exc", type(e).__name__, norm(str(e)))
    log = ""
    if os.path.exists(LOG):
        with open(LOG, "rb") as f:
            log = norm(f.read().decode("latin-1"))
    leftovers = sorted(os.listdir(TMP))
    for name in leftovers:
        os.unlink(os.path.join(TMP, name))
    rec(tag, outcome, norm(err.getvalue()), norm(out.getvalue()), log,
        len(leftovers))
    return outcome


# ---------------------------------------------------------------- formulas
def formulas():
    res = []
    res.append(("empty", CNF()))
    res.append(("emptyclause", CNF([[]])))
    res.append(("small", CNF([[1, -2], [2]])))
    F = CNF([[1, -3]])
    F.update_variable_number(6)
    res.append(("unused", F))
    F = CNF()
    F.update_variable_number(4)
    res.append(("onlyvars", F))
    res.append(("php", cnfgen.PigeonholePrinciple(3, 2)))
    rnd = random.Random(2020)
    cls = []
    for _ in range(12):
        vs = rnd.sample(range(1, 8), 3)
        cls.append([v if rnd.random() < 0.5 else -v for v in vs])
    res.append(("rand3", CNF(cls)))
    F = CNF([[1, 2], [-1, -2]])
    F.header["weird"] = "line1\nline2 caf\xe9"
    res.append(("header", F))
    return res


FORMULAS = formulas()
SMALL = FORMULAS[2][1]

DIMACS_OUTS = [
    "s SATISFIABLE\nv 1 -2 0\n",
    "c hello\nc more\ns SATISFIABLE\nc other\nv -1 -2 -3\nc mid\nv 4 5 6\nv -7 0\nc end\n",
    "s UNSATISFIABLE\n",
    "c x\n\n\ns UNSATISFIABLE\nv 1 2 0\n",
    "s UNKNOWN\n",
    "",
    "c only a comment\n",
    "s\n",
    "s SATISFIABLE",
    "s SATISFIABLE\ns UNKNOWN\nv 1 0\n",
    "s UNKNOWN\ns SATISFIABLE\nv 3 -1 2 0\n",
    "s UNSATISFIABLE\ns SATISFIABLE\nv -2 1\n",
    " s SATISFIABLE\n",
    "sat SATISFIABLE\nv 1\n",
    "solution UNSATISFIABLE extra\n",
    "s  SATISFIABLE   \nv   5  -4 3   -2 1 0\nv 0\nv\n",
    "s SATISFIABLE\nv 1 x 0\n",
    "s SATISFIABLE\nvfoo 1 2\n",
    "s SATISFIABLE\nv 1 v 2 v 0 0 3\n",
    "s satisfiable\nv 1 0\n",
    "s SATISFIABLE\r\nv 1 -2 0\r\n",
    "v 1 2 0\n",
    "c\nc\nv 2 0\ns SATISFIABLE\nv -1\n",
    "s UNSATISFIABLE\nv x\n",
    b"s SATISFIABLE\nc caf\xc3\xa9\nv 1 0\n",
    "s SATISFIABLE\nv 10 -9 8 -7 6 -5 4 -3 2 -1 0\n",
    "s SATISFIABLE\nv -1 1 0\n",
]

MINISAT_OUTS = [
    "SAT\n1 -2 0\n",
    "UNSAT\n",
    "",
    "\n \n",
    "INDET\n",
    "SAT\n",
    "SAT",
    "SAT\n-2 1 0",
    "SAT 3 -1 2 0 0",
    "SAT\nx 0\n",
    "UNSAT 1 2\n",
    "UNSAT\nx y\n",
    "sat\n1 0\n",
    "SATISFIABLE\n1 0\n",
    "SAT\n10 -9 8 -7 6 -5 4 -3 2 -1 0\n",
    "0\n",
    b"SAT\ncaf\xc3\xa9\n",
]


# ------------------------------------------------- 1. the three conventions
def section_conventions():
    clear_bin()
    for name, conv in CONV.items():
        install(name, conv)
    install("mysolver", "stdin")
    for fname, F in FORMULAS:
        for solver in ['lingeling', 'sat4j', 'minisat', 'march', 'glucose',
                       'kissat']:
            outs = MINISAT_OUTS if CONV[solver] == 'fileout' else DIMACS_OUTS
            if fname not in ("small", "unused"):
                outs = outs[:4]
            for i, out in enumerate(outs):
                set_out(out, stdout="c minisat chatter\n")
                run(("solve", fname, solver, i), F.solve, cmd=solver)
                if i % 3 == 0:
                    run(("issat", fname, solver, i), F.is_satisfiable,
                        cmd=solver)
    # every supported name, with options on the command line, verbosity
    for solver in CONV:
        for verbose in (-1, 0, 1, 2, 3):
            for out in (("SAT\n2 -1 0\n", "s SATISFIABLE\nv 2\nv -1 0\n"),
                        ("UNSAT\n", "s UNSATISFIABLE\n"),
                        ("", "")):
                set_out(out[0] if CONV[solver] == 'fileout' else out[1],
                        stdout="chatter on stdout\n")
                run(("verbose", solver, verbose, out), SMALL.solve,
                    cmd=solver + " -opt  --plain", verbose=verbose)
                run(("verbose-ss", solver, verbose, out), S.sat_solve, SMALL,
                    solver, None, verbose)
    # non zero exit codes do not matter
    for solver in ('lingeling', 'sat4j', 'minisat'):
        for rc in (0, 1, 10, 20):
            set_out("UNSAT\n" if solver == 'minisat' else "s UNSATISFIABLE\n",
                    rc=rc)
            run(("rc", solver, rc), SMALL.solve, cmd=solver)


# ----------------------------------------------------- 2. sameas / dispatch
def section_sameas():
    clear_bin()
    for name, conv in CONV.items():
        install(name, conv)
    for sameas in list(CONV) + ['zchaff', '', 'Minisat', 'mysolver', 5, ()]:
        conv = CONV.get(sameas, 'stdin') if isinstance(sameas, str) else 'stdin'
        install("mysolver", conv)
        for out in ("SAT\n-1 2 0\n", "s SATISFIABLE\nv -1\nv 2 0\n",
                    "UNSAT\n", "s UNSATISFIABLE\n", ""):
            set_out(out)
            run(("sameas", sameas, out), SMALL.solve,
                cmd="mysolver -x", sameas=sameas)
            run(("sameas-issat", sameas, out), SMALL.is_satisfiable,
                cmd="  mysolver", sameas=sameas)
        # a supported solver run through the interface of another one
        set_out("s SATISFIABLE\nv 1 2 0\n")
        run(("cross", sameas), SMALL.solve, cmd="minisat", sameas=sameas)
        run(("cross2", sameas), SMALL.solve, cmd="sat4j -v", sameas=sameas)
        # sameas is ignored when no command is given
        run(("nocmd", sameas), SMALL.solve, cmd=None, sameas=sameas)
        run(("blankcmd", sameas), SMALL.solve, cmd="  \t ", sameas=sameas)
        run(("emptycmd", sameas), SMALL.is_satisfiable, cmd="", sameas=sameas)
    os.unlink(os.path.join(BIN, "mysolver"))
    set_out("s SATISFIABLE\nv 1 2 0\n")
    for cmd in ("mysolver", "mysolver -x", "other", "./minisat", "MINISAT",
                "minisat2 -a", "-v minisat"):
        run(("unsupported", cmd), SMALL.solve, cmd=cmd)
        run(("unsupported-issat", cmd), SMALL.is_satisfiable, cmd=cmd)
        run(("notinstalled", cmd), SMALL.solve, cmd=cmd, sameas='lingeling')
        run(("notinstalled-ms", cmd), SMALL.is_satisfiable, cmd=cmd,
            sameas='minisat')
        run(("badsameas", cmd), SMALL.solve, cmd=cmd, sameas='nope')
    # wrong types
    for bad in (None, 5, [[1, 2]], "p cnf 0 0", object()):
        run(("badF", repr(type(bad))), S.sat_solve, bad)
        run(("badF-cmd", repr(type(bad))), S.sat_solve, bad, cmd='minisat')
        run(("badF-sameas", repr(type(bad))), S.sat_solve, bad, sameas='nope')
    for badcmd in (5, ["minisat"], b"minisat", 0, False):
        run(("badcmd", repr(badcmd)), S.sat_solve, SMALL, cmd=badcmd)
        run(("badcmd-sameas", repr(badcmd)), S.sat_solve, SMALL, cmd=badcmd,
            sameas='minisat')
        run(("badcmd-badsameas", repr(badcmd)), S.sat_solve, SMALL,
            cmd=badcmd, sameas='nope')
    run(("supported",), S.supported_satsolvers)


# ------------------------------------------- 3. sets of installed solvers
INSTALLED_SETS = [
    [],
    ['sat4j'],
    ['minisat'],
    ['glucose', 'march'],
    ['march', 'minisat', 'sat4j'],
    ['kissat'],
    ['cadical', 'kissat'],
    ['picosat', 'cryptominisat', 'minisat'],
    list(CONV),
    ['unrelated'],
]


def section_installed():
    probes = [None, 'minisat', 'sat4j', 'nosuch', '', [], (), ['minisat'],
              ['nosuch', 'sat4j'], ('glucose', 'march'), ['a', 5], [5, 'a'],
              5, [None], ['minisat', None], [[]], {'minisat': 1}, {'sat4j'},
              ['nosuch', 'nosuch2'], list(CONV)[::-1], 'mini sat', b'minisat',
              [b'minisat'], ['minisat --help'], 'unrelated', ['', 'kissat']]
    for k, names in enumerate(INSTALLED_SETS):
        clear_bin()
        for name in names:
            install(name, CONV.get(name, 'stdin'))
        for j, p in enumerate(probes):
            run(("installed", k, j), S.some_solver_installed, p)
            run(("installed-kw", k, j), cnfgen.some_solver_installed,
                solvers=p)
        run(("installed-noarg", k), S.some_solver_installed)
        run(("installed-gen", k), S.some_solver_installed,
            (s for s in ['nosuch', 'minisat', 'sat4j']))
        run(("installed-gen2", k), S.some_solver_installed,
            iter(['kissat']))
        first = [s for s in CONV if s in names][:1]
        conv = CONV[first[0]] if first else 'stdin'
        for out in (("SAT\n-1 2 0\n", "s SATISFIABLE\nv 2\nv -1 0\n"),
                    ("UNSAT\n", "s UNSATISFIABLE\n"),
                    ("garbage", "garbage")):
            set_out(out[0] if conv == 'fileout' else out[1])
            for fname, F in FORMULAS[:4]:
                run(("any", k, fname, out), F.solve)
                run(("any-issat", k, fname, out), F.is_satisfiable)
                run(("any-verbose", k, fname, out), F.solve, verbose=2)
            for solver in ('minisat', 'sat4j', 'glucose', 'kissat'):
                set_out(out[0] if CONV[solver] == 'fileout' else out[1])
                run(("named", k, solver, out), SMALL.solve, cmd=solver)
                run(("named-issat", k, solver, out), SMALL.is_satisfiable,
                    cmd=solver + " -q")
    # unusable "solvers": not executable, directory
    clear_bin()
    install('minisat', 'fileout', executable=False)
    os.mkdir(os.path.join(BIN, 'lingeling'))
    install('sat4j', 'filein')
    set_out("s UNSATISFIABLE\n")
    run(("unusable", "any"), SMALL.solve)
    run(("unusable", "minisat"), SMALL.solve, cmd='minisat')
    run(("unusable", "lingeling"), SMALL.solve, cmd='lingeling')
    run(("unusable", "probe"), S.some_solver_installed,
        ['minisat', 'lingeling'])
    run(("unusable", "probe2"), S.some_solver_installed,
        ['minisat', 'lingeling', 'sat4j'])


# ------------------------------ 4. direct calls of the interface functions
def section_direct():
    clear_bin()
    for name, conv in CONV.items():
        install(name, conv)
    install('eater', 'filerm')
    install('deaf', 'noread')
    funcs = [('fileout', S._satsolve_filein_fileout, MINISAT_OUTS),
             ('stdin', S._satsolve_stdin_stdout, DIMACS_OUTS),
             ('filein', S._satsolve_filein_stdout, DIMACS_OUTS)]
    byconv = {'fileout': 'minisat', 'stdin': 'kissat', 'filein': 'march'}
    for conv, fn, outs in funcs:
        for i, out in enumerate(outs):
            set_out(out, stdout="some\nchatter\n")
            for fname, F in (FORMULAS[0], FORMULAS[3]):
                run(("direct", conv, fname, i), fn, F, byconv[conv])
                run(("direct-v", conv, fname, i), fn, F,
                    byconv[conv] + " -a -b", 2)
        # defaults, missing binaries, odd command lines
        set_out("")
        run(("direct-default", conv), fn, SMALL)
        for cmd in ('nosuchsolver', 'nosuchsolver -x', 'deaf', 'eater'):
            for verbose in (0, 1, 2):
                run(("direct-odd", conv, cmd, verbose), fn, SMALL, cmd,
                    verbose)
                run(("direct-odd-kw", conv, cmd, verbose), fn, SMALL,
                    cmd=cmd, verbose=verbose)
        run(("direct-emptycmd", conv), fn, SMALL, '')
        run(("direct-nonecmd", conv), fn, SMALL, None)
        run(("direct-badF", conv), fn, None, byconv[conv])
    set_out("s SATISFIABLE\nv 1 2 0\n")
    run(("eater-sameas",), SMALL.solve, cmd='eater', sameas='minisat')
    run(("deaf-sameas",), SMALL.solve, cmd='deaf', sameas='lingeling')
    run(("deaf-sameas-big",), cnfgen.PigeonholePrinciple(9, 8).solve,
        cmd='deaf', sameas='lingeling')


def main():
    try:
        section_conventions()
        section_sameas()
        section_installed()
        section_direct()
    finally:
        shutil.rmtree(BASE, ignore_errors=True)
    rec("count", NREC[0])
    print(H.hexdigest())


if __name__ == "__main__":
    main()
