#!/usr/bin/env python
"""Equivalence script for refactoring t1 (cnfgen.transformations.shuffle.Shuffle).

Run as:  cd <checkout> && /venv/bin/python equiv.py
Prints one SHA256 digest of everything observable.
"""
import sys
import os
import hashlib
import random
import warnings

warnings.simplefilter('ignore')
sys.path.insert(0, os.getcwd())

import networkx as nx
import cnfgen
from cnfgen import CNF, Shuffle

H = hashlib.sha256()


def emit(*items):
    for it in items:
        H.update(repr(it).encode('utf-8'))
        H.update(b'\x00')


def snapshot(F):
    """Everything observable of a formula (generator version normalised)"""
    hdr = [(k, v) for k, v in F.header.items() if k != 'generator']
    return (hdr,
            F.number_of_variables(),
            F.number_of_clauses(),
            [list(c) for c in F],
            list(F.all_variable_labels()),
            F.to_dimacs().replace(str(F.header.get('generator')), 'GEN'),
            )


def attempt(tag, F, *args, **kwargs):
    before = snapshot(F)
    argcopy = repr((args, sorted(kwargs.items())))
    try:
        out = Shuffle(F, *args, **kwargs)
        emit(tag, 'ok', snapshot(out), out is F)
    except Exception as e:  # noqa
        emit(tag, 'exc', type(e).__name__, str(e))
        out = None
    # input untouched, arguments untouched
    emit(tag, 'input-same', snapshot(F) == before,
         repr((args, sorted(kwargs.items()))) == argcopy)
    emit(tag, 'state', random.getstate()[1][:5])
    return out


def formulas():
    yield 'empty', CNF()
    yield 'emptyclause', CNF([[]])
    F = CNF()
    F.update_variable_number(4)
    yield 'novars-clauses', F
    yield 'one', CNF([[1]])
    yield 'small', CNF([[1, -2], [2, 3], [-1, -3, 4], [4], []],
                       description='small formula')
    yield 'php', cnfgen.PigeonholePrinciple(4, 3)
    yield 'ordering', cnfgen.OrderingPrinciple(4)
    yield 'tseitin', cnfgen.TseitinFormula(nx.cycle_graph(5))
    G = CNF([[1, 2], [-1, 2]])
    del G.header['description']
    yield 'nodesc', G
    K = CNF([[1, 2, 3], [-3]], description='with holes')
    K.header['transformation 1'] = 'first'
    K.header['transformation 3'] = 'third'
    yield 'holes', K


random.seed(20261002)
for name, F in formulas():
    N = F.number_of_variables()
    M = F.number_of_clauses()
    attempt((name, 'default'), F)
    attempt((name, 'fixed'), F, 'fixed', 'fixed', 'fixed')
    for p in ('fixed', 'shuffle'):
        for v in ('fixed', 'shuffle'):
            for c in ('fixed', 'shuffle'):
                attempt((name, p, v, c), F, polarity_flips=p,
                        variables_permutation=v, clauses_permutation=c)
    # explicit valid arguments, as lists and tuples
    rnd = random.Random(name)
    pol = [rnd.choice([-1, 1]) for _ in range(N)]
    vp = list(range(1, N + 1))
    rnd.shuffle(vp)
    cp = list(range(M))
    rnd.shuffle(cp)
    attempt((name, 'explicit-list'), F, pol, vp, cp)
    attempt((name, 'explicit-tuple'), F, tuple(pol), tuple(vp), tuple(cp))
    attempt((name, 'explicit-rev'), F, [-1] * N, list(range(N, 0, -1)),
            list(range(M - 1, -1, -1)))
    attempt((name, 'mixed1'), F, pol, 'fixed', cp)
    attempt((name, 'mixed2'), F, 'fixed', vp, 'shuffle')
    attempt((name, 'floats'), F, [1.0] * N, 'fixed', 'fixed')
    # invalid arguments: lengths
    attempt((name, 'pol-short'), F, pol[:-1] if N else [1], 'fixed', 'fixed')
    attempt((name, 'pol-long'), F, pol + [1], 'fixed', 'fixed')
    attempt((name, 'vp-short'), F, 'fixed', vp[:-1] if N else [1], 'fixed')
    attempt((name, 'vp-long'), F, 'fixed', vp + [N + 1], 'fixed')
    attempt((name, 'cp-short'), F, 'fixed', 'fixed', cp[:-1] if M else [0])
    attempt((name, 'cp-long'), F, 'fixed', 'fixed', cp + [M])
    # invalid arguments: values
    for pos in sorted({0, N // 2, N - 1}):
        if 0 <= pos < N:
            for bad in (0, 2, -2, 3):
                b = list(pol)
                b[pos] = bad
                attempt((name, 'pol-bad', pos, bad), F, b, 'fixed', 'fixed')
            b = list(vp)
            b[pos] = 0
            attempt((name, 'vp-zero', pos), F, 'fixed', b, 'fixed')
            b = list(vp)
            b[pos] = N + 1
            attempt((name, 'vp-big', pos), F, 'fixed', b, 'fixed')
            b = list(vp)
            b[pos] = b[0]
            attempt((name, 'vp-dup', pos), F, 'fixed', b, 'fixed')
            b = list(vp)
            b[pos] = -b[pos]
            attempt((name, 'vp-neg', pos), F, 'fixed', b, 'fixed')
    for pos in sorted({0, M // 2, M - 1}):
        if 0 <= pos < M:
            b = list(cp)
            b[pos] = M
            attempt((name, 'cp-big', pos), F, 'fixed', 'fixed', b)
            b = list(cp)
            b[pos] = -1
            attempt((name, 'cp-neg', pos), F, 'fixed', 'fixed', b)
            b = list(cp)
            b[pos] = b[0]
            attempt((name, 'cp-dup', pos), F, 'fixed', 'fixed', b)
    # both pol and vp bad: which error comes first
    attempt((name, 'all-bad'), F, [0] * N + [1], [0] * (N + 1), [0] * (M + 1))
    attempt((name, 'badstring'), F, 'nonsense', 'fixed', 'fixed')
    attempt((name, 'badstring2'), F, 'fixed', 'nonsense', 'fixed')
    attempt((name, 'badstring3'), F, 'fixed', 'fixed', 'nonsense')
    attempt((name, 'none'), F, None, None, None)
    # chains: provenance numbering
    X = F
    for step in range(3):
        X = attempt((name, 'chain', step), X)
        if X is None:
            break
    Y = attempt((name, 'chain-mix-0'), cnfgen.OrSubstitution(F, 2))
    if Y is not None:
        Y = cnfgen.FlipPolarity(Y)
        attempt((name, 'chain-mix-1'), Y, 'fixed', 'shuffle', 'fixed')

print(H.hexdigest())
