#!/usr/bin/env python
"""Equivalence script for t5: BinaryMappingVariables (sign table + forbid)."""
import sys, os, hashlib
from itertools import product
sys.path.insert(0, os.getcwd())

from cnfgen import CNF
from cnfgen.formula.opb import OPB
from cnfgen.formula.basecnf import BaseCNF
from cnfgen.formula.variables import BinaryMappingVariables, VariablesManager

H = hashlib.sha256()


def emit(*args):
    H.update((" ".join(repr(a) for a in args) + "\n").encode())


def attempt(tag, fn):
    try:
        res = fn()
        emit(tag, 'OK', res)
    except Exception as e:  # noqa
        emit(tag, 'EXC', type(e).__name__, str(e))


def sat_set(clauses, nvars):
    """Bitmask-free brute force: list of satisfying assignments"""
    res = []
    for bits in product([False, True], repeat=nvars):
        ok = True
        for cl in clauses:
            if not any((bits[abs(l) - 1] == (l > 0)) for l in cl):
                ok = False
                break
        if ok:
            res.append(''.join('1' if b else '0' for b in bits))
    return res


# 1. raw objects: sign tables, forbid on a wide range of arguments
for offset in (0, 3):
    for n in range(0, 5):
        for m in range(0, 10):
            F = BaseCNF()
            F.update_variable_number(offset)
            f = BinaryMappingVariables(F, n, m, labelfmt='b({},{})')
            emit('obj', offset, n, m, len(f), f.bits(), type(f.flips).__name__,
                 [type(x).__name__ for x in f.flips], f.flips,
                 list(f.domain()), list(f.range()))
            top = 2 ** f.bits()
            for i in range(-1, n + 3):
                for j in range(-top - 2, top + 3):
                    attempt(('forbid', offset, n, m, i, j),
                            lambda: f.forbid(i, j))
            attempt(('forbid-none', n, m), lambda: f.forbid(None, 0))
            attempt(('forbid-str', n, m), lambda: f.forbid(1, 'a'))
            attempt(('forbid-float', n, m), lambda: f.forbid(1, 1.0))
            attempt(('forbid-bool', n, m), lambda: f.forbid(1, True))

for bad in [(-1, 3), (3, -1), (-2, -2)]:
    attempt(('ctor', bad), lambda: BinaryMappingVariables(BaseCNF(), *bad))
    attempt(('new_binary_mapping', bad), lambda: CNF().new_binary_mapping(*bad))

# 2. force_* constraints built upon forbid, CNF and OPB alike
for cls in (CNF, OPB):
    for n in range(0, 4):
        for m in range(0, 6):
            for which in ('complete', 'functional', 'injective',
                          'nondecreasing', 'surjective', 'all'):
                F = cls()
                F.new_variable('pad')
                f = F.new_binary_mapping(n, m)

                def build():
                    if which in ('complete', 'all'):
                        F.force_complete_mapping(f)
                    if which in ('functional', 'all'):
                        F.force_functional_mapping(f)
                    if which in ('injective', 'all'):
                        F.force_injective_mapping(f)
                    if which in ('nondecreasing', 'all'):
                        F.force_nondecreasing_mapping(f)
                    if which == 'surjective':
                        F.force_surjective_mapping(f)
                attempt(('force', cls.__name__, n, m, which), build)
                emit('content', cls.__name__, n, m, which,
                     F.number_of_variables(), list(F),
                     list(F.all_variable_labels()))
                if cls is CNF:
                    emit('dimacs', F.to_dimacs())
                    if F.number_of_variables() <= 9:
                        emit('models', sat_set(list(F), F.number_of_variables()))
                else:
                    emit('opb', F.to_opb())

# 3. formula families relying on binary mappings
from cnfgen import BinaryPigeonholePrinciple
for (p, h) in [(1, 1), (2, 2), (3, 2), (4, 3), (5, 4), (3, 8), (2, 5)]:
    attempt(('bphp', p, h), lambda: BinaryPigeonholePrinciple(p, h).to_dimacs())
try:
    from cnfgen import BinaryCliqueFormula
    from cnfgen.graphs import Graph
    G = Graph(5)
    for e in [(1, 2), (2, 3), (3, 4), (4, 5), (1, 5), (1, 3)]:
        G.add_edge(*e)
    for k in (1, 2, 3):
        attempt(('bclique', k), lambda: BinaryCliqueFormula(G, k).to_dimacs())
except ImportError as e:
    emit('noclique', str(e))

print(H.hexdigest())
