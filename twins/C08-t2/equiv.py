#!/usr/bin/env python
"""Equivalence check for cnfgen.formula.linear.CNFLinear.add_linear (and its callers)."""
import sys, os, hashlib, random, warnings
sys.path.insert(0, os.getcwd())
warnings.simplefilter("ignore")

from cnfgen.formula.linear import CNFLinear
from cnfgen.formula.cnf import CNF
from cnfgen.formula.opb import OPB
from cnfgen.clitools.pbgen import cli as pbcli
from cnfgen.clitools.cnfgen import cli as cnfcli

random.seed(20260101)   # nothing below may depend on an unseeded generator
H = hashlib.sha256()
def rec(*items):
    for it in items:
        H.update(repr(it).encode('utf-8'))
        H.update(b'\x00')

def attempt(tag, fn, *args, **kw):
    try:
        res = fn(*args, **kw)
        rec(tag, 'ok', res)
        return res
    except SystemExit as e:
        rec(tag, 'exit', e.code)
    except BaseException as e:
        rec(tag, 'exc', type(e).__name__, str(e))

def snapshot(F):
    return (F.number_of_variables(), len(F), [list(c) for c in F], [type(c).__name__ for c in F])

OPS = ['<=', '>=', '<', '>', '==', '!=']
BADOPS = ['=', '=>', '', None, 3, 'geq', '≥']
LITS = [3, -1, 4, -2, 7, 5, -6]

# 1. exhaustive small cases, several container kinds
def kinds(lits):
    yield 'list', lambda: list(lits)
    yield 'tuple', lambda: tuple(lits)
    yield 'gen', lambda: (x for x in lits)
    yield 'iter', lambda: iter(lits)
    yield 'range', lambda: range(1, len(lits) + 1)
    yield 'map', lambda: map(int, lits)

for cls in (CNFLinear, CNF):
    for n in range(0, 7):
        for op in OPS:
            for const in range(-2, n + 3):
                for kname, mk in kinds(LITS[:n]):
                    if cls is CNF and kname not in ('list', 'gen'):
                        continue
                    for check in (True, False):
                        F = cls()
                        arg = mk()
                        attempt((cls.__name__, n, op, const, kname, check),
                                F.add_linear, arg, op, const, check=check)
                        rec(snapshot(F))
                        if kname == 'list':
                            rec('arg-after', arg)

# 2. invalid operators / literals / constants
for op in BADOPS:
    F = CNFLinear()
    attempt(('badop', repr(op)), F.add_linear, [1, 2], op, 1)
    rec(snapshot(F))
for lits in ([0], [1, 0, 2], ['a'], [1.5], [None], None, 5, [[1]], 'ab'):
    for op in OPS:
        for check in (True, False):
            F = CNFLinear()
            attempt(('badlits', repr(lits), op, check), F.add_linear, lits, op, 1, check=check)
            rec(snapshot(F))
for const in (None, 'x', 1.5, 2.0, True, [1]):
    for op in OPS:
        for lits in ([], [1, -2, 3]):
            F = CNFLinear()
            attempt(('badconst', repr(const), op, lits), F.add_linear, list(lits), op, const)
            rec(snapshot(F))

# 3. random accumulation into a single formula, and the named wrappers
rng = random.Random(424242)
for cls in (CNFLinear, CNF):
    F = cls()
    for trial in range(400):
        n = rng.randint(0, 7)
        lits = [rng.choice([-1, 1]) * v for v in rng.sample(range(1, 15), n)]
        if rng.random() < .3:
            lits = (x for x in lits)
        attempt(('acc', trial), F.add_linear, lits, rng.choice(OPS), rng.randint(-1, 8),
                check=rng.random() < .7)
    for n in range(0, 7):
        for v in range(-1, 8):
            for name in ('cardinality_geq', 'cardinality_leq', 'cardinality_eq', 'cardinality_neq'):
                attempt((name, n, v), getattr(F, name), LITS[:n], v)
        for name in ('add_loose_majority', 'add_loose_minority', 'add_strict_majority', 'add_strict_minority'):
            attempt((name, n), getattr(F, name), LITS[:n])
            attempt((name, n, 'gen'), getattr(F, name), (x for x in LITS[:n]))
    rec(snapshot(F))
    if cls is CNF:
        rec(F.to_dimacs())

# 4. mapping helpers that call cardinality_leq
for cls in (CNF, OPB):
    for (n, m) in ((0, 0), (1, 1), (3, 2), (2, 3), (4, 4)):
        F = cls()
        f = F.new_mapping(n, m)
        F.force_complete_mapping(f)
        F.force_functional_mapping(f)
        F.force_injective_mapping(f)
        F.force_surjective_mapping(f)
        rec(cls.__name__, n, m, F.number_of_variables(), list(F), list(F.all_variable_labels()))

# 5. command line tools on families with cardinality constraints
cmds = [
    ['php', '5', '4'], ['php', '3', '3', '--functional', '--onto'], ['php', '0', '0'], ['php', '1', '0'],
    ['-S', '11', 'php', '6', '4', '3'],
    ['-S', '7', 'subsetcard', 'glrd', '4', '5', '3'], ['-S', '3', 'subsetcard', '-e', 'glrp', '4', '5', '.5'],
    ['ec', 'complete', '5'], ['ec', 'torus', '3', '3'], ['domset', '2', 'complete', '4'],
    ['-S', '5', 'domset', '-a', '2', 'gnp', '6', '.5'], ['domset', '0', 'complete', '3'],
    ['count', '5', '2'], ['count', '6', '3'], ['parity', '4'], ['matching', 'complete', '4'],
    ['vdw', '6', '3', '3'], ['rphp', '4', '3', '2'], ['tseitin', 'first', 'complete', '4'],
    ['bphp', '5', '4'], ['kclique', '3', 'complete', '4'], ['kcolor', '3', 'complete', '4'],
    ['iso', 'complete', '3'], ['-S', '4', 'randkcnf', '3', '6', '9'], ['cpls', '2', '2', '2'],
    ['php', '-1', '2'],
]
for cmd in cmds:
    attempt(('cnfgen', cmd), cnfcli, ['cnfgen', '-q'] + cmd, mode='string')
    attempt(('cnfgen-opb', cmd), cnfcli, ['cnfgen', '-q', '-of', 'opb'] + cmd, mode='string')
    attempt(('cnfgen-v', cmd), cnfcli, ['cnfgen', '--varnames'] + cmd, mode='string')
    attempt(('pbgen', cmd), pbcli, ['pbgen', '-q'] + cmd, mode='string')

print(H.hexdigest())
