#!/usr/bin/env python
"""Equivalence check for the argument validators of cnfgen/clitools/cmdline.py
(positive_int, nonnegative_int, positive_even_int, probability), directly and
through the cnfgen / pbgen command lines (parameters of the formula families)."""
import sys, os, hashlib, random, warnings, argparse
sys.path.insert(0, os.getcwd())
warnings.simplefilter("ignore")

from fractions import Fraction
from decimal import Decimal
from cnfgen.clitools import cmdline
from cnfgen.clitools.cmdline import positive_int, nonnegative_int, positive_even_int, probability
import cnfgen.clitools as clitools
from cnfgen.clitools.pbgen import cli as pbcli
from cnfgen.clitools.cnfgen import cli as cnfcli

random.seed(20260106)
H = hashlib.sha256()
def rec(*items):
    for it in items:
        H.update(repr(it).encode('utf-8'))
        H.update(b'\x00')

def describe_exc(e):
    ctx = e.__context__
    cause = e.__cause__
    return (type(e).__name__, str(e), e.args,
            None if ctx is None else (type(ctx).__name__, str(ctx)),
            None if cause is None else (type(cause).__name__, str(cause)),
            e.__suppress_context__)

def attempt(tag, fn, *args, **kw):
    try:
        res = fn(*args, **kw)
        if hasattr(res, 'all_variable_labels'):
            rec(tag, 'ok-formula', res.number_of_variables(), len(res), list(res), list(res.all_variable_labels()))
        else:
            rec(tag, 'ok', type(res).__name__, res)
        return res
    except SystemExit as e:
        rec(tag, 'exit', e.code)
    except BaseException as e:
        rec(tag, 'exc', describe_exc(e))

class Weird:
    def __init__(self, v): self.v = v
    def __int__(self): return self.v
    def __float__(self): return float(self.v)
    def __repr__(self): return 'Weird(%r)' % (self.v,)
class BadInt:
    def __int__(self): raise ValueError("custom int failure")
    def __float__(self): raise ValueError("custom float failure")
    def __repr__(self): return 'BadInt()'
class BadFmt:
    def __format__(self, spec): raise RuntimeError("cannot format")
    def __int__(self): return 3
    def __float__(self): return .5

values = ['0', '1', '2', '3', '-1', '-2', '+4', ' 5 ', '07', '1_000', '1e3', '2.0', '0.5', '.5', '1.0', '1.0000001', '-0.0',
          '-1e-9', 'nan', 'NaN', 'inf', '-inf', '', ' ', 'x', '0x10', '१२', '٣', 'one', '1,5', '1/2', '99999999999999999999999',
          '-99999999999999999999999', '1e400', '0.' + '9' * 30,
          0, 1, 2, 3, -1, -2, 10**30, -10**30, True, False, 0.0, 0.5, 1.0, 1.5, 2.0, 2.9, -0.5, -0.0, -1.5, 1e300,
          float('nan'), float('inf'), float('-inf'), Fraction(1, 2), Fraction(4, 2), Fraction(-3, 2), Decimal('0.25'),
          Decimal('2'), Decimal('NaN'), None, [], [1], (2,), {}, b'3', b'x', bytearray(b'4'), 1 + 0j, object,
          Weird(2), Weird(-2), Weird(0), Weird(1), Weird(7), BadInt(), BadFmt()]

for name, fn in [('positive_int', positive_int), ('nonnegative_int', nonnegative_int),
                 ('positive_even_int', positive_even_int), ('probability', probability)]:
    rec(name, fn is getattr(clitools, name, fn), fn.__name__)
    for v in values:
        attempt((name, repr(v) if not isinstance(v, BadFmt) else 'BadFmt'), fn, v)
    for i in range(-30, 31):
        attempt((name, 'int', i), fn, i)
        attempt((name, 'str', i), fn, str(i))
        attempt((name, 'tenth', i), fn, str(i / 10))
    rng = random.Random(99)
    for trial in range(400):
        v = rng.choice([rng.randint(-50, 50), rng.uniform(-2, 3), str(rng.randint(-9, 9)),
                        "%.3f" % rng.uniform(-1, 2), rng.choice('abc-+. ') + str(rng.randint(0, 9))])
        attempt((name, 'rnd', trial, repr(v)), fn, v)

# used as argparse types
p = cmdline.CLIParser(prog='demo', usage='usage: demo ...')
p.add_argument('a', type=positive_int)
p.add_argument('b', type=nonnegative_int)
p.add_argument('--even', type=positive_even_int, default=2)
p.add_argument('--prob', type=probability, default=.5)
for argv in [['1', '0'], ['0', '0'], ['1', '-1'], ['x', '1'], ['2', '3', '--even', '4'], ['2', '3', '--even', '3'],
             ['2', '3', '--even', '0'], ['2', '3', '--even', 'e'], ['2', '3', '--prob', '1'], ['2', '3', '--prob', '1.1'],
             ['2', '3', '--prob', 'nan'], ['2', '3', '--prob', '-0'], ['2', '3', '--prob', 'p'], ['2.0', '3'], ['2', '3.0'], []]:
    attempt(('argparse', argv), lambda: sorted(vars(p.parse_args(argv)).items()))

# through the two command line tools: same parameters, CNF and OPB
cmds = [
    ['and', '2', '3'], ['and', '0', '0'], ['and', '-1', '2'], ['and', '2', 'x'], ['and', '2.5', '1'],
    ['or', '3', '1'], ['or', '0', '-3'], ['or', '', '1'],
    ['-S', '4', 'randkcnf', '3', '6', '9'], ['randkcnf', '0', '6', '9'], ['randkcnf', '3', '0', '9'], ['randkcnf', '3', '6', '-1'],
    ['-S', '4', 'randkcnf', '3', '6', '0'], ['randkcnf', 'k', '6', '9'],
    ['-S', '2', 'randkxor', '3', '5', '4'], ['randkxor', '-3', '5', '4'],
    ['cpls', '2', '2', '2'], ['cpls', '0', '2', '2'], ['cpls', '2', '-2', '2'], ['cpls', '2', '2', 'c'],
    ['kclique', '3', 'complete', '4'], ['kclique', '0', 'complete', '4'], ['kclique', '-1', 'complete', '4'], ['kclique', 'k', 'complete', '4'],
    ['kcliquebin', '2', 'complete', '4'], ['kcliquebin', '0', 'complete', '4'],
    ['kcolor', '3', 'complete', '4'], ['kcolor', '0', 'complete', '3'], ['kcolor', '-2', 'complete', '3'],
    ['ramlb', '3', '3', 'complete', '4'], ['ramlb', '-3', '3', 'complete', '4'], ['ramlb', '3', 'three', 'complete', '4'],
    ['domset', '2', 'complete', '4'], ['domset', '0', 'complete', '4'], ['domset', '-1', 'complete', '4'],
    ['parity', '4'], ['parity', '0'], ['parity', '-4'], ['parity', 'four'], ['count', '5', '2'], ['count', '5', '0'], ['count', '-5', '2'],
    ['pitfall', '1', '1', '1', '1', '2'], ['pitfall', '1', '1', '1', '1', '1'], ['pitfall', '1', '1', '1', '1', '0'], ['pitfall', '1', '1', '1', '1', 'k'],
    ['-S', '5', 'domset', '2', 'gnp', '6', '.5'], ['domset', '2', 'gnp', '6', '1.5'], ['domset', '2', 'gnp', '6', 'nan'], ['domset', '2', 'gnp', '6', '-.5'],
    ['-S', '5', 'ec', 'gnd', '6', '4'], ['ec', 'gnd', '6', '-4'], ['-S', '5', 'ec', 'gnm', '5', '6'],
    ['php', '4', '3'], ['php', '-4', '3'], ['php', '4', 'x'], ['vdw', '6', '3', '3'], ['vdw', '6', '0', '3'],
    ['stone', '3', 'pyramid', '1'], ['stone', '0', 'pyramid', '1'], ['stone', '-3', 'pyramid', '1'],
]
for cmd in cmds:
    attempt(('pbgen', cmd), pbcli, ['pbgen', '-q'] + cmd, mode='string')
    attempt(('cnfgen', cmd), cnfcli, ['cnfgen', '-q'] + cmd, mode='string')
    attempt(('cnfgen-opb', cmd), cnfcli, ['cnfgen', '-q', '-of', 'opb'] + cmd, mode='string')
    attempt(('pbgen-f', cmd), pbcli, ['pbgen'] + cmd, mode='formula')
    attempt(('cnfgen-f', cmd), cnfcli, ['cnfgen'] + cmd, mode='formula')
# transformations use the same validators (cnfgen only)
for tail in [['-T', 'xor', '2'], ['-T', 'xor', '0'], ['-T', 'xor', '-2'], ['-T', 'xor', 'x'], ['-T', 'lift', '2'], ['-T', 'exact', '3', '1'],
             ['-T', 'exact', '3', '0'], ['-T', 'anybut', '3', '-1'], ['-T', 'xorcomp', '2', '1'], ['-T', 'majority', '3']]:
    attempt(('cnfgen-T', tail), cnfcli, ['cnfgen', '-q', 'and', '1', '1'] + tail, mode='string')
    attempt(('pbgen-T', tail), pbcli, ['pbgen', '-q', 'and', '1', '1'] + tail, mode='string')

print(H.hexdigest())
