import sys, os, hashlib, random, itertools
sys.path.insert(0, os.getcwd())
from cnfgen.formula.cnf import CNF
from cnfgen.formula.basecnf import BaseCNF
from cnfgen.formula.variables import (VariablesManager, BlockOfVariables,
    WordOfIndicesVariables, BipartiteEdgesVariables, DiGraphEdgesVariables,
    GraphEdgesVariables, BinaryMappingVariables, SingletonVariableGroup)
from cnfgen.graphs import Graph, DirectedGraph, BipartiteGraph

OUT = []
def rec(*a):
    OUT.append(repr(a))

def attempt(tag, f):
    try:
        r = f()
        if hasattr(r, '__next__') or hasattr(r, '__iter__') and not isinstance(r, (str, tuple, list, dict)):
            r = list(r)
        rec(tag, 'ok', r)
    except Exception as e:
        rec(tag, 'exc', type(e).__name__, str(e))

def dump_group(tag, vg, patterns):
    attempt(tag + ':len', lambda: len(vg))
    attempt(tag + ':ids', lambda: list(vg))
    attempt(tag + ':indices', lambda: list(vg.indices()))
    attempt(tag + ':call', lambda: list(vg()))
    attempt(tag + ':label', lambda: list(vg.label()))
    attempt(tag + ':dict', lambda: sorted(vg.to_dict().items()))
    for p in patterns:
        attempt(tag + ':ind%r' % (p,), lambda: list(vg.indices(*p)))
        attempt(tag + ':call%r' % (p,), lambda: vg(*p))
        attempt(tag + ':lab%r' % (p,), lambda: vg.label(*p))
    try:
        ids = list(vg)
    except Exception:
        ids = []
    lo = ids[0] if ids else 1
    hi = ids[-1] if ids else 1
    for lit in list(range(lo - 2, hi + 3)):
        for s in (1, -1):
            attempt(tag + ':toidx%d' % (s * lit), lambda: vg.to_index(s * lit))
            attempt(tag + ':in%d' % (s * lit), lambda: (s * lit) in vg)

def digraph(n, edges):
    D = DirectedGraph(n)
    for u, v in edges:
        D.add_edge(u, v)
    return D

def graph(n, edges):
    G = Graph(n)
    for u, v in edges:
        G.add_edge(u, v)
    return G

def bip(l, r, edges):
    B = BipartiteGraph(l, r)
    for u, v in edges:
        B.add_edge(u, v)
    return B

rnd = random.Random(20240611)
pairpats = [(None, None), (1, None), (None, 1), (2, None), (None, 3), (1, 2), (2, 1),
            (3, 3), (0, None), (None, 0), (9, None), (None, 9), (1,), (1, 2, 3), (5, 1), (4, 4)]

# --- digraphs
dgs = [(0, []), (1, []), (3, []), (3, [(1, 2), (2, 3), (3, 1)]),
       (5, [(1, 2), (1, 3), (2, 3), (2, 4), (5, 1)]),
       (4, [(u, v) for u in range(1, 5) for v in range(1, 5) if u != v])]
for _ in range(4):
    n = rnd.randint(2, 6)
    es = [(u, v) for u in range(1, n + 1) for v in range(1, n + 1) if u != v and rnd.random() < 0.4]
    rnd.shuffle(es)
    dgs.append((n, es))
for i, (n, es) in enumerate(dgs):
    for sortby in ['pred', 'succ', 'other', None]:
        for start in (0, 7):
            for fmt in ['e_{{{},{}}}', 'd({},{})', '{}', '{}{}{}', '{a}']:
                tag = 'dg%d-%s-%d-%s' % (i, sortby, start, fmt)
                F = BaseCNF()
                F.update_variable_number(start)
                try:
                    vg = DiGraphEdgesVariables(F, digraph(n, es), labelfmt=fmt, sortby=sortby)
                except Exception as e:
                    rec(tag, 'ctor-exc', type(e).__name__, str(e))
                    continue
                dump_group(tag, vg, pairpats)
attempt('dg-badtype', lambda: DiGraphEdgesVariables(BaseCNF(), graph(3, [(1, 2)])))
attempt('dg-badtype2', lambda: DiGraphEdgesVariables(BaseCNF(), None, sortby='zzz'))
attempt('dg-badlabel', lambda: DiGraphEdgesVariables(BaseCNF(), digraph(2, [(1, 2)]), labelfmt=3))

# --- simple graphs and bipartite
gs = [(0, []), (2, []), (4, [(2, 1), (3, 2), (1, 3), (4, 2)]), (5, list(itertools.combinations(range(1, 6), 2)))]
for i, (n, es) in enumerate(gs):
    for start in (0, 5):
        for fmt in ['E[{},{}]', '{}', '{}{}{}']:
            tag = 'g%d-%d-%s' % (i, start, fmt)
            F = BaseCNF(); F.update_variable_number(start)
            try:
                vg = GraphEdgesVariables(F, graph(n, es), labelfmt=fmt)
            except Exception as e:
                rec(tag, 'ctor-exc', type(e).__name__, str(e)); continue
            dump_group(tag, vg, pairpats)
bs = [(0, 0, []), (2, 0, []), (0, 3, []), (2, 3, [(2, 1), (1, 3), (2, 2)]),
      (3, 3, [(u, v) for u in range(1, 4) for v in range(1, 4)])]
for i, (l, r, es) in enumerate(bs):
    for start in (0, 100):
        for fmt in ['X[{},{}]', '{}', '{}{}{}', '{z}']:
            tag = 'b%d-%d-%s' % (i, start, fmt)
            F = BaseCNF(); F.update_variable_number(start)
            try:
                vg = BipartiteEdgesVariables(F, bip(l, r, es), labelfmt=fmt)
            except Exception as e:
                rec(tag, 'ctor-exc', type(e).__name__, str(e)); continue
            dump_group(tag, vg, pairpats)
attempt('b-badtype', lambda: BipartiteEdgesVariables(BaseCNF(), graph(2, [])))
attempt('g-badtype', lambda: GraphEdgesVariables(BaseCNF(), bip(2, 2, [])))

# --- words
wpats = [(1,), (1, 2), (2, 1), (1, 1), (1, 2, 3), (3, 2, 1), (0,), (4, 4), (None,), (None, 1), (1, None)]
for wt in ['combinations', 'combinations_with_replacement', 'permutations', 'words', 'bogus', None, 3, ('combinations',), ['words']]:
    for n, k in [(0, 0), (0, 1), (1, 0), (1, 1), (3, 2), (4, 3), (2, 3), (3, 3), (-1, 1), (2, -1), (2.0, 1), ('a', 1), (True, 1)]:
        for start in (0, 3):
            for fmt in [None, 'q({})', '{}{}', 'plain', '{x}']:
                tag = 'w-%r-%r-%r-%d-%s' % (wt, n, k, start, fmt)
                F = BaseCNF(); F.update_variable_number(start)
                try:
                    vg = WordOfIndicesVariables(F, n, k, labelfmt=fmt, wordtype=wt)
                except Exception as e:
                    rec(tag, 'ctor-exc', type(e).__name__, str(e)); continue
                rec(tag, vg.n, vg.k, vg.wordtype, vg.offset, vg.vid2seq, sorted(vg.seq2vid.items()))
                dump_group(tag, vg, wpats)

# --- blocks
bpats = [(None, None), (1, None), (None, 2), (2, 2), (0, 1), (3, 1), (1,), (None,), (1, 1, 1), (None, None, 2), (4, None, 1)]
for ranges in [(), (0,), (1,), (3,), (2, 3), (3, 0), (0, 2), (2, 2, 2), (4, 1, 3), (-1,), (2, 'a'), (2.5,)]:
    for start in (0, 4):
        for fmt in [None, 'm[{},{}]', '{}', '{}{}{}{}', '{k}']:
            tag = 'blk-%r-%d-%s' % (ranges, start, fmt)
            F = BaseCNF(); F.update_variable_number(start)
            try:
                vg = BlockOfVariables(F, list(ranges), labelfmt=fmt)
            except Exception as e:
                rec(tag, 'ctor-exc', type(e).__name__, str(e)); continue
            dump_group(tag, vg, bpats)

# --- manager, interleavings, names
def names(F):
    attempt('names', lambda: list(F.all_variable_labels()))
    attempt('names2', lambda: list(F.all_variable_labels(default_label_format='y_{}')))
    attempt('nv', lambda: F.number_of_variables())

for seed in range(25):
    r = random.Random(seed)
    F = CNF()
    for step in range(r.randint(1, 9)):
        op = r.randrange(12)
        tag = 's%d.%d.%d' % (seed, step, op)
        try:
            if op == 0:
                rec(tag, F.new_variable('v%d' % step))
            elif op == 1:
                rs = [r.randint(0, 3) for _ in range(r.randint(1, 3))]
                g = F.new_block(*rs, label='b%d(' % step + ','.join(['{}'] * len(rs)) + ')')
                dump_group(tag, g, bpats[:6])
            elif op == 2:
                n = r.randint(0, 4); k = r.randint(0, 3)
                meth = r.choice([F.new_combinations, F.new_combinations_with_replacement, F.new_words, F.new_permutations])
                g = meth(n, k, label='w%d_{{{}}}' % step if r.random() < .3 else 'w{}')
                dump_group(tag, g, wpats[:5])
            elif op == 3:
                n = r.randint(0, 4)
                es = [(u, v) for u in range(1, n + 1) for v in range(1, n + 1) if u != v and r.random() < .5]
                g = F.new_digraph_edges(digraph(n, es), label='d%d({},{})' % step, sortby=r.choice(['pred', 'succ']))
                dump_group(tag, g, pairpats[:8])
            elif op == 4:
                n = r.randint(0, 4)
                es = [(u, v) for u in range(1, n + 1) for v in range(u + 1, n + 1) if r.random() < .5]
                g = F.new_graph_edges(graph(n, es), label='g%d({},{})' % step)
                dump_group(tag, g, pairpats[:8])
            elif op == 5:
                l = r.randint(0, 3); rr = r.randint(0, 3)
                es = [(u, v) for u in range(1, l + 1) for v in range(1, rr + 1) if r.random() < .5]
                g = F.new_bipartite_edges(bip(l, rr, es), label='be%d({},{})' % step)
                dump_group(tag, g, pairpats[:8])
            elif op == 6:
                g = F.new_mapping(r.randint(0, 3), r.randint(0, 3))
                dump_group(tag, g, pairpats[:8])
            elif op == 7:
                l = r.randint(1, 3); rr = r.randint(1, 3)
                es = [(u, v) for u in range(1, l + 1) for v in range(1, rr + 1) if r.random() < .6]
                g = F.new_sparse_mapping(bip(l, rr, es))
                dump_group(tag, g, pairpats[:8])
            elif op == 8:
                g = F.new_binary_mapping(r.randint(1, 3), r.randint(1, 5))
                dump_group(tag, g, pairpats[:6])
            elif op == 9:
                F.update_variable_number(F.number_of_variables() + r.randint(0, 3))
            elif op == 10:
                nv = F.number_of_variables() + r.randint(0, 2)
                if nv:
                    F.add_clause([r.choice([1, -1]) * r.randint(1, nv) for _ in range(3)])
            else:
                g = F.new_digraph_edges(digraph(3, [(1, 2), (3, 2)]), sortby=r.choice(['pred', 'succ', 'x']))
                dump_group(tag, g, pairpats[:8])
        except Exception as e:
            rec(tag, 'exc', type(e).__name__, str(e))
        names(F)
    attempt('dimacs', lambda: F.to_dimacs())

print(hashlib.sha256('\n'.join(OUT).encode()).hexdigest())
