"""Equivalence script for split_random_edges (cnfgen/graphs.py)."""
import os, sys, hashlib, random, io, contextlib
sys.path.insert(0, os.getcwd())

from cnfgen.graphs import Graph, BipartiteGraph, DirectedGraph, split_random_edges
from cnfgen.clitools.cnfgen import cli as cnfgen_cli
from cnfgen.clitools.pbgen import cli as pbgen_cli

H = hashlib.sha256()


def rec(*items):
    H.update((repr(items) + "\n").encode())


def snapshot(G):
    return (G.number_of_vertices(), G.number_of_edges(), list(G.edges()),
            [list(G.neighbors(v)) for v in G.vertices()], G.name)


def mk(n, p, seed):
    rnd = random.Random(seed)
    G = Graph(n)
    for u in range(1, n + 1):
        for v in range(u + 1, n + 1):
            if rnd.random() < p:
                G.add_edge(u, v)
    return G


# library level, explicit seed argument
for n in (1, 2, 3, 5, 8, 13):
    for p in (0.0, 0.3, 0.7, 1.0):
        for seed in (0, 1, 42, 'abc', -7):
            base = mk(n, p, n * 1000 + int(p * 10))
            ne = base.number_of_edges()
            for k in sorted({0, 1, 2, ne // 2, ne - 1, ne, ne + 1, ne + 5}):
                G = mk(n, p, n * 1000 + int(p * 10))
                try:
                    r = split_random_edges(G, k, seed=seed)
                    rec('ok', n, p, seed, k, r, snapshot(G), random.random())
                except Exception as e:
                    rec('exc', n, p, seed, k, type(e).__name__, str(e), snapshot(G))

# library level, no seed argument: global state
for s in (0, 5, 99):
    random.seed(s)
    G = mk(9, 0.5, 77)
    split_random_edges(G, 4)
    rec('global', s, snapshot(G), random.random())
    split_random_edges(G, 3)
    rec('global2', s, snapshot(G), random.random())

# error paths
for bad in (-1, -10, 1.5, '2', None, True):
    G = mk(6, 0.6, 3)
    try:
        r = split_random_edges(G, bad, seed=4)
        rec('okbad', bad, r, snapshot(G), random.random())
    except Exception as e:
        rec('excbad', repr(bad), type(e).__name__, str(e), snapshot(G))

for other in (BipartiteGraph(3, 3), DirectedGraph(4), "graph", None):
    for k in (0, 1, -1):
        try:
            random.seed(11)
            r = split_random_edges(other, k, seed=2)
            rec('okother', r)
        except Exception as e:
            rec('excother', type(other).__name__, k, type(e).__name__, str(e), random.random())

# command line level
cmdlines = [
    ['cnfgen', '--seed', '0', 'tseitin', 'first', 'gnp', '8', '.5', 'splitedges', '3'],
    ['cnfgen', '--seed', '17', 'tseitin', 'random', 'gnm', '9', '14', 'splitedges', '14'],
    ['cnfgen', '--seed', '17', 'tseitin', 'random', 'gnm', '9', '14', 'splitedges', '0'],
    ['cnfgen', '--seed', '-3', 'kcolor', '3', 'gnd', '10', '4', 'addedges', '2', 'splitedges', '5'],
    ['cnfgen', '--seed', '8', 'kclique', '3', 'gnp', '7', '.4', 'plantclique', '3', 'splitedges', '2'],
    ['cnfgen', '--seed', '8', 'domset', '3', 'grid', '3', '3', 'splitedges', '4'],
    ['cnfgen', '--seed', '8', 'tseitin', 'first', 'complete', '4', 'splitedges', '7'],
    ['cnfgen', '--seed', '8', 'tseitin', 'first', 'complete', '4', 'splitedges', '-1'],
    ['cnfgen', '--seed', '8', 'tseitin', 'first', 'complete', '4', 'splitedges', 'x'],
    ['cnfgen', '-q', '--seed', '21', 'op', 'gnp', '6', '.5', 'splitedges', '2', '-T', 'shuffle'],
]
for cl in cmdlines:
    for tool, name in ((cnfgen_cli, 'cnfgen'), (pbgen_cli, 'pbgen')):
        argv = [name] + cl[1:]
        err = io.StringIO()
        out = io.StringIO()
        try:
            with contextlib.redirect_stderr(err), contextlib.redirect_stdout(out):
                s = tool(argv, mode='string')
            rec('cli', argv, s, out.getvalue(), err.getvalue())
        except SystemExit as e:
            rec('cliexit', argv, e.code, out.getvalue(), err.getvalue())
        except Exception as e:
            rec('cliexc', argv, type(e).__name__, str(e), out.getvalue(), err.getvalue())

print(H.hexdigest())
