import sys, os, io, hashlib, argparse, random, contextlib
sys.path.insert(0, os.getcwd())
from cnfgen.clitools import cnfgen as cnfgen_cli
from cnfgen.clitools.pbgen import cli as pbgen_cli
from cnfgen.clihelpers.counting_helpers import TseitinCmdHelper
from cnfgen.formula.cnf import CNF
from cnfgen.graphs import Graph

H = hashlib.sha256()
def rec(*xs):
    for x in xs:
        H.update(repr(x).encode()); H.update(b'\n')

def run(fn, argv, mode='string'):
    err = io.StringIO(); out = io.StringIO()
    try:
        with contextlib.redirect_stderr(err), contextlib.redirect_stdout(out):
            res = fn(argv, mode=mode)
        rec('OK', argv, res)
    except SystemExit as e:
        rec('EXIT', argv, e.code)
    except BaseException as e:
        rec('EXC', argv, type(e).__name__, str(e))
    rec(err.getvalue(), out.getvalue())
    rec(random.random())   # state of the random stream afterwards

charges = ['first', 'random', 'randomodd', 'randomeven', 'zero', 'one', 'foo', 'FIRST', '']
graphs = [['grid', 2, 2], ['grid', 2, 3], ['complete', 1], ['complete', 2], ['complete', 4], ['gnd', 6, 3],
          ['gnp', 5, 0.5], ['torus', 3, 3], ['empty', 3], ['path', 1], ['cycle', 5], ['gnm', 4, 0]]
for seed in (0, 3, 42):
    for ch in charges:
        for g in graphs:
            run(cnfgen_cli, ['cnfgen', '-q', '--seed', seed, 'tseitin', ch] + g)
    for sh in ([5], [6], [6, 3], [5, 3], [4, 4], [3, 4], [5, 2], [1], [1, 1], [2, 1], [0], [7, 0], [-2], [4, 'x'], []):
        run(cnfgen_cli, ['cnfgen', '--seed', seed, 'tseitin'] + sh)
        run(pbgen_cli, ['pbgen', '-q', '--seed', seed, 'tseitin'] + sh)
    for ch in charges[:7]:
        run(pbgen_cli, ['pbgen', '-q', '--seed', seed, 'tseitin', ch, 'grid', 2, 3])
        run(cnfgen_cli, ['cnfgen', '--seed', seed, '-of', 'opb', 'tseitin', ch, 'cycle', 4, '-T', 'xor', 2])
run(cnfgen_cli, ['cnfgen', 'tseitin', 'first'])
run(cnfgen_cli, ['cnfgen', 'tseitin', 'grid', 2, 2])

# direct calls of the helper
def mk(n, edges):
    G = Graph(n)
    for u, v in edges:
        G.add_edge(u, v)
    return G
gs = [mk(0, []), mk(1, []), mk(3, [(1, 2), (2, 3), (1, 3)]), mk(4, [(1, 2), (3, 4)])]
nss = []
for G in gs:
    nss.append(dict(G=G))
    for ch in charges + [None, 3]:
        nss.append(dict(G=G, charge=ch))
for N, d in [(4, 3), (5, 3), (3, 3), (6, 2), (1, 0)]:
    nss.append(dict(N=N, d=d))
    nss.append(dict(N=N, d=d, charge='zero'))
    nss.append(dict(N=N, d=d, charge='bar'))
for kw in nss:
    random.seed(9)
    try:
        F = TseitinCmdHelper.build_formula(argparse.Namespace(**kw), CNF)
        rec('OK', sorted((k, str(v)) for k, v in kw.items() if k != 'G'), F.to_dimacs())
    except BaseException as e:
        rec('EXC', type(e).__name__, str(e), type(e.__context__).__name__, e.__suppress_context__)
    rec(random.random())
print(H.hexdigest())
