#!/usr/bin/env python
"""Equivalence harness for the mapping constraints of VariablesManager
(force_injective_mapping in particular, together with the other
force_*_mapping methods) on unary, sparse and binary mappings, for CNF
and OPB formulas.

Prints one SHA256 digest of everything observable.
"""
import sys
import os
import hashlib
import random
import warnings
from itertools import product

warnings.simplefilter('ignore')
sys.path.insert(0, os.getcwd())

from cnfgen.formula.cnf import CNF
from cnfgen.formula.opb import OPB
from cnfgen.graphs import BipartiteGraph

out = []


def rec(*args):
    out.append(repr(args))


def attempt(tag, fn):
    try:
        res = fn()
        rec(tag, 'ok', res)
    except Exception as e:
        rec(tag, 'EXC', type(e).__name__, str(e))


def dump(F):
    rec('formula', list(F), len(F), F.number_of_variables(),
        list(F.all_variable_labels()))
    if isinstance(F, CNF):
        rec(F.to_dimacs())
    else:
        rec(F.to_opb())


rng = random.Random(777)


def bipartite(n, m, p):
    B = BipartiteGraph(n, m)
    for u in range(1, n + 1):
        for v in range(1, m + 1):
            if rng.random() < p:
                B.add_edge(u, v)
    return B


graphs = []
for n, m in product(range(0, 5), range(0, 5)):
    for p in [0.0, 0.4, 1.0]:
        graphs.append((n, m, p, bipartite(n, m, p)))
graphs.append((6, 3, 0.5, bipartite(6, 3, 0.5)))
graphs.append((3, 6, 0.5, bipartite(3, 6, 0.5)))

methods = ['force_injective_mapping', 'force_complete_mapping',
           'force_functional_mapping', 'force_surjective_mapping',
           'force_nondecreasing_mapping']

for cls in [CNF, OPB]:
    # unary mappings
    for n, m in product(range(0, 6), range(0, 6)):
        for meth in methods:
            F = cls()
            F.new_variable('pad')
            f = F.new_mapping(n, m)
            attempt((cls.__name__, 'unary', n, m, meth),
                    lambda: getattr(F, meth)(f))
            dump(F)
    # sparse mappings
    for n, m, p, B in graphs:
        for meth in methods:
            F = cls()
            f = F.new_sparse_mapping(B)
            attempt((cls.__name__, 'sparse', n, m, p, meth),
                    lambda: getattr(F, meth)(f))
            dump(F)
    # binary mappings
    for n, m in product(range(0, 6), range(0, 10)):
        for meth in methods:
            F = cls()
            F.new_block(2, label='pad_{}')
            f = F.new_binary_mapping(n, m)
            attempt((cls.__name__, 'binary', n, m, meth),
                    lambda: getattr(F, meth)(f))
            dump(F)
    # several mappings in the same formula, injectivity called repeatedly
    F = cls()
    f = F.new_mapping(3, 4, label='f({})={}')
    g = F.new_binary_mapping(3, 5, label='g({},{})')
    h = F.new_sparse_mapping(bipartite(4, 3, 0.6), label='h({})={}')
    for q in [f, g, h, g, f]:
        rec('ret', F.force_injective_mapping(q))
    dump(F)

    # error paths
    F = cls()
    G = cls()
    f = F.new_mapping(2, 3)
    g = G.new_mapping(2, 3)
    fb = F.new_binary_mapping(2, 3)
    gb = G.new_binary_mapping(2, 3)
    blk = F.new_block(2, 2)
    for meth in methods:
        for name, arg in [('other-unary', g), ('other-binary', gb),
                          ('block', blk), ('none', None), ('int', 3),
                          ('list', [1, 2]), ('str', 'f')]:
            attempt((cls.__name__, 'err', meth, name),
                    lambda: getattr(F, meth)(arg))
        dump(F)
    # an equal but distinct formula
    F = cls()
    G = cls()
    g = G.new_mapping(2, 2)
    gb = G.new_binary_mapping(2, 2)
    attempt((cls.__name__, 'twin-unary'), lambda: F.force_injective_mapping(g))
    attempt((cls.__name__, 'twin-binary'), lambda: F.force_injective_mapping(gb))
    dump(F)


# semantics of injectivity on small cases (CNF): enumerate models
def models(F):
    nv = F.number_of_variables()
    res = []
    for a in range(2 ** nv):
        ok = True
        for c in F:
            if not any(((a >> (abs(l) - 1)) & 1) == (1 if l > 0 else 0)
                       for l in c):
                ok = False
                break
        if ok:
            res.append(a)
    return res


for n, m in [(2, 2), (3, 2), (2, 3), (3, 3)]:
    F = CNF()
    f = F.new_mapping(n, m)
    F.force_injective_mapping(f)
    rec('models-unary', n, m, models(F))
for n, m in [(2, 2), (3, 2), (2, 3), (3, 4), (2, 5), (4, 3)]:
    F = CNF()
    f = F.new_binary_mapping(n, m)
    F.force_injective_mapping(f)
    rec('models-binary', n, m, models(F))

print(hashlib.sha256("\n".join(out).encode('utf-8')).hexdigest())
