#!/usr/bin/env python
"""Equivalence script for the refactoring of cnfgen.graphs.guess_fileformat
and BaseGraph.from_file (Graph.from_file, DirectedGraph.from_file,
BipartiteGraph.from_file).

Run as:  cd <checkout> && /venv/bin/python equiv.py
Prints a single SHA256 digest of everything observed.
"""
import os
import sys
import io
import hashlib
import pathlib
import random
import shutil
import tempfile

sys.path.insert(0, os.getcwd())

import cnfgen
from cnfgen.graphs import (BaseGraph, Graph, DirectedGraph, BipartiteGraph,
                           CompleteBipartiteGraph, readGraph, writeGraph,
                           supported_graph_formats, guess_fileformat)

LOG = []


def log(*items):
    LOG.append(repr(items))


def describe(G):
    if G.is_bipartite():
        shape = ('bip', type(G).__name__, G.left_order(), G.right_order())
    else:
        shape = (type(G).__name__, G.number_of_vertices(), G.is_dag())
    return (shape, G.number_of_edges(), list(G.edges()), G.name)


def attempt(label, func, *args, **kwargs):
    try:
        res = func(*args, **kwargs)
        log(label, 'OK', res)
    except BaseException as e:  # noqa
        ctx = e.__context__
        log(label, 'EXC', type(e).__name__, str(e),
            None if ctx is None else (type(ctx).__name__, str(ctx)),
            e.__suppress_context__)


class Named(io.StringIO):
    """A text stream with an arbitrary name attribute"""
    def __init__(self, text, name):
        io.StringIO.__init__(self, text)
        self.name = name


class RaisingName(io.StringIO):
    def __init__(self, text, exc):
        io.StringIO.__init__(self, text)
        self._exc = exc

    @property
    def name(self):
        raise self._exc


class OnlyName(object):
    def __init__(self, name):
        self.name = name


def main():
    captured = io.StringIO()
    real_stdout = sys.stdout
    sys.stdout = captured
    here = os.getcwd()
    tmp = tempfile.mkdtemp(prefix='c14t11_')
    os.chdir(tmp)
    try:
        run()
    finally:
        sys.stdout = real_stdout
        os.chdir(here)
        shutil.rmtree(tmp, ignore_errors=True)
    log('stdout', captured.getvalue())
    data = "\n".join(LOG).encode('utf-8')
    if os.environ.get('EQUIV_DUMP'):
        sys.stderr.write(data.decode('utf-8', 'replace') + "\n")
    print(hashlib.sha256(data).hexdigest())


def run():
    rnd = random.Random(1411)
    formats = supported_graph_formats()
    log('formats', sorted(formats.items()))

    # ---- 1. guess_fileformat on its own
    names = ['g.gml', 'g.kthlist', 'g.dot', 'g.dimacs', 'g.matrix', 'g.GML', 'g', 'g.',
             '.gml', '..gml', 'a.b.gml', 'dir.d/g', 'dir.d/g.gml', '/abs/path/x.kthlist',
             '', '.', '..', 'g.gml ', 'g.tar.gz', '-', 'g.gml/', 'g.g m l', 'è.gml', 'x.è']
    objs = [(repr(n), n) for n in names]
    objs += [('Named:' + repr(n), Named('', n)) for n in names[:8]]
    objs += [('StringIO', io.StringIO('')),
             ('BytesIO', io.BytesIO(b'')),
             ('None', None), ('int', 3), ('float', 2.5), ('list', ['g.gml']),
             ('tuple', ('g.gml',)), ('bytes', b'g.gml'), ('Path', pathlib.Path('g.gml')),
             ('Named-None', Named('', None)), ('Named-int', Named('', 7)),
             ('Named-bytes', Named('', b'x.gml')), ('Named-Path', Named('', pathlib.Path('x.dot'))),
             ('Named-list', Named('', ['x.gml'])),
             ('OnlyName', OnlyName('y.dimacs')), ('OnlyName-None', OnlyName(None)),
             ('Raising-Attr', RaisingName('', AttributeError('no name here'))),
             ('Raising-Value', RaisingName('', ValueError('bad value'))),
             ('Raising-Index', RaisingName('', IndexError('bad index'))),
             ('Raising-Key', RaisingName('', KeyError('bad key'))),
             ('Raising-Type', RaisingName('', TypeError('bad type'))),
             ('Raising-OS', RaisingName('', OSError('bad os')))]
    fmts = [None, 'gml', 'kthlist', '', 'autodetect', 'zzz', 0, False, ('gml',)]
    for oname, obj in objs:
        for fmt in fmts:
            def guess():
                r = guess_fileformat(obj, fmt)
                return (r, type(r).__name__, r is fmt)
            attempt(('guess', oname, repr(fmt)), guess)
        attempt(('guess-default', oname), lambda: guess_fileformat(obj))
    attempt('guess-kw', lambda: guess_fileformat(fileorname='k.dot', fileformat=None))
    attempt('guess-kw2', lambda: guess_fileformat(fileformat='dot', fileorname=None))

    # ---- 2. graphs to write
    graphs = {'simple': [], 'digraph': [], 'dag': [], 'bipartite': []}
    for n in [0, 1, 2, 7, 10, 14]:
        for p in [0.0, 0.3, 1.0]:
            G = Graph(n, 'g{}'.format(n))
            D = DirectedGraph(n, 'd{}'.format(n))
            A = DirectedGraph(n, 'a{}'.format(n))
            for u in range(1, n + 1):
                for v in range(1, n + 1):
                    if u < v and rnd.random() < p:
                        G.add_edge(u, v)
                    if u < v and rnd.random() < p:
                        A.add_edge(u, v)
                    if u != v and rnd.random() < p:
                        D.add_edge(u, v)
            graphs['simple'].append(G)
            graphs['digraph'].append(D)
            graphs['dag'].append(A)
    for L, R in [(0, 0), (1, 0), (0, 2), (1, 1), (3, 4), (10, 12), (11, 2)]:
        for p in [0.0, 0.4, 1.0]:
            B = BipartiteGraph(L, R, 'b{}_{}'.format(L, R))
            for u in range(1, L + 1):
                for v in range(1, R + 1):
                    if rnd.random() < p:
                        B.add_edge(u, v)
            graphs['bipartite'].append(B)

    classes = [('Graph', Graph), ('DirectedGraph', DirectedGraph),
               ('BipartiteGraph', BipartiteGraph)]
    class_of = {'simple': Graph, 'digraph': DirectedGraph, 'dag': DirectedGraph,
                'bipartite': BipartiteGraph}

    # ---- 3. round trips through from_file: file names, file objects, streams
    texts = {}
    for gtype in ['simple', 'digraph', 'dag', 'bipartite']:
        cls = class_of[gtype]
        for idx, G in enumerate(graphs[gtype]):
            for fmt in formats[gtype]:
                fname = '{}_{}.{}'.format(gtype, idx, fmt)
                with open(fname, 'w', encoding='utf-8') as f:
                    writeGraph(G, f, gtype, fmt)
                with open(fname, 'r', encoding='utf-8') as f:
                    text = f.read()
                texts[(gtype, idx, fmt)] = text
                expected = (list(G.edges()), G.number_of_vertices())

                def check(H):
                    return (describe(H), (list(H.edges()), H.number_of_vertices()) == expected)

                attempt(('ff-name', gtype, idx, fmt), lambda: check(cls.from_file(fname)))
                attempt(('ff-name-fmt', gtype, idx, fmt), lambda: check(cls.from_file(fname, fmt)))
                attempt(('ff-name-kw', gtype, idx, fmt),
                        lambda: check(cls.from_file(fname, fileformat=fmt)))

                def from_handle(explicit):
                    with open(fname, 'r', encoding='utf-8') as fh:
                        H = cls.from_file(fh, explicit)
                        closed = fh.closed
                    return (check(H), closed)
                attempt(('ff-handle', gtype, idx, fmt), from_handle, None)
                attempt(('ff-handle-fmt', gtype, idx, fmt), from_handle, fmt)
                attempt(('ff-stream', gtype, idx, fmt),
                        lambda: check(cls.from_file(io.StringIO(text))))
                attempt(('ff-stream-fmt', gtype, idx, fmt),
                        lambda: check(cls.from_file(io.StringIO(text), fmt)))
                attempt(('ff-named-stream', gtype, idx, fmt),
                        lambda: check(cls.from_file(Named(text, 'whatever.' + fmt))))
                if idx % 5 == 0:
                    noext = '{}_{}_{}_noext'.format(gtype, idx, fmt)
                    shutil.copy(fname, noext)
                    shutil.copy(fname, noext + '.xyz')
                    attempt(('ff-noext', gtype, idx, fmt), lambda: check(cls.from_file(noext)))
                    attempt(('ff-noext-fmt', gtype, idx, fmt), lambda: check(cls.from_file(noext, fmt)))
                    attempt(('ff-badext', gtype, idx, fmt), lambda: check(cls.from_file(noext + '.xyz')))
                    attempt(('ff-badext-fmt', gtype, idx, fmt),
                            lambda: check(cls.from_file(noext + '.xyz', fmt)))
                    # every class against every file
                    for cname, other in classes:
                        attempt(('ff-cross', cname, gtype, idx, fmt),
                                lambda: describe(other.from_file(fname)))
                        for other_fmt in ['kthlist', 'gml', 'dot', 'dimacs', 'matrix', 'zzz', '']:
                            attempt(('ff-cross-fmt', cname, gtype, idx, fmt, other_fmt),
                                    lambda: describe(other.from_file(fname, other_fmt)))

    # ---- 4. odd arguments to from_file
    sample = 'simple_4.kthlist'
    for cname, cls in classes + [('BaseGraph', BaseGraph),
                                 ('CompleteBipartiteGraph', CompleteBipartiteGraph)]:
        attempt(('odd-missing', cname), lambda: describe(cls.from_file('nothere.gml')))
        attempt(('odd-missing-noext', cname), lambda: describe(cls.from_file('nothere')))
        attempt(('odd-dir', cname), lambda: describe(cls.from_file('.')))
        attempt(('odd-none', cname), lambda: describe(cls.from_file(None)))
        attempt(('odd-none-fmt', cname), lambda: describe(cls.from_file(None, 'kthlist')))
        attempt(('odd-int', cname), lambda: describe(cls.from_file(12345, 'kthlist')))
        attempt(('odd-int-nofmt', cname), lambda: describe(cls.from_file(12345)))
        attempt(('odd-path', cname), lambda: describe(cls.from_file(pathlib.Path(sample))))
        attempt(('odd-path-fmt', cname), lambda: describe(cls.from_file(pathlib.Path(sample), 'kthlist')))
        attempt(('odd-bytesio', cname), lambda: describe(cls.from_file(io.BytesIO(b'3\n1 : 0\n'), 'kthlist')))
        attempt(('odd-autodetect', cname), lambda: describe(cls.from_file(sample, 'autodetect')))
        attempt(('odd-sample', cname), lambda: describe(cls.from_file(sample)))
        attempt(('odd-sample-upper', cname), lambda: describe(cls.from_file(sample, 'KTHLIST')))
        attempt(('odd-named-int', cname),
                lambda: describe(cls.from_file(Named(texts[('simple', 4, 'kthlist')], 5))))
        attempt(('odd-named-none', cname),
                lambda: describe(cls.from_file(Named(texts[('simple', 4, 'kthlist')], None))))
        attempt(('odd-named-noext', cname),
                lambda: describe(cls.from_file(Named(texts[('simple', 4, 'kthlist')], 'stream'))))
        attempt(('odd-raising-attr', cname),
                lambda: describe(cls.from_file(RaisingName('3\n', AttributeError('nope')))))
        attempt(('odd-raising-key', cname),
                lambda: describe(cls.from_file(RaisingName('3\n', KeyError('nope')))))
        attempt(('odd-raising-fmt', cname),
                lambda: describe(cls.from_file(RaisingName('3\n', KeyError('nope')), 'kthlist')))

    # ---- 5. corrupted / truncated inputs through from_file
    samples = [('simple', 4, 'kthlist'), ('simple', 13, 'dimacs'), ('simple', 10, 'gml'),
               ('dag', 13, 'kthlist'), ('dag', 16, 'dimacs'), ('digraph', 13, 'kthlist'),
               ('digraph', 4, 'gml'), ('bipartite', 13, 'kthlist'), ('bipartite', 16, 'matrix'),
               ('bipartite', 13, 'gml'), ('digraph', 13, 'dimacs'), ('simple', 13, 'dot'),
               ('bipartite', 13, 'dot')]
    for gtype, idx, fmt in samples:
        if fmt not in formats[gtype]:
            continue
        cls = class_of[gtype]
        text = texts[(gtype, idx, fmt)]
        lines = text.split('\n')
        variants = [text[:len(text) // 2], text[:len(text) // 3], '', '\n\n' + text,
                    'c a comment\n' + text + '\n\nc trailing comment\n',
                    '\n'.join(reversed(lines))]
        for _ in range(6):
            chars = list(text)
            if chars:
                for _k in range(3):
                    pos = rnd.randrange(len(chars))
                    chars[pos] = rnd.choice('0123456789 :ex\n-')
            variants.append(''.join(chars))
        for _ in range(3):
            ll = list(lines)
            if len(ll) > 1:
                del ll[rnd.randrange(len(ll))]
            variants.append('\n'.join(ll))
        for vi, vtext in enumerate(variants):
            fname = 'var_{}_{}_{}_{}.{}'.format(gtype, idx, fmt, vi, fmt)
            with open(fname, 'w', encoding='utf-8') as f:
                f.write(vtext)
            attempt(('var', gtype, idx, fmt, vi), lambda: describe(cls.from_file(fname)))
            attempt(('var-stream', gtype, idx, fmt, vi),
                    lambda: describe(cls.from_file(io.StringIO(vtext), fmt)))


if __name__ == '__main__':
    main()
