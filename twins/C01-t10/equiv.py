#!/usr/bin/env python
"""Equivalence oracle for the refactoring of
cnfgen.clihelpers.php_helpers.PHPArgs.__call__

Run as:  cd <checkout> && /venv/bin/python equiv.py
Prints a single SHA256 digest of everything observed.
"""
import argparse
import hashlib
import io
import os
import random
import sys
from contextlib import redirect_stderr, redirect_stdout

sys.path.insert(0, os.getcwd())

from cnfgen.clitools.cnfgen import cli
from cnfgen.clitools.pbgen import cli as pbcli
from cnfgen.clitools import CLIParser
from cnfgen.clihelpers.php_helpers import PHPArgs, PHPCmdHelper, is_some_number
from cnfgen.formula.cnf import CNF

H = hashlib.sha256()


def rec(*items):
    for it in items:
        H.update(repr(it).encode('utf-8'))
        H.update(b'\x00')
    H.update(b'\n')


def attempt(tag, fn):
    out, err = io.StringIO(), io.StringIO()
    try:
        with redirect_stdout(out), redirect_stderr(err):
            res = fn()
        rec(tag, 'OK', res, out.getvalue(), err.getvalue())
    except BaseException as e:  # noqa
        rec(tag, 'EXC', type(e).__name__, str(e), getattr(e, 'code', None),
            out.getvalue(), err.getvalue())


SPECS = [
    [], ['0'], ['1'], ['2'], ['3'], ['5'],
    ['0', '0'], ['0', '3'], ['3', '0'], ['3', '3'], ['5', '3'], ['3', '5'],
    ['4', '4'], ['1', '1'],
    ['0', '0', '0'], ['3', '0', '0'], ['0', '3', '2'],
    ['6', '4', '0'], ['6', '4', '1'], ['6', '4', '2'], ['6', '4', '3'],
    ['6', '4', '4'], ['6', '4', '5'], ['6', '4', '100'], ['4', '6', '6'],
    ['4', '6', '7'], ['2', '3', '3'], ['7', '5', '2'],
    ['1', '2', '3', '4'], ['1', '2', '2', '2', '2'], ['5', '3', '2', 'x'],
    ['3.5'], ['3', '2.0'], ['1e1'], ['nan'], ['inf'], ['3', 'b'], ['3', '4', 'c'],
    [' 4 ', '3'], ['+4', '3'], ['04', '3'], ['4_0'], ['٣'],
    ['a'], ['a', '3'], ['foo.gml'],
    ['complete', '3', '4'], ['complete', '4', '3'], ['complete', '0', '0'],
    ['glrd', '5', '4', '2'], ['regular', '6', '4', '2'],
    ['glrm', '4', '4', '7'], ['glrp', '4', '3', '0.5'],
    ['shift', '5', '4', '1', '2'], ['complete', '3'], ['complete', '3', '4', '5'],
    ['complete', '3', '4', 'addedges', '1'], ['glrd', '5', '4', '9'],
]
FLAGS = [[], ['--functional'], ['--onto'], ['--functional', '--onto']]

for spec in SPECS:
    for flags in FLAGS:
        for seed in ['7', '42']:
            argv = ['cnfgen', '-q', '--seed', seed, 'php'] + flags + spec
            attempt(('cli', argv), lambda: cli(argv, mode='string'))
            rec('rnd', random.random())
        if flags in ([], ['--onto']):
            argv = ['cnfgen', '-q', '--seed', '5', 'php'] + spec + flags
            attempt(('cli-flags-after', argv), lambda: cli(argv, mode='string'))
            rec('rnd', random.random())

# negative numbers look like options to argparse
for spec in [['-1'], ['3', '-1'], ['-3', '2'], ['3', '2', '-1'], ['--', '-1'],
             ['--', '3', '-2']]:
    argv = ['cnfgen', '-q', '--seed', '3', 'php'] + spec
    attempt(('cli-neg', argv), lambda: cli(argv, mode='string'))

# other output formats and the formula object (header included)
for spec in [['4', '3'], ['5', '4', '2'], ['3']]:
    for of in ['opb', 'latex', 'dimacs']:
        argv = ['cnfgen', '-q', '--seed', '11', '-of', of, 'php'] + spec
        attempt(('cli-of', argv), lambda: cli(argv, mode='string'))
    argv = ['cnfgen', '--seed', '11', 'php', '--functional'] + spec
    attempt(('cli-formula', argv),
            lambda: (lambda F: (dict(F.header), list(F.clauses()),
                                list(F.all_variable_labels())))(cli(argv, mode='formula')))
    argv = ['cnfgen', '-v', '--seed', '11', 'php'] + spec
    attempt(('cli-output', argv), lambda: cli(argv, mode='output'))
    argv = ['pbgen', '-q', '--seed', '11', 'php'] + spec
    attempt(('pbgen', argv), lambda: pbcli(argv, mode='string'))

# the argparse action on its own: which attributes end up in the namespace
for spec in SPECS:
    def run():
        parser = CLIParser(prog='cnfgen php')
        PHPCmdHelper.setup_command_line(parser)
        random.seed(99)
        ns = parser.parse_args(spec)
        d = dict(vars(ns))
        B = d.pop('B', None)
        if B is not None:
            d['B'] = (B.left_order(), B.right_order(), list(B.edges()), B.name)
        return sorted(d.items())
    attempt(('action', spec), run)

    def run2():
        parser = CLIParser(prog='xyz')
        ns = argparse.Namespace(preset=1)
        try:
            PHPArgs(option_strings=[], dest='pigeonholes', nargs='*')(parser, ns, list(spec))
        finally:
            d = dict(vars(ns))
            B = d.pop('B', None)
            if B is not None:
                d['B'] = (B.left_order(), B.right_order(), list(B.edges()))
            rec('ns-after', spec, sorted(d.items()))
        return None
    random.seed(1234)
    attempt(('action-direct', spec), run2)

    def run3():
        parser = CLIParser(prog='cnfgen php')
        PHPCmdHelper.setup_command_line(parser)
        random.seed(5)
        ns = parser.parse_args(spec + ['--onto'])
        F = PHPCmdHelper.build_formula(ns, CNF)
        return F.to_dimacs(), dict(F.header)
    attempt(('build', spec), run3)

for s in ['1', '1.5', 'a', '', ' ', 'nan', '-3', '1e5', '0x10', '1_0', 'complete']:
    attempt(('is_some_number', s), lambda: is_some_number(s))

print(H.hexdigest())
