import hashlib, random, sys, io
sys.path.insert(0, '.')
import cnfgen
from cnfgen.formula.cnf import CNF
from cnfgen.transformations.shuffle import Shuffle
from cnfgen.transformations import substitutions as S
from cnfgen.transformations.substitutions import add_description

out = []
def rec(*a):
    out.append(repr(a))
def attempt(tag, f):
    try:
        rec(tag, 'ok', f())
    except Exception as e:
        rec(tag, 'exc', type(e).__name__, str(e))
def dump(tag, F):
    rec(tag, list(F.header.items()), F.number_of_variables(), F.number_of_clauses())
    mx = max((abs(l) for c in F for l in c), default=0)
    rec(tag, mx <= F.number_of_variables(), all(l != 0 for c in F for l in c))
    rec(tag, F.to_dimacs())
    rec(tag, list(F.all_variable_labels()))

# add_description directly
F = CNF()
for t in ('a', 'b', 'c'):
    add_description(F, t)
    rec(list(F.header.items()))
F.header['transformation 5'] = 'gap'
add_description(F, 'd'); add_description(F, 'e'); add_description(F, 'f')
rec(list(F.header.items()))
del F.header['transformation 2']
add_description(F, 'refill')
rec(list(F.header.items()))
rec(add_description.__name__, add_description.__doc__)
attempt('noheader', lambda: add_description(object(), 'x'))

# Shuffle on many formulas, chained several times
random.seed(2024)
bases = [CNF(), CNF([[]]), CNF([[1]]), CNF([[1, -2], [2, -3], [3, -1], [1, 2, 3]]),
         cnfgen.PigeonholePrinciple(8, 6), cnfgen.OrderingPrinciple(7),
         cnfgen.RandomKCNF(3, 60, 200, seed=7), cnfgen.RandomKCNF(4, 30, 0, seed=1)]
E = CNF(); E.update_variable_number(6); bases.append(E)
H = CNF([[1, 2]]); del H.header['description']; bases.append(H)
for i, F in enumerate(bases):
    G = F
    for r in range(4):
        G = Shuffle(G)
        dump('sh%d.%d' % (i, r), G)
    dump('fixed%d' % i, Shuffle(F, 'fixed', 'fixed', 'fixed'))
    dump('mix%d' % i, Shuffle(F, 'shuffle', 'fixed', 'shuffle'))
    dump('orig%d' % i, F)

F = CNF([[1, -2], [2, -3], [3, -1], [1, 2, 3]])
dump('explicit', Shuffle(F, [1, -1, -1], [3, 1, 2], [2, 0, 3, 1]))
for args in (([1, 1], 'fixed', 'fixed'), ([1, 2, 1], 'fixed', 'fixed'), ('fixed', [1, 2], 'fixed'),
             ('fixed', [1, 2, 2], 'fixed'), ('fixed', [0, 1, 2], 'fixed'), ('fixed', 'fixed', [0, 1, 2]),
             ('fixed', 'fixed', [1, 2, 3, 4]), ('fixed', 'fixed', [0, 0, 1, 2]), ('x', 'fixed', 'fixed'),
             ('fixed', 'y', 'fixed'), ('fixed', 'fixed', 'zz')):
    attempt('err%r' % (args,), lambda: Shuffle(F, *args).to_dimacs())
    rec(list(F.header.items()))

# transformation chains mixing shuffle and substitutions
random.seed(99)
P = cnfgen.PigeonholePrinciple(5, 4)
chain = [lambda F: S.XorSubstitution(F, 2), Shuffle, S.FlipPolarity, Shuffle,
         lambda F: S.OrSubstitution(F, 2), Shuffle]
G = P
for j, t in enumerate(chain):
    G = t(G)
    dump('chain%d' % j, G)
T0 = CNF([[1, -2], [2, 3], [-1, -3], [3]])
for j, ts in enumerate([
        [Shuffle, lambda F: S.FormulaLifting(F, 2), Shuffle, S.IfThenElseSubstitution],
        [lambda F: S.LinearSubstitution(F, 3, '>=', 2), Shuffle, lambda F: S.AllEqualSubstitution(F, 2), Shuffle],
        [lambda F: S.MajoritySubstitution(F, 3), Shuffle, lambda F: S.ExactlyOneSubstitution(F, 2)],
        [lambda F: S.NotAllEqualSubstitution(F, 2), lambda F: S.AndSubstitution(F, 1), Shuffle, Shuffle]]):
    T = T0
    for t in ts:
        try:
            T = t(T)
            dump('tchain%d' % j, T)
        except Exception as e:
            rec('tchain', j, type(e).__name__, str(e))
B = cnfgen.BipartiteGraph(4, 6)
for u, v in [(1, 1), (1, 2), (2, 2), (2, 3), (3, 4), (3, 5), (4, 5), (4, 6), (1, 6)]:
    B.add_edge(u, v)
Q = CNF([[1, -2, 3], [-1, 4], [2, -4]])
dump('vcx', Shuffle(S.VariableCompression(Q, B, 'xor')))
dump('vcm', S.VariableCompression(Shuffle(Q), B, 'maj'))

from cnfgen.clitools.cnfgen import cli as cnfgen_cli
from cnfgen.clitools.cnfshuffle import cli as shuffle_cli
for args in (['cnfgen', '--seed', '3', 'php', '6', '4', '-T', 'shuffle', '-T', 'xor', '2', '-T', 'shuffle'],
             ['cnfgen', '--seed', '5', 'op', '5', '-T', 'or', '2', '-T', 'shuffle'],
             ['cnfgen', '--seed', '5', 'randkcnf', '3', '30', '80', '-T', 'shuffle']):
    attempt(' '.join(args), lambda: cnfgen_cli(args, mode='string'))
txt = cnfgen.PigeonholePrinciple(5, 4).to_dimacs()
for opts in ([], ['-p'], ['-v', '-c'], ['-q', '-p', '-v', '-c']):
    def run():
        import tempfile, os
        fd, name = tempfile.mkstemp(suffix='.cnf'); os.close(fd)
        open(name, 'w').write(txt)
        try:
            G = shuffle_cli(['cnfshuffle', '--seed', '11', '-i', name] + opts, mode='formula')
            hdr = [(k, v if k != 'description' else 'D') for k, v in G.header.items()]
            return hdr, list(G), G.number_of_variables()
        finally:
            os.unlink(name)
    attempt('cnfshuffle%r' % opts, run)

print(hashlib.sha256('\n'.join(out).encode()).hexdigest())
