#!/usr/bin/env python
"""Equivalence script for property C11 (variable groups).

Run as:  cd <checkout> && /venv/bin/python equiv.py
Prints one SHA256 digest of everything observable produced by the variable
groups of cnfgen.formula.variables: identifiers, indices, labels, inverse
maps, wildcard patterns, exceptions (type and message), and formulas built
through interleavings of group creation, clause insertion and explicit
raises of the variable count.
"""
import hashlib
import itertools
import os
import random
import sys

sys.path.insert(0, os.getcwd())

from cnfgen.formula.cnf import CNF
from cnfgen.formula.basecnf import BaseCNF
from cnfgen.formula.variables import (
    VariablesManager, BlockOfVariables, WordOfIndicesVariables,
    BipartiteEdgesVariables, DiGraphEdgesVariables, GraphEdgesVariables,
    BinaryMappingVariables, SingletonVariableGroup)
from cnfgen.graphs import (Graph, DirectedGraph, BipartiteGraph,
                           CompleteBipartiteGraph)

OUT = []
SCALARS = (int, str, float, bool, type(None))


def norm(r):
    """Materialise iterables into plain data"""
    if isinstance(r, SCALARS):
        return r
    if isinstance(r, tuple):
        return ('T', ) + tuple(norm(x) for x in r)
    if isinstance(r, dict):
        return ('D', ) + tuple((norm(k), norm(v)) for k, v in r.items())
    if isinstance(r, list):
        return ('L', ) + tuple(norm(x) for x in r)
    if isinstance(r, range):
        return ('R', r.start, r.stop, r.step)
    # generators, product objects, edge views ...
    return ('I', ) + tuple(norm(x) for x in r)


def rec(*a):
    OUT.append(repr(a))


def attempt(tag, fn):
    try:
        rec(tag, 'ok', norm(fn()))
    except Exception as e:  # noqa
        rec(tag, 'exc', type(e).__name__, str(e))


def dump_group(tag, vg, arity, maxval, extra_patterns=()):
    """Everything observable about a variable group"""
    attempt(tag + ':len', lambda: len(vg))
    attempt(tag + ':ids', lambda: list(vg))
    attempt(tag + ':first', lambda: vg[0])
    attempt(tag + ':last', lambda: vg[-1])
    attempt(tag + ':indices', lambda: vg.indices())
    attempt(tag + ':call', lambda: vg())
    attempt(tag + ':label', lambda: vg.label())
    attempt(tag + ':dict', lambda: vg.to_dict())
    attempt(tag + ':formula', lambda: vg.parent_formula().number_of_variables())
    ids = list(vg)
    lo = ids[0] if ids else vg.parent_formula().number_of_variables() + 1
    hi = ids[-1] if ids else lo - 1
    for lit in range(lo - 2, hi + 3):
        for s in (1, -1):
            attempt(tag + ':to_index:%d' % (s * lit), lambda: vg.to_index(s * lit))
            attempt(tag + ':in:%d' % (s * lit), lambda: (s * lit) in vg)
    # round trip over the legal indices
    try:
        legal = [tuple(t) for t in vg.indices()]
    except Exception:  # noqa
        legal = []
    for pos, t in enumerate(legal):
        attempt(tag + ':rt:%r' % (t, ), lambda: (vg(*t), vg.label(*t),
                                                 vg.to_index(vg(*t)),
                                                 vg.to_index(-vg(*t))))
        if ids:
            attempt(tag + ':order:%r' % (t, ), lambda: vg(*t) == ids[pos])
    # patterns, with wildcards and with out of domain values
    values = [None] + list(range(0, maxval + 2))
    if arity is not None:
        for a in sorted({max(arity - 1, 0), arity, arity + 1}):
            if a > 3:
                continue
            for pat in itertools.product(values, repeat=a):
                attempt(tag + ':pi:%r' % (pat, ), lambda: vg.indices(*pat))
                attempt(tag + ':pc:%r' % (pat, ), lambda: vg(*pat))
                attempt(tag + ':pl:%r' % (pat, ), lambda: vg.label(*pat))
    for pat in extra_patterns:
        attempt(tag + ':xi:%r' % (pat, ), lambda: vg.indices(*pat))
        attempt(tag + ':xc:%r' % (pat, ), lambda: vg(*pat))
        attempt(tag + ':xl:%r' % (pat, ), lambda: vg.label(*pat))


def dump_formula(tag, F):
    attempt(tag + ':nv', F.number_of_variables)
    attempt(tag + ':labels', lambda: F.all_variable_labels())
    attempt(tag + ':labels2', lambda: F.all_variable_labels('y_{{{}}}'))
    attempt(tag + ':labels3', lambda: F.all_variable_labels(default_label_format='w'))
    attempt(tag + ':labelsbad', lambda: F.all_variable_labels('{}{}'))
    attempt(tag + ':clauses', lambda: list(F.clauses()))
    if hasattr(F, 'to_dimacs'):
        attempt(tag + ':dimacs', F.to_dimacs)
        attempt(tag + ':latex', F.to_latex)


def fresh(start):
    F = CNF()
    if start:
        F.update_variable_number(start)
    return F


BAD = [('a', 1), (1, 'a'), (1.0, 1.0), (1, ), (1, 1, 1), (-1, 1), (1, -1),
       ((1, 1), ), ([1, 1], )]

# ---------------------------------------------------------------- singletons
for start in (0, 1, 7):
    F = fresh(start)
    x = F.new_variable(label='X')
    y = F.new_variable()
    z = F.new_variable(label='{}')
    rec('single', start, x, y, z)
    for i, g in enumerate(F._groups):
        dump_group('single%d.%d' % (start, i), g, 0, 1, [(None, ), (1, )])
        attempt('single-name', lambda: g.name)
    dump_formula('single%d' % start, F)

# -------------------------------------------------------------------- blocks
block_shapes = [(1, ), (0, ), (4, ), (2, 3), (3, 2), (1, 1), (0, 3), (3, 0),
                (2, 0, 3), (2, 3, 2), (1, 4, 1), (3, 1, 2), (2, 2, 2, 2),
                (3, 5, 4, 3), (True, 2)]
for start in (0, 5):
    for shape in block_shapes:
        for label in (None, 'b[' + ';'.join(['{}'] * len(shape)) + ']'):
            F = fresh(start)
            tag = 'block%d%r%s' % (start, shape, 'd' if label is None else 'l')
            try:
                b = F.new_block(*shape, label=label)
            except Exception as e:  # noqa
                rec(tag, 'exc', type(e).__name__, str(e))
                continue
            rec(tag, b.ranges, b.N, b.weights, b.offset)
            small = len(shape) <= 3
            dump_group(tag, b, len(shape) if small else None,
                       max(int(s) for s in shape),
                       BAD + [(None, ) * len(shape), tuple(int(s) for s in shape),
                              tuple(int(s) + 1 for s in shape),
                              (1, ) * len(shape), (0, ) * len(shape)])
            F.add_clause([1, -(F.number_of_variables() + 2)])
            dump_formula(tag, F)
for shape, label in [((), None), ((), 'q'), ((-1, ), None), ((2, -3), None),
                     ((2.0, 3), None), (('a', ), None), ((2, None), None),
                     ((2, 3), '{}{}{}'), ((2, 3), '{}'), ((2, 3), 'const'),
                     ((2, 3), '{0}{2}'), (([2, 3], ), None)]:
    attempt('blockerr%r%r' % (shape, label),
            lambda: list(CNF().new_block(*shape, label=label).label()))
attempt('blockdirect', lambda: list(BlockOfVariables(BaseCNF(), [3, 5, 4, 3]).label()))
attempt('blockdirect2', lambda: BlockOfVariables(BaseCNF(), [3, 5, 4, 3]).to_index(-179))
attempt('blockdirect3', lambda: [BlockOfVariables(BaseCNF([[1, -9]]), [4, 1, 3]).to_index(s * i)
                                 for i in range(10, 22) for s in (1, -1)])

# --------------------------------------------------------------------- words
kinds = ['combinations', 'combinations_with_replacement', 'permutations',
         'words']
for start in (0, 4):
    for kind in kinds:
        for n in range(0, 5):
            for k in range(0, 4):
                F = fresh(start)
                tag = 'word%d%s%d.%d' % (start, kind, n, k)
                try:
                    w = WordOfIndicesVariables(F, n, k, labelfmt='w<{}>',
                                               wordtype=kind)
                    F._add_variable_group(w)
                except Exception as e:  # noqa
                    rec(tag, 'exc', type(e).__name__, str(e))
                    continue
                rec(tag, w.n, w.k, w.wordtype, w.offset, w.vid2seq,
                    sorted(w.seq2vid.items()), list(w.seq2vid.items()))
                dump_group(tag, w, k if k <= 3 else None, n, BAD)
                F.update_variable_number(F.number_of_variables() + 1)
                dump_formula(tag, F)
for F, name in [(fresh(0), 'a'), (fresh(3), 'b')]:
    attempt('wm1' + name, lambda: list(F.new_combinations(4, 2)))
    attempt('wm2' + name, lambda: list(F.new_combinations_with_replacement(3, 2, label='c{}').label()))
    attempt('wm3' + name, lambda: list(F.new_permutations(3).label()))
    attempt('wm4' + name, lambda: list(F.new_permutations(4, 2, label='s({})').indices()))
    attempt('wm5' + name, lambda: list(F.new_words(2, 3)()))
    attempt('wm6' + name, lambda: list(F.new_words(0, 0)()))
    dump_formula('wm' + name, F)
for args in [(-1, 2), (2, -1), (2.0, 1), (2, '1'), (None, 1), (3, 5), (True, True)]:
    for kind in kinds + ['bogus', None]:
        attempt('worderr%r%s' % (args, kind),
                lambda: WordOfIndicesVariables(CNF(), args[0], args[1], wordtype=kind).vid2seq)
for lab in [None, '{}{}', '{1}', 'plain', '{}']:
    attempt('wordlab%r' % lab,
            lambda: list(WordOfIndicesVariables(CNF(), 3, 2, labelfmt=lab).label()))


# -------------------------------------------------------------------- graphs
def random_bipartite(rng, L, R, p):
    B = BipartiteGraph(L, R)
    pairs = [(u, v) for u in range(1, L + 1) for v in range(1, R + 1)]
    rng.shuffle(pairs)
    for u, v in pairs:
        if rng.random() < p:
            B.add_edge(u, v)
    return B


def random_graph(rng, n, p):
    G = Graph(n)
    pairs = [(u, v) for u in range(1, n + 1) for v in range(u + 1, n + 1)]
    rng.shuffle(pairs)
    for u, v in pairs:
        if rng.random() < p:
            if rng.random() < 0.5:
                G.add_edge(u, v)
            else:
                G.add_edge(v, u)
    return G


def random_digraph(rng, n, p):
    D = DirectedGraph(n)
    pairs = [(u, v) for u in range(1, n + 1) for v in range(1, n + 1)]
    rng.shuffle(pairs)
    for u, v in pairs:
        if rng.random() < p:
            D.add_edge(u, v)
    return D


rng = random.Random(20231111)
bips = [BipartiteGraph(0, 0), BipartiteGraph(0, 3), BipartiteGraph(3, 0),
        BipartiteGraph(2, 3), CompleteBipartiteGraph(2, 3),
        CompleteBipartiteGraph(0, 2), CompleteBipartiteGraph(3, 1)]
for L, R, p in [(1, 1, 1.0), (2, 3, 0.5), (3, 2, 0.5), (4, 4, 0.3),
                (4, 3, 0.8), (5, 2, 0.4), (3, 5, 0.6)]:
    bips.append(random_bipartite(rng, L, R, p))
for gi, B in enumerate(bips):
    for start in (0, 6):
        F = fresh(start)
        tag = 'bip%d.%d' % (gi, start)
        e = F.new_bipartite_edges(B, label='e<{},{}>')
        rec(tag, e.offset, list(B.edges()))
        dump_group(tag, e, 2, max(B.left_order(), B.right_order()), BAD)
        F.add_clause([-1, F.number_of_variables() + 1])
        f = F.new_sparse_mapping(B)
        dump_group(tag + 'sm', f, 2, max(B.left_order(), B.right_order()), BAD)
        attempt(tag + 'dom', lambda: (f.domain(), f.range()))
        for x in range(0, 7):
            attempt(tag + 'dom%d' % x, lambda: f.domain(x))
            attempt(tag + 'rng%d' % x, lambda: f.range(x))
        for meth in ('force_complete_mapping', 'force_functional_mapping',
                     'force_surjective_mapping', 'force_injective_mapping',
                     'force_nondecreasing_mapping'):
            attempt(tag + meth, lambda: getattr(F, meth)(f))
        dump_formula(tag, F)
for lab in ['{}', '{}{}{}', 'k', '{1}']:
    attempt('biplab%r' % lab,
            lambda: list(CNF().new_bipartite_edges(bips[4], label=lab).label()))
for notg in [None, Graph(3), DirectedGraph(2), 5]:
    attempt('bipnot%r' % type(notg).__name__,
            lambda: list(CNF().new_bipartite_edges(notg)))
    attempt('gnot%r' % type(notg).__name__,
            lambda: list(CNF().new_graph_edges(notg)))
    attempt('dnot%r' % type(notg).__name__,
            lambda: list(CNF().new_digraph_edges(notg)))
    attempt('smnot%r' % type(notg).__name__,
            lambda: list(CNF().new_sparse_mapping(notg)))

graphs = [Graph(0), Graph(1), Graph(4), Graph.complete_graph(4),
          Graph.star_graph(3)]
for n, p in [(2, 1.0), (4, 0.5), (5, 0.4), (5, 0.8), (6, 0.3)]:
    graphs.append(random_graph(rng, n, p))
for gi, G in enumerate(graphs):
    for start in (0, 3):
        F = fresh(start)
        tag = 'gr%d.%d' % (gi, start)
        e = F.new_graph_edges(G, label='E{{{},{}}}')
        rec(tag, list(G.edges()))
        dump_group(tag, e, 2, G.number_of_vertices(), BAD)
        F.update_variable_number(F.number_of_variables() + 2)
        F.new_variable('tail')
        dump_formula(tag, F)

digraphs = [DirectedGraph(0), DirectedGraph(1), DirectedGraph(3)]
for n, p in [(2, 1.0), (3, 0.5), (4, 0.4), (5, 0.3), (4, 0.9)]:
    digraphs.append(random_digraph(rng, n, p))
for gi, D in enumerate(digraphs):
    for start in (0, 2):
        for sortby in ('pred', 'succ', 'other'):
            F = fresh(start)
            tag = 'dg%d.%d%s' % (gi, start, sortby)
            try:
                e = F.new_digraph_edges(D, label='a[{}>{}]', sortby=sortby)
            except Exception as ex:  # noqa
                rec(tag, 'exc', type(ex).__name__, str(ex))
                continue
            rec(tag, list(D.edges()))
            dump_group(tag, e, 2, D.number_of_vertices(), BAD)
            F.add_clause([F.number_of_variables() + 1])
            dump_formula(tag, F)

# ------------------------------------------------------------------ mappings
for n in range(0, 4):
    for m in range(0, 6):
        for start in (0, 5):
            F = fresh(start)
            tag = 'um%d.%d.%d' % (n, m, start)
            f = F.new_mapping(n, m)
            dump_group(tag, f, 2, max(n, m), BAD)
            attempt(tag + 'dr', lambda: (f.domain(), f.range()))
            attempt(tag + 'fc', lambda: F.force_complete_mapping(f))
            attempt(tag + 'ff', lambda: F.force_functional_mapping(f))
            attempt(tag + 'fi', lambda: F.force_injective_mapping(f))
            dump_formula(tag, F)

            F = fresh(start)
            tag = 'bm%d.%d.%d' % (n, m, start)
            g = F.new_binary_mapping(n, m, label='v<{}|{}>')
            rec(tag, g.bitlength, g.id_offset, g.flips)
            dump_group(tag, g, 2, max(n, m), BAD)
            attempt(tag + 'dr', lambda: (g.domain(), g.range(), g.bits()))
            for i in range(0, n + 2):
                for j in range(-1, m + 3):
                    attempt(tag + 'forbid%d.%d' % (i, j), lambda: g.forbid(i, j))
            attempt(tag + 'fc', lambda: F.force_complete_mapping(g))
            attempt(tag + 'fi', lambda: F.force_injective_mapping(g))
            attempt(tag + 'fn', lambda: F.force_nondecreasing_mapping(g))
            dump_formula(tag, F)
for args in [(-1, 2), (2, -1), (1.5, 2), ('a', 2)]:
    attempt('umerr%r' % (args, ), lambda: list(CNF().new_mapping(*args)))
    attempt('bmerr%r' % (args, ), lambda: list(CNF().new_binary_mapping(*args)))

# ------------------------------------------------------ overlapping groups
F = CNF()
vg = BlockOfVariables(F, [2, 2])
F.update_variable_number(2)
attempt('overlap', lambda: F._add_variable_group(vg))
dump_formula('overlap', F)
F = CNF()
vg0 = BlockOfVariables(F, [0, 2])
F.update_variable_number(2)
attempt('overlap-empty', lambda: F._add_variable_group(vg0))
dump_formula('overlap-empty', F)
# a manager which is not the formula itself
F = BaseCNF([[1, -2]])
V = VariablesManager(F)
attempt('mgr1', lambda: V.new_variable('X'))
attempt('mgr2', lambda: list(V.new_block(2, 2, label='z_{{{},{}}}')))
F.add_clause([7, -9])
attempt('mgr3', lambda: list(V.new_combinations(3, 2)))
attempt('mgr4', lambda: list(V.all_variable_labels()))
attempt('mgr5', lambda: list(V.all_variable_labels('v{}')))
attempt('mgr6', lambda: list(F.all_variable_labels()))
attempt('mgr7', lambda: list(VariablesManager(BaseCNF()).all_variable_labels()))
attempt('mgr8', lambda: list(VariablesManager(BaseCNF([[3]])).all_variable_labels()))
# a group created but registered late: labels generator trips its final check
F = CNF()
late = BlockOfVariables(F, [2])
F.new_variable('A')
F._groups.append(late)
attempt('late', lambda: list(F.all_variable_labels()))
gen = F.all_variable_labels()
attempt('late-partial', lambda: [next(gen), next(gen)])

# ------------------------------------------------- random interleavings
OPS = ['var', 'block', 'block0', 'comb', 'perm', 'words', 'cwr', 'bip',
       'graph', 'digraph', 'map', 'smap', 'bmap', 'clause', 'raise',
       'raise-small', 'emptyclause']
for seed in range(60):
    r = random.Random(seed)
    F = CNF(description='interleave %d' % seed)
    groups = []
    steps = r.randint(0, 9)
    for step in range(steps):
        op = r.choice(OPS)
        tag = 'seq%d.%d.%s' % (seed, step, op)
        try:
            g = None
            if op == 'var':
                g = F.new_variable(r.choice([None, 'X%d' % step, '']))
                rec(tag, g)
                g = None
            elif op == 'block':
                shape = [r.randint(1, 3) for _ in range(r.randint(1, 3))]
                g = F.new_block(*shape, label=r.choice(
                    [None, 'b%d(' % step + ','.join(['{}'] * len(shape)) + ')']))
            elif op == 'block0':
                shape = [r.randint(0, 2) for _ in range(r.randint(1, 3))]
                g = F.new_block(*shape)
            elif op == 'comb':
                g = F.new_combinations(r.randint(0, 4), r.randint(0, 3))
            elif op == 'perm':
                g = F.new_permutations(r.randint(0, 3), r.choice([None, 0, 1, 2]))
            elif op == 'words':
                g = F.new_words(r.randint(0, 3), r.randint(0, 2), label='w%d[{}]' % step)
            elif op == 'cwr':
                g = F.new_combinations_with_replacement(r.randint(0, 3), r.randint(0, 3))
            elif op == 'bip':
                g = F.new_bipartite_edges(random_bipartite(r, r.randint(0, 3), r.randint(0, 3), 0.6))
            elif op == 'graph':
                g = F.new_graph_edges(random_graph(r, r.randint(0, 4), 0.6))
            elif op == 'digraph':
                g = F.new_digraph_edges(random_digraph(r, r.randint(0, 3), 0.5),
                                        sortby=r.choice(['pred', 'succ']))
            elif op == 'map':
                g = F.new_mapping(r.randint(0, 3), r.randint(0, 3))
            elif op == 'smap':
                g = F.new_sparse_mapping(random_bipartite(r, r.randint(0, 3), r.randint(0, 3), 0.5),
                                         label='s%d({})={{{}}}' % step)
            elif op == 'bmap':
                g = F.new_binary_mapping(r.randint(0, 3), r.randint(0, 5))
            elif op == 'clause':
                top = F.number_of_variables() + r.randint(0, 3)
                lits = [r.choice([1, -1]) * r.randint(1, max(top, 1))
                        for _ in range(r.randint(1, 4))]
                F.add_clause(lits, check=r.choice([True, False]))
            elif op == 'emptyclause':
                F.add_clause([])
            elif op == 'raise':
                F.update_variable_number(F.number_of_variables() + r.randint(0, 4))
            elif op == 'raise-small':
                F.update_variable_number(r.randint(0, 3))
            if g is not None:
                groups.append(g)
                rec(tag, len(g), list(g), list(g.indices()), list(g.label()))
        except Exception as ex:  # noqa
            rec(tag, 'exc', type(ex).__name__, str(ex))
        rec(tag, 'nv', F.number_of_variables())
        attempt(tag + 'labels', lambda: list(F.all_variable_labels()))
    # every group still converts back and forth
    for gi, g in enumerate(groups):
        tag = 'seq%d.g%d' % (seed, gi)
        attempt(tag, lambda: [(t, g(*t), g.label(*t), g.to_index(g(*t)),
                               g.to_index(-g(*t))) for t in map(tuple, g.indices())])
        attempt(tag + 'x', lambda: [v in g for v in range(-F.number_of_variables() - 1,
                                                           F.number_of_variables() + 2)])
    # names aligned with the identifiers
    names = list(F.all_variable_labels())
    rec('seq%d.names' % seed, len(names) == F.number_of_variables())
    for g in groups:
        for t in map(tuple, g.indices()):
            rec(names[g(*t) - 1] == g.label(*t))
    dump_formula('seq%d' % seed, F)

blob = '\n'.join(OUT).encode('utf-8')
print(hashlib.sha256(blob).hexdigest())
