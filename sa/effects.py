"""E5: exception effects.

For every function: the raise sites it contains (explicit ``raise``, ``assert``, and implicit raisers with a crisp syntactic trigger
from the facts table), which of them are caught by an enclosing ``try`` of the same function, and -- propagated over the resolved
call graph to a fixpoint -- the set of exception classes that can leave the function, each with one witness chain
(entry -> ... -> raise site).  A site is *definite* when its trigger is reachable for inputs the code itself admits (division by a
value a validator allows to be 0, ``next()`` on a generator that can end without yielding, an index into a possibly empty string,
an undefined global name ...); type-check raises (``if not isinstance(..): raise TypeError``) and internal assertions are
*indefinite*: they are listed in the evidence and never produce a verdict.
"""
import ast
import builtins

from .loader import walk_shallow, FuncInfo
from .cfg import CFG
from .astutil import src, call_name, method_name, const, stmts_in, target_names
from .guards import facts_before, lower_bound, upper_bound, linear

PARENT = {
    "Exception": "BaseException", "SystemExit": "BaseException", "KeyboardInterrupt": "BaseException", "GeneratorExit": "BaseException",
    "ArithmeticError": "Exception", "ZeroDivisionError": "ArithmeticError", "OverflowError": "ArithmeticError",
    "LookupError": "Exception", "IndexError": "LookupError", "KeyError": "LookupError",
    "OSError": "Exception", "FileNotFoundError": "OSError", "PermissionError": "OSError", "IsADirectoryError": "OSError",
    "BrokenPipeError": "OSError", "NotADirectoryError": "OSError", "UnsupportedOperation": "OSError",
    "ValueError": "Exception", "UnicodeError": "ValueError", "UnicodeEncodeError": "UnicodeError", "UnicodeDecodeError": "UnicodeError",
    "TypeError": "Exception", "AttributeError": "Exception", "NameError": "Exception", "UnboundLocalError": "NameError",
    "RuntimeError": "Exception", "NotImplementedError": "RuntimeError", "RecursionError": "RuntimeError",
    "StopIteration": "Exception", "AssertionError": "Exception", "ImportError": "Exception", "ModuleNotFoundError": "ImportError",
    "ArgumentTypeError": "Exception", "ArgumentError": "Exception", "NetworkXError": "Exception", "NetworkXException": "Exception",
    "CalledProcessError": "Exception", "ParseException": "Exception",
    "CLIError": "Exception", "InternalBug": "Exception", "EOFError": "Exception", "MemoryError": "Exception",
}
ALIAS = {"IOError": "OSError", "EnvironmentError": "OSError"}


def canon(name):
    name = name.split(".")[-1]
    return ALIAS.get(name, name)


def ancestors(name):
    out = [name]
    while name in PARENT:
        name = PARENT[name]
        out.append(name)
    if out[-1] != "BaseException":
        out.append("Exception") if "Exception" not in out else None
        out.append("BaseException")
    return out


def caught_by(handler_names, exc):
    """handler_names: list of canonical class names; [] means a bare ``except:``"""
    if not handler_names:
        return True
    anc = set(ancestors(exc))
    return any(h in anc for h in handler_names)


def handler_types(h):
    if h.type is None:
        return []
    ts = h.type.elts if isinstance(h.type, ast.Tuple) else [h.type]
    return [canon(src(t)) for t in ts]


class Site:
    __slots__ = ("cls", "kind", "fi", "node", "definite", "what", "via")

    def __init__(self, cls, kind, fi, node, definite, what, via=()):
        self.cls = cls
        self.kind = kind
        self.fi = fi
        self.node = node
        self.definite = definite
        self.what = what
        self.via = tuple(via)

    def where(self):
        return "%s:%s %s" % (self.fi.module.relpath, getattr(self.node, "lineno", 0), self.fi.qualname)

    def chain(self):
        return list(self.via) + ["%s: %s" % (self.where(), self.what)]


def try_context(fnode):
    """id(node) -> list of (Try stmt, region) from outermost to innermost, for nodes of this function (not nested defs)"""
    ctx = {}

    def visit(node, stack):
        ctx[id(node)] = list(stack)
        if isinstance(node, (ast.FunctionDef, ast.AsyncFunctionDef, ast.Lambda, ast.ClassDef)) and node is not fnode:
            return
        if isinstance(node, ast.Try):
            for s in node.body:
                visit(s, stack + [(node, "body")])
            for h in node.handlers:
                ctx[id(h)] = stack + [(node, "handler")]
                if h.type is not None:
                    visit(h.type, stack + [(node, "handler")])
                for s in h.body:
                    visit(s, stack + [(node, "handler", h)])
            for s in node.orelse:
                visit(s, stack + [(node, "orelse")])
            for s in node.finalbody:
                visit(s, stack + [(node, "finally")])
            return
        for c in ast.iter_child_nodes(node):
            visit(c, stack)
    for s in fnode.body:
        visit(s, [])
    return ctx


def escapes_try(ctx_entry, exc):
    """is an exception of class ``exc`` raised at a node with this try-context caught inside the function?
    -> True if it leaves the function, False if some enclosing try body has a matching handler"""
    for item in reversed(ctx_entry):
        t, region = item[0], item[1]
        if region == "body":
            for h in t.handlers:
                if caught_by(handler_types(h), exc):
                    return False
    return True


BUILTIN_NAMES = set(dir(builtins))


class Effects:
    def __init__(self, prog, resolver):
        self.prog = prog
        self.res = resolver
        self._local = {}
        self._esc = None
        self._cfg = {}
        self._gen_min = {}

    # ------------------------------------------------------------------ helpers
    def cfg(self, fi):
        if fi.key not in self._cfg:
            self._cfg[fi.key] = CFG(fi.node)
        return self._cfg[fi.key]

    def stmt_of(self, fi, node):
        """innermost statement containing ``node``"""
        best = None
        for s in stmts_in(fi.node):
            hdr = [s]
            if isinstance(s, (ast.If, ast.While)):
                hdr = [s.test]
            elif isinstance(s, (ast.For, ast.AsyncFor)):
                hdr = [s.iter, s.target]
            elif isinstance(s, (ast.With, ast.AsyncWith)):
                hdr = [i.context_expr for i in s.items]
            elif isinstance(s, ast.Try):
                hdr = []
            elif isinstance(s, (ast.FunctionDef, ast.ClassDef)):
                hdr = []
            for h in hdr:
                for x in ast.walk(h):
                    if x is node:
                        best = s
        return best

    def generator_min_yields(self, gfi):
        """minimum number of yields on a normal-termination path of a generator function; a sentinel test
        ``if v is None: raise`` that dominates the normal exit forces the path through an assignment of v"""
        if gfi.key in self._gen_min:
            return self._gen_min[gfi.key]
        cfg = self.cfg(gfi)
        ynodes = {}
        for s in stmts_in(gfi.node):
            n = cfg.node_of(s)
            if n is None:
                continue
            hdrs = [s] if not isinstance(s, (ast.If, ast.While, ast.For, ast.Try, ast.With, ast.FunctionDef)) else []
            cnt = sum(1 for h in hdrs for x in ast.walk(h) if isinstance(x, ast.Yield))
            for h in hdrs:
                for x in ast.walk(h):
                    # `yield from (n, m)`: a literal sequence yields each of its elements
                    if isinstance(x, ast.YieldFrom) and isinstance(x.value, (ast.Tuple, ast.List)) and \
                            not any(isinstance(e, ast.Starred) for e in x.value.elts):
                        cnt += len(x.value.elts)
            if cnt:
                ynodes[n.id] = cnt

        def dist(src_node):
            import heapq
            d = {src_node.id: 0}
            pq = [(0, src_node.id)]
            while pq:
                c, i = heapq.heappop(pq)
                if c > d.get(i, 1 << 30):
                    continue
                for m, lab in cfg.nodes[i].succ:
                    w = ynodes.get(m.id, 0)
                    if c + w < d.get(m.id, 1 << 30):
                        d[m.id] = c + w
                        heapq.heappush(pq, (c + w, m.id))
            return d
        d0 = dist(cfg.entry)
        best = d0.get(cfg.exit.id)
        if best is None:
            self._gen_min[gfi.key] = 1 << 20
            return self._gen_min[gfi.key]
        # sentinel tests
        for s in stmts_in(gfi.node):
            if isinstance(s, ast.If) and s.body and isinstance(s.body[0], ast.Raise) and isinstance(s.test, ast.Compare) and \
                    len(s.test.ops) == 1 and isinstance(s.test.ops[0], ast.Is) and const(s.test.comparators[0], 0) is None and \
                    isinstance(s.test.comparators[0], ast.Constant) and isinstance(s.test.left, ast.Name):
                tn = cfg.node_of(s)
                if tn is None or not cfg.edge_dominates(tn, False, cfg.exit):
                    continue
                v = s.test.left.id
                assigns = [x for x in stmts_in(gfi.node) if isinstance(x, ast.Assign) and v in [t for tg in x.targets for t in target_names(tg)]
                           and not (isinstance(x.value, ast.Constant) and x.value.value is None)]
                cand = None
                for a in assigns:
                    an = cfg.node_of(a)
                    if an is None or an.id not in d0:
                        continue
                    da = dist(an)
                    if cfg.exit.id in da:
                        tot = d0[an.id] + da[cfg.exit.id]
                        cand = tot if cand is None else min(cand, tot)
                if cand is not None:
                    best = max(best, cand)
        self._gen_min[gfi.key] = best
        return best

    # ------------------------------------------------------------------ local raise sites
    def local_sites(self, fi):
        if fi.key in self._local:
            return self._local[fi.key]
        sites = []
        ctx = try_context(fi.node)
        fnode = fi.node
        handler_of = {}
        for n in walk_shallow(fnode):
            if isinstance(n, ast.Try):
                for h in n.handlers:
                    for x in h.body:
                        for y in ast.walk(x):
                            handler_of.setdefault(id(y), h)
        for n in walk_shallow(fnode):
            if isinstance(n, ast.Raise):
                classes, definite, what = self._raise_classes(fi, n, handler_of)
                for c in classes:
                    sites.append(Site(c, "explicit", fi, n, definite, what))
            elif isinstance(n, ast.Assert):
                sites.append(Site("AssertionError", "assert", fi, n, False, "assert " + src(n.test)[:50]))
        sites += self._implicit(fi)
        self._local[fi.key] = (sites, ctx)
        return self._local[fi.key]

    def _raise_classes(self, fi, n, handler_of):
        if n.exc is None:
            h = handler_of.get(id(n))
            ts = handler_types(h) if h is not None else []
            return (ts or ["Exception"]), True, "re-raise"
        e = n.exc
        name = call_name(e) if isinstance(e, ast.Call) else (src(e) if isinstance(e, (ast.Name, ast.Attribute)) else None)
        if name is None:
            return ["Exception"], False, "raise " + src(e)[:40]
        h = handler_of.get(id(n))
        if isinstance(e, ast.Name) and h is not None and h.name == e.id:
            return (handler_types(h) or ["Exception"]), True, "re-raise of the caught exception"
        cls = canon(name)
        # type-check raises are not input-triggerable through the documented interfaces
        definite = True
        if h is not None and cls in handler_types(h):
            # re-wrapping of the same class: as definite as the sites it wraps
            trystmt = None
            for t in walk_shallow(fi.node):
                if isinstance(t, ast.Try) and h in t.handlers:
                    trystmt = t
            if trystmt is not None:
                inner = [r for b in trystmt.body for r in ast.walk(b) if isinstance(r, ast.Raise) and r.exc is not None]
                if inner and all(self._guard_isinstance(fi, r) for r in inner if canon(call_name(r.exc) or src(r.exc)) == cls):
                    definite = False
        guard = self._guard_of(fi, n)
        if guard is not None and ("isinstance(" in src(guard) and cls == "TypeError"):
            definite = False
        if cls in ("NotImplementedError", "RuntimeError"):
            definite = False      # internal-consistency raises ("cannot happen" branches); listed, never a verdict
        return [cls], definite, "raise %s" % cls

    def _guard_isinstance(self, fi, node):
        g = self._guard_of(fi, node)
        return g is not None and "isinstance(" in src(g)

    def _guard_of(self, fi, node):
        for s in stmts_in(fi.node):
            if isinstance(s, ast.If) and any(node is x for x in s.body):
                return s.test
        return None

    def _implicit(self, fi):
        out = []
        fnode = fi.node
        stmts = stmts_in(fnode)
        cfg = None
        # ---- undefined global names
        local = set(fi.params)
        cur = fi.parent
        outer = set()
        while cur is not None:
            outer |= set(cur.params) | self._bound_names(cur.node)
            cur = cur.parent
        local |= self._bound_names(fnode)
        for n in walk_shallow(fnode):
            if isinstance(n, ast.Name) and isinstance(n.ctx, ast.Load):
                nm = n.id
                if nm in local or nm in outer or nm in BUILTIN_NAMES or nm in ("__file__", "__name__"):
                    continue
                if nm in fi.module.imports or nm in fi.module.globals or nm in fi.module.functions or nm in fi.module.classes:
                    continue
                if any(isinstance(x, ast.Global) and nm in x.names for x in ast.walk(fnode)):
                    continue
                out.append(Site("NameError", "implicit", fi, n, True, "name `%s` is not defined anywhere in scope" % nm))
        # comprehension variables count as bound
        # ---- next()
        gens = {}
        for s in stmts:
            if isinstance(s, ast.Assign) and len(s.targets) == 1 and isinstance(s.targets[0], ast.Name) and isinstance(s.value, ast.Call):
                ts, ext = self.res.targets(fi, s.value)
                if len(ts) == 1 and ts[0].is_generator():
                    gens[s.targets[0].id] = ts[0]
        counts = {}
        in_genexp = set()
        for ge in walk_shallow(fnode):
            if isinstance(ge, ast.GeneratorExp):
                for x in ast.walk(ge):
                    in_genexp.add(id(x))
        for n in sorted([x for x in walk_shallow(fnode) if isinstance(x, ast.Call)], key=lambda c: (c.lineno, c.col_offset)):
            if call_name(n) == "next" and len(n.args) == 1:
                a = n.args[0]
                g = gens.get(a.id) if isinstance(a, ast.Name) else None
                if id(n) in in_genexp:
                    # PEP 479: StopIteration raised inside a generator (expression) surfaces as RuntimeError
                    if g is None or self.generator_min_yields(g) < (1 << 19):
                        out.append(Site("RuntimeError", "implicit", fi, n, True,
                                        "next(%s) inside a generator expression: exhaustion surfaces as RuntimeError (PEP 479), which no "
                                        "`except StopIteration` catches" % src(a)))
                    continue
                if g is not None:
                    counts[a.id] = counts.get(a.id, 0) + 1
                    if counts[a.id] > self.generator_min_yields(g):
                        out.append(Site("StopIteration", "implicit", fi, n, True,
                                        "next(%s): generator %s can finish after %d yield(s) without raising" % (a.id, g.qualname, self.generator_min_yields(g))))
                else:
                    out.append(Site("StopIteration", "implicit", fi, n, False, "next(%s) on an iterator of unknown length" % src(a)))
        # ---- constant index into a possibly empty sequence
        out += self._const_index(fi, stmts)
        # ---- division
        for n in walk_shallow(fnode):
            if isinstance(n, ast.BinOp) and isinstance(n.op, (ast.Div, ast.FloorDiv, ast.Mod)):
                if isinstance(n.op, ast.Mod) and (isinstance(n.left, ast.Constant) and isinstance(n.left.value, str) or
                                                  isinstance(n.left, ast.JoinedStr)):
                    continue
                d = n.right
                c = const(d, None)
                if isinstance(c, (int, float)) and not isinstance(c, bool):
                    if c == 0:
                        out.append(Site("ZeroDivisionError", "implicit", fi, n, True, "division by the constant 0"))
                    continue
                lin = linear(d)
                if lin is None or lin[0] == "":
                    continue
                st = self.stmt_of(fi, n)
                if st is None:
                    continue
                cfg = cfg or self.cfg(fi)
                facts = facts_before(fnode, st, cfg, stmts)
                lo = lower_bound(facts, lin[0])
                hi = upper_bound(facts, lin[0])
                if lin[0] in fi.params:
                    # what every (non-recursive) call site establishes about the argument also holds here
                    lc = self.param_lower(fi, lin[0])
                    if lc is not None:
                        lo = lc if lo is None else max(lo, lc)
                from .guards import has as _has
                if _has(facts, lin[0], "!=", "", -lin[1]):
                    continue        # a dominating guard excludes exactly the value that makes the divisor 0
                if lo is not None and lo + lin[1] >= 1:
                    continue
                if hi is not None and hi + lin[1] <= -1:
                    continue
                if lo is not None and lo + lin[1] <= 0 and (hi is None or hi + lin[1] >= 0):
                    out.append(Site("ZeroDivisionError", "implicit", fi, n, True,
                                    "divisor `%s` can be 0: the guards of this function only establish %s >= %d" % (src(d), lin[0], lo)))
        # ---- conversions, unpacking, files, codecs
        for n in walk_shallow(fnode):
            if isinstance(n, ast.Call):
                cn = call_name(n) or ""
                if cn in ("int", "float") and n.args and not isinstance(n.args[0], ast.Constant):
                    out.append(Site("ValueError", "implicit", fi, n, True, "%s() of text" % cn))
                elif cn == "open":
                    out.append(Site("OSError", "implicit", fi, n, True, "open() of a path"))
                elif cn in ("subprocess.Popen", "subprocess.run", "subprocess.call", "subprocess.check_call", "subprocess.check_output",
                            "Popen"):
                    out.append(Site("OSError", "implicit", fi, n, True, "%s(): the program / file may be missing, not executable, a directory" % cn))
                elif isinstance(n.func, ast.Attribute) and n.func.attr == "encode" and n.args and const(n.args[0]) == "ascii":
                    if not any(k.arg == "errors" and const(k.value) in ("replace", "ignore", "backslashreplace", "xmlcharrefreplace") for k in n.keywords):
                        out.append(Site("UnicodeEncodeError", "implicit", fi, n, False, ".encode('ascii') of text of unknown provenance"))
                elif isinstance(n.func, ast.Attribute) and n.func.attr == "decode" and n.args and const(n.args[0]) == "ascii":
                    out.append(Site("UnicodeDecodeError", "implicit", fi, n, False, ".decode('ascii') of external output"))
        for s in stmts:
            if isinstance(s, ast.Assign) and len(s.targets) == 1 and isinstance(s.targets[0], (ast.Tuple, ast.List)) and \
                    isinstance(s.value, ast.Call) and method_name(s.value) == "split":
                out.append(Site("ValueError", "implicit", fi, s, True, "unpacking %d names from .split()" % len(s.targets[0].elts)))
        return out

    def param_lower(self, fi, pname):
        """lower bound every resolved call site establishes for parameter ``pname`` (None if some site gives none).
        Argument forms understood: a name / linear form with a guard-derived bound at the call site, an element ``L[i]`` of a
        local list built from such names (``[a, b] + list(seq)`` with positive_int_seq(seq) etc.), an integer literal."""
        if not hasattr(self, "_plow"):
            self._plow = {}
        key = (fi.key, pname)
        if key in self._plow:
            return self._plow[key]
        self._plow[key] = None
        idx = fi.params.index(pname)
        bounds = []
        for caller in self.prog.all_functions():
            for n in walk_shallow(caller.node):
                if not isinstance(n, ast.Call):
                    continue
                ts, _ = self.res.targets(caller, n)
                if fi not in ts or caller is fi:
                    continue
                arg = None
                for k in n.keywords:
                    if k.arg == pname:
                        arg = k.value
                skip = 1 if (fi.cls is not None and fi.params and fi.params[0] in ("self", "cls")) else 0
                if arg is None and idx - skip < len(n.args) and idx - skip >= 0:
                    arg = n.args[idx - skip]
                if arg is None:
                    continue
                bounds.append(self._arg_lower(caller, n, arg))
        res = None if (not bounds or any(b is None for b in bounds)) else min(bounds)
        self._plow[key] = res
        return res

    SEQ_VALIDATORS = {"positive_int_seq": 1, "non_negative_int_seq": 0}

    def _arg_lower(self, caller, call, arg):
        c = const(arg, None)
        if isinstance(c, int) and not isinstance(c, bool):
            return c
        st = self.stmt_of(caller, call)
        if st is None:
            return None
        stmts = stmts_in(caller.node)
        facts = facts_before(caller.node, st, self.cfg(caller), stmts)

        def name_lower(e):
            lin = linear(e)
            if lin is None:
                return None
            if lin[0] == "":
                return lin[1]
            lo = lower_bound(facts, lin[0])
            if lo is None and lin[0] in caller.params:
                lo = self.param_lower(caller, lin[0])
            return None if lo is None else lo + lin[1]

        def seq_lower(e):
            """lower bound of the elements of a list expression"""
            if isinstance(e, (ast.List, ast.Tuple)):
                ls = [name_lower(x) for x in e.elts]
                return None if (not ls or any(l is None for l in ls)) else min(ls)
            if isinstance(e, ast.BinOp) and isinstance(e.op, ast.Add):
                a, b = seq_lower(e.left), seq_lower(e.right)
                return None if a is None or b is None else min(a, b)
            if isinstance(e, ast.Call) and call_name(e) in ("list", "tuple", "sorted") and e.args:
                return seq_lower(e.args[0])
            if isinstance(e, ast.Name):
                for s in stmts:
                    if isinstance(s, ast.Expr) and isinstance(s.value, ast.Call) and \
                            (call_name(s.value) or "").split(".")[-1] in self.SEQ_VALIDATORS and s.value.args and src(s.value.args[0]) == e.id:
                        return self.SEQ_VALIDATORS[(call_name(s.value) or "").split(".")[-1]]
                defs = [s.value for s in stmts if isinstance(s, ast.Assign) and len(s.targets) == 1 and src(s.targets[0]) == e.id]
                if len(defs) == 1:
                    return seq_lower(defs[0])
            return None
        if isinstance(arg, ast.Subscript):
            return seq_lower(arg.value)
        return name_lower(arg)

    def _bound_names(self, fnode):
        b = set()
        for n in walk_shallow(fnode):
            if isinstance(n, ast.Name) and isinstance(n.ctx, (ast.Store, ast.Del)):
                b.add(n.id)
            elif isinstance(n, (ast.FunctionDef, ast.AsyncFunctionDef, ast.ClassDef)):
                b.add(n.name)
            elif isinstance(n, (ast.Import, ast.ImportFrom)):
                for a in n.names:
                    b.add((a.asname or a.name).split(".")[0])
            elif isinstance(n, ast.ExceptHandler) and n.name:
                b.add(n.name)
            elif isinstance(n, ast.arg):
                b.add(n.arg)
        # names bound inside comprehensions / lambdas
        for n in ast.walk(fnode):
            if isinstance(n, ast.comprehension):
                b |= set(target_names(n.target))
            if isinstance(n, ast.Lambda):
                b |= {a.arg for a in n.args.args}
            if isinstance(n, ast.NamedExpr) and isinstance(n.target, ast.Name):
                b.add(n.target.id)
        return b

    EMPTY_SOURCES = ("strip", "split", "readline", "rstrip", "lstrip", "read")
    # facts: parameters that hold the words of a command line argument (argparse hands over any string, '' included)
    ARGV_WORD_LISTS = {("cnfgen.clitools.graph_args", "parse_graph_argument"): ["spec"]}

    def _const_index(self, fi, stmts):
        """``v[k]`` (k an integer literal) where v was produced by a possibly-empty producer and no emptiness test protects it"""
        out = []
        fnode = fi.node
        producers = {}
        words = self.ARGV_WORD_LISTS.get((fi.module.name, fi.qualname), [])
        for s in stmts:
            if isinstance(s, ast.Assign) and len(s.targets) == 1 and isinstance(s.targets[0], ast.Name):
                v = s.value
                if isinstance(v, ast.Call) and isinstance(v.func, ast.Attribute) and v.func.attr in self.EMPTY_SOURCES:
                    producers.setdefault(s.targets[0].id, []).append(s)
                # an element of a list of command line words: any string, the empty one included
                if isinstance(v, ast.Subscript) and isinstance(v.value, ast.Name) and v.value.id in words and not isinstance(v.slice, ast.Slice):
                    producers.setdefault(s.targets[0].id, []).append(s)
        cfg = None
        for n in walk_shallow(fnode):
            if not (isinstance(n, ast.Subscript) and isinstance(n.ctx, ast.Load)):
                continue
            k = const(n.slice, None)
            if not isinstance(k, int) or isinstance(k, bool):
                continue
            base = n.value
            need = k + 1 if k >= 0 else -k
            # direct  x.split()[k]
            if isinstance(base, ast.Call) and isinstance(base.func, ast.Attribute) and base.func.attr in ("split",):
                if need >= 1 and not self._len_guarded(fi, n, src(base), need):
                    # field 0 is missing only for an empty / blank string (usually excluded elsewhere): listed, no verdict
                    out.append(Site("IndexError", "implicit", fi, n, need > 1,
                                    "`%s`: the split may have fewer than %d fields" % (src(n)[:40], need)))
                continue
            if isinstance(base, ast.Name) and base.id in producers:
                if not self._len_guarded(fi, n, base.id, need):
                    out.append(Site("IndexError", "implicit", fi, n, True,
                                    "`%s`: `%s` comes from %s and may be empty here" % (src(n)[:40], base.id, src(producers[base.id][0].value)[:30])))
        return out

    def _len_guarded(self, fi, node, text, need, strip_ok=False):
        """is there a test establishing len(text) >= need that protects ``node`` (dominating leave-guard, enclosing if, or an
        earlier operand of the same ``or`` / ``and``)?"""
        fnode = fi.node
        # short-circuit:  len(x) == 0 or x[0] == ..
        for b in walk_shallow(fnode):
            if isinstance(b, ast.BoolOp):
                for i, v in enumerate(b.values):
                    if any(x is node for x in ast.walk(v)):
                        for prev in b.values[:i]:
                            if self._establishes(prev, text, need, when=isinstance(b.op, ast.And)):
                                return True
        st = self.stmt_of(fi, node)
        if st is None:
            return False
        cfg = self.cfg(fi)
        tn = cfg.node_of(st)
        for s in stmts_in(fnode):
            if isinstance(s, (ast.If, ast.While)):
                sn = cfg.node_of(s)
                if sn is None or sn is tn:
                    continue
                if cfg.edge_dominates(sn, True, tn) and not cfg.edge_dominates(sn, False, tn) and self._establishes(s.test, text, need, True):
                    return True
                if cfg.edge_dominates(sn, False, tn) and not cfg.edge_dominates(sn, True, tn) and self._establishes(s.test, text, need, False):
                    return True
        return False

    def _establishes(self, test, text, need, when):
        """does ``test`` evaluating to ``when`` imply len(text) >= need ?"""
        from .astutil import bool_atoms
        for atom, positive in bool_atoms(test, negate=not when):
            t = src(atom)
            if positive:
                if need == 1 and t == text:
                    return True
                if isinstance(atom, ast.Compare) and len(atom.ops) == 1 and src(atom.left) == "len(%s)" % text:
                    c = const(atom.comparators[0], None)
                    op = atom.ops[0]
                    if isinstance(c, int):
                        if isinstance(op, ast.GtE) and c >= need or isinstance(op, ast.Gt) and c + 1 >= need or \
                                isinstance(op, ast.Eq) and c >= need or (isinstance(op, ast.NotEq) and c == 0 and need == 1):
                            return True
            else:
                if need == 1 and t in ("not %s" % text,):
                    return True
                if isinstance(atom, ast.Compare) and len(atom.ops) == 1 and src(atom.left) == "len(%s)" % text:
                    c = const(atom.comparators[0], None)
                    op = atom.ops[0]
                    if isinstance(c, int):
                        # not (len == 0), not (len < need), not (len <= need-1)
                        if isinstance(op, ast.Eq) and c == 0 and need == 1:
                            return True
                        if isinstance(op, ast.Lt) and c >= need or isinstance(op, ast.LtE) and c + 1 >= need:
                            return True
        return False

    # ------------------------------------------------------------------ propagation
    def escapes(self, fi):
        """{class: Site} of exceptions that can leave ``fi`` (fixpoint over the call graph, computed once for all functions)"""
        if self._esc is None:
            self._compute()
        return self._esc.get(fi.key, {})

    def _compute(self):
        funcs = list(self.prog.all_functions())
        esc = {f.key: {} for f in funcs}
        info = {}
        for f in funcs:
            sites, ctx = self.local_sites(f)
            calls = []
            for n in walk_shallow(f.node):
                if isinstance(n, ast.Call):
                    ts, ext = self.res.targets(f, n)
                    if ts:
                        calls.append((n, ts))
            info[f.key] = (sites, ctx, calls)
            for s in sites:
                if escapes_try(ctx.get(id(s.node), []), s.cls):
                    cur = esc[f.key].get(s.cls)
                    if cur is None or (s.definite and not cur.definite):
                        esc[f.key][s.cls] = s
        changed = True
        rounds = 0
        while changed and rounds < 50:
            changed = False
            rounds += 1
            for f in funcs:
                sites, ctx, calls = info[f.key]
                mine = esc[f.key]
                for n, ts in calls:
                    c = ctx.get(id(n), [])
                    for t in ts:
                        if t.is_generator() and False:
                            continue
                        for cls, s in list(esc.get(t.key, {}).items()):
                            if not escapes_try(c, cls):
                                continue
                            cur = mine.get(cls)
                            if cur is None or (s.definite and not cur.definite):
                                if len(s.via) > 12:
                                    continue
                                mine[cls] = Site(cls, s.kind, s.fi, s.node, s.definite, s.what,
                                                 via=("%s:%s %s calls %s" % (f.module.relpath, n.lineno, f.qualname, t.qualname),) + s.via)
                                changed = True
        self._esc = esc
