"""Stand-in graph objects for folding (sa/fold.py, sa/objfold.py): plain Python classes with the documented query / update interface
of cnfgen.graphs (1-based vertices, sorted adjacency rows, edges enumerated in lexicographic order).  They replace the real graph
classes wherever a folded fragment only *uses* a graph; the real classes are decided by C16's own rules."""


class BaseBipartiteGraph:
    pass


class BipartiteGraph(BaseBipartiteGraph):
    def __init__(self, L, R, name=None):
        for v in (L, R):
            if not isinstance(v, int) or isinstance(v, bool):
                raise TypeError
            if v < 0:
                raise ValueError
        self.L, self.R = L, R
        self.ladj = [[] for _ in range(L + 1)]
        self.radj = [[] for _ in range(R + 1)]
        self.m = 0
        self.name = name or "a bipartite graph"

    @classmethod
    def make(cls, L, R, edges):
        g = cls(L, R)
        for u, v in edges:
            g.add_edge(u, v)
        return g

    @classmethod
    def normalize(cls, G, varname=''):
        if not isinstance(G, BaseBipartiteGraph):
            raise TypeError
        return G

    def add_edge(self, u, v):
        if not (1 <= u <= self.L and 1 <= v <= self.R):
            raise ValueError
        if v in self.ladj[u]:
            return
        self.ladj[u].append(v)
        self.ladj[u].sort()
        self.radj[v].append(u)
        self.radj[v].sort()
        self.m += 1

    def has_edge(self, u, v):
        return 1 <= u <= self.L and v in self.ladj[u]

    def parts(self):
        return range(1, self.L + 1), range(1, self.R + 1)

    def left_order(self):
        return self.L

    def right_order(self):
        return self.R

    def order(self):
        return self.L + self.R

    number_of_vertices = order

    def number_of_edges(self):
        return self.m

    def right_neighbors(self, u):
        if not (1 <= u <= self.L):
            raise ValueError
        return list(self.ladj[u])

    def left_neighbors(self, v):
        if not (1 <= v <= self.R):
            raise ValueError
        return list(self.radj[v])

    def right_degree(self, u):
        return len(self.right_neighbors(u))

    def left_degree(self, v):
        return len(self.left_neighbors(v))

    def edges(self):
        return [(u, v) for u in range(1, self.L + 1) for v in self.ladj[u]]

    def is_bipartite(self):
        return True

    def is_directed(self):
        return False

    def is_dag(self):
        return False


class CompleteBipartiteGraph(BipartiteGraph):
    """(like the real class, its neighbourhood queries do not look at their argument: a caller must validate vertices itself)"""

    def __init__(self, L, R, name=None):
        BipartiteGraph.__init__(self, L, R, name)

    def add_edge(self, u, v):
        pass

    def has_edge(self, u, v):
        return 1 <= u <= self.L and 1 <= v <= self.R

    def number_of_edges(self):
        return self.L * self.R

    def right_neighbors(self, u):
        return range(1, self.R + 1)

    def left_neighbors(self, v):
        return range(1, self.L + 1)

    def edges(self):
        return [(u, v) for u in range(1, self.L + 1) for v in range(1, self.R + 1)]


class Graph:
    def __init__(self, n, name=None):
        if not isinstance(n, int) or isinstance(n, bool):
            raise TypeError
        if n < 0:
            raise ValueError
        self.n = n
        self.adj = [[] for _ in range(n + 1)]
        self.m = 0
        self.name = name or "a simple graph"

    @classmethod
    def make(cls, n, edges):
        g = cls(n)
        for u, v in edges:
            g.add_edge(u, v)
        return g

    @classmethod
    def normalize(cls, G, varname=''):
        if not isinstance(G, Graph):
            raise TypeError
        return G

    @classmethod
    def complete_graph(cls, n):
        g = cls(n)
        for u in range(1, n + 1):
            for v in range(u + 1, n + 1):
                g.add_edge(u, v)
        return g

    @classmethod
    def empty_graph(cls, n):
        return cls(n)

    def add_edge(self, u, v):
        if not (1 <= u <= self.n and 1 <= v <= self.n and u != v):
            raise ValueError
        if v in self.adj[u]:
            return
        self.adj[u].append(v)
        self.adj[u].sort()
        self.adj[v].append(u)
        self.adj[v].sort()
        self.m += 1

    def has_edge(self, u, v):
        return 1 <= u <= self.n and v in self.adj[u]

    def remove_edge(self, u, v):
        if not self.has_edge(u, v):
            return
        self.adj[u].remove(v)
        self.adj[v].remove(u)
        self.m -= 1

    def update_vertex_number(self, new_value):
        if not isinstance(new_value, int) or isinstance(new_value, bool):
            raise TypeError
        if new_value < 0:
            raise ValueError
        while self.n < new_value:
            self.n += 1
            self.adj.append([])

    def order(self):
        return self.n

    number_of_vertices = order

    def number_of_edges(self):
        return self.m

    def vertices(self):
        return range(1, self.n + 1)

    def neighbors(self, u):
        if not (1 <= u <= self.n):
            raise ValueError
        return list(self.adj[u])

    def degree(self, u):
        return len(self.neighbors(u))

    def edges(self):
        return [(u, v) for u in range(1, self.n + 1) for v in self.adj[u] if u < v]

    def is_bipartite(self):
        return False

    def is_directed(self):
        return False

    def is_dag(self):
        return False


class DirectedGraph:
    def __init__(self, n, name=None):
        if not isinstance(n, int) or isinstance(n, bool):
            raise TypeError
        if n < 0:
            raise ValueError
        self.n = n
        self.succ = [[] for _ in range(n + 1)]
        self.pred = [[] for _ in range(n + 1)]
        self.m = 0
        self.name = name or "a digraph"

    @classmethod
    def make(cls, n, arcs):
        g = cls(n)
        for u, v in arcs:
            g.add_edge(u, v)
        return g

    @classmethod
    def normalize(cls, G, varname=''):
        if not isinstance(G, DirectedGraph):
            raise TypeError
        return G

    def add_edge(self, u, v):
        if not (1 <= u <= self.n and 1 <= v <= self.n):
            raise ValueError
        if v in self.succ[u]:
            return
        self.succ[u].append(v)
        self.succ[u].sort()
        self.pred[v].append(u)
        self.pred[v].sort()
        self.m += 1

    def has_edge(self, u, v):
        return 1 <= u <= self.n and v in self.succ[u]

    def order(self):
        return self.n

    number_of_vertices = order

    def number_of_edges(self):
        return self.m

    def vertices(self):
        return range(1, self.n + 1)

    def successors(self, u):
        return list(self.succ[u])

    def predecessors(self, v):
        return list(self.pred[v])

    def out_degree(self, u):
        return len(self.succ[u])

    def in_degree(self, v):
        return len(self.pred[v])

    def edges(self):
        return [(u, v) for u in range(1, self.n + 1) for v in self.succ[u]]

    def edges_ordered_by_successors(self):
        return [(u, v) for v in range(1, self.n + 1) for u in self.pred[v]]

    def is_directed(self):
        return True

    def is_dag(self):
        return all(u < v for u in range(1, self.n + 1) for v in self.succ[u])

    def is_bipartite(self):
        return False
