"""E4 (part): exact arithmetic on *extracted* integer expressions.

``ev(expr, env)`` folds an arithmetic expression taken from the source (``+ - * // % **``, ``len(x)``, ``abs``,
``min``/``max``, names bound in ``env``) to an integer for given symbol values.  It is constant folding of one
extracted threshold / offset expression -- no repository function is called and no control flow is followed.
Two quasi-linear expressions in one variable n (``+ - *const //const``) that agree on a window of 2*lcm(divisors)
consecutive values agree for all n >= 0; the rules use a window of 64 values, which covers every divisor <= 32.

``Poly`` is a small multivariate polynomial with integer coefficients (dict of monomials) used for the
literal-arithmetic (LITARITH) rules: exact +, -, *, substitution and evaluation.
"""
import ast
from fractions import Fraction


class Unknown(Exception):
    pass


def ev(expr, env, lenof=None):
    """evaluate an extracted arithmetic expression; ``env`` maps names (and source texts) to ints;
    ``lenof`` maps the source text of X in ``len(X)`` to an int"""
    if isinstance(expr, ast.Constant):
        if isinstance(expr.value, bool) or not isinstance(expr.value, int):
            raise Unknown("non-integer constant")
        return expr.value
    if isinstance(expr, ast.Name):
        if expr.id in env:
            v = env[expr.id]
            if isinstance(v, ast.AST):
                return ev(v, env, lenof)
            return v
        raise Unknown("free name %s" % expr.id)
    if isinstance(expr, ast.UnaryOp) and isinstance(expr.op, (ast.USub, ast.UAdd)):
        v = ev(expr.operand, env, lenof)
        return -v if isinstance(expr.op, ast.USub) else v
    if isinstance(expr, ast.BinOp):
        a, b = ev(expr.left, env, lenof), ev(expr.right, env, lenof)
        if isinstance(expr.op, ast.Add):
            return a + b
        if isinstance(expr.op, ast.Sub):
            return a - b
        if isinstance(expr.op, ast.Mult):
            return a * b
        if isinstance(expr.op, ast.FloorDiv):
            if b == 0:
                raise Unknown("division by zero")
            return a // b
        if isinstance(expr.op, ast.Mod):
            if b == 0:
                raise Unknown("division by zero")
            return a % b
        if isinstance(expr.op, ast.Pow) and b >= 0:
            return a ** b
        raise Unknown("operator")
    if isinstance(expr, ast.Call) and isinstance(expr.func, ast.Name):
        f = expr.func.id
        if f == "len" and len(expr.args) == 1:
            key = " ".join(ast.unparse(expr.args[0]).split())
            if lenof is not None and key in lenof:
                return lenof[key]
            if lenof is not None and "*" in lenof:
                return lenof["*"]
            raise Unknown("len of %s" % key)
        if f in ("abs", "min", "max", "int") and expr.args:
            vals = [ev(a, env, lenof) for a in expr.args]
            return {"abs": lambda v: abs(v[0]), "min": min, "max": max, "int": lambda v: v[0]}[f](vals)
    key = " ".join(ast.unparse(expr).split())
    if key in env and not isinstance(env[key], ast.AST):
        return env[key]
    raise Unknown("unsupported expression %s" % key)


class Poly:
    """multivariate polynomial over the integers: {monomial: coeff}, monomial = tuple(sorted((sym, power)))"""
    __slots__ = ("t",)

    def __init__(self, terms=None):
        self.t = {m: c for m, c in (terms or {}).items() if c != 0}

    @staticmethod
    def const(c):
        return Poly({(): c})

    @staticmethod
    def sym(name):
        return Poly({((name, 1),): 1})

    def __add__(self, o):
        o = _p(o)
        t = dict(self.t)
        for m, c in o.t.items():
            t[m] = t.get(m, 0) + c
        return Poly(t)

    __radd__ = __add__

    def __neg__(self):
        return Poly({m: -c for m, c in self.t.items()})

    def __sub__(self, o):
        return self + (-_p(o))

    def __rsub__(self, o):
        return _p(o) - self

    def __mul__(self, o):
        o = _p(o)
        t = {}
        for m1, c1 in self.t.items():
            for m2, c2 in o.t.items():
                d = dict(m1)
                for s, p in m2:
                    d[s] = d.get(s, 0) + p
                m = tuple(sorted(d.items()))
                t[m] = t.get(m, 0) + c1 * c2
        return Poly(t)

    __rmul__ = __mul__

    def __eq__(self, o):
        return self.t == _p(o).t

    def __hash__(self):
        return hash(tuple(sorted(self.t.items())))

    def is_zero(self):
        return not self.t

    def symbols(self):
        return {s for m in self.t for s, _ in m}

    def subs(self, mapping):
        out = Poly()
        for m, c in self.t.items():
            term = Poly.const(c)
            for s, p in m:
                base = _p(mapping[s]) if s in mapping else Poly.sym(s)
                for _ in range(p):
                    term = term * base
            out = out + term
        return out

    def eval(self, values):
        tot = 0
        for m, c in self.t.items():
            v = c
            for s, p in m:
                v *= values[s] ** p
            tot += v
        return tot

    def as_const(self):
        if not self.t:
            return 0
        if set(self.t) == {()}:
            return self.t[()]
        return None

    def __repr__(self):
        if not self.t:
            return "0"
        parts = []
        for m, c in sorted(self.t.items()):
            mon = "*".join(s if p == 1 else "%s^%d" % (s, p) for s, p in m)
            if not mon:
                parts.append("%+d" % c)
            elif c == 1:
                parts.append("+" + mon)
            elif c == -1:
                parts.append("-" + mon)
            else:
                parts.append("%+d*%s" % (c, mon))
        s = "".join(parts)
        return s[1:] if s.startswith("+") else s


def _p(x):
    return x if isinstance(x, Poly) else Poly.const(x)


def to_poly(expr, env):
    """expression -> Poly; names map through ``env`` (name -> Poly / int / ast) else become symbols"""
    if isinstance(expr, ast.Constant) and isinstance(expr.value, int) and not isinstance(expr.value, bool):
        return Poly.const(expr.value)
    if isinstance(expr, ast.Name):
        if expr.id in env:
            v = env[expr.id]
            if isinstance(v, ast.AST):
                return to_poly(v, env)
            return _p(v)
        return Poly.sym(expr.id)
    if isinstance(expr, ast.UnaryOp) and isinstance(expr.op, ast.USub):
        return -to_poly(expr.operand, env)
    if isinstance(expr, ast.UnaryOp) and isinstance(expr.op, ast.UAdd):
        return to_poly(expr.operand, env)
    if isinstance(expr, ast.BinOp):
        if isinstance(expr.op, ast.Add):
            return to_poly(expr.left, env) + to_poly(expr.right, env)
        if isinstance(expr.op, ast.Sub):
            return to_poly(expr.left, env) - to_poly(expr.right, env)
        if isinstance(expr.op, ast.Mult):
            return to_poly(expr.left, env) * to_poly(expr.right, env)
    key = " ".join(ast.unparse(expr).split())
    if key in env:
        v = env[key]
        return to_poly(v, env) if isinstance(v, ast.AST) else _p(v)
    raise Unknown("not polynomial: %s" % key)
