"""E7/E8: findings, obligations, known findings, evidence files, exit codes."""
import json
import os
import time

from .loader import AnalysisError, repo_root

VERIF = os.path.dirname(os.path.dirname(os.path.abspath(__file__)))
KNOWN_FILE = os.path.join(VERIF, "known_findings.json")


class Finding:
    def __init__(self, prop, rule, func, construct, message, node=None, witness=None, module=None, line=None):
        self.prop = prop
        self.rule = rule
        self.module = module or (func.module.name if func is not None else "")
        self.function = func.qualname if func is not None and hasattr(func, "qualname") else (func or "")
        if not isinstance(self.function, str):
            self.function = str(self.function)
        self.construct = construct
        self.message = message
        self.file = ""
        if func is not None and hasattr(func, "module"):
            self.file = func.module.relpath
        self.line = line if line is not None else (getattr(node, "lineno", 0) if node is not None else
                                                   (getattr(func.node, "lineno", 0) if func is not None and hasattr(func, "node") else 0))
        self.witness = witness or []

    @property
    def key(self):
        return "|".join([self.prop, self.rule, self.module, self.function, self.construct])

    def as_dict(self):
        return {"property": self.prop, "rule": self.rule, "module": self.module, "function": self.function,
                "construct": self.construct, "message": self.message, "file": self.file, "line": self.line,
                "witness": self.witness, "key": self.key}

    def text(self):
        return "%s:%s %s [%s] %s -- %s" % (self.file, self.line, self.function, self.rule, self.construct, self.message)


class Result:
    """What one property check analysed and concluded."""

    def __init__(self, prop, explanation):
        self.prop = prop
        self.explanation = explanation
        self.obligations = []      # dicts: rule, instance, status, nontrivial, where
        self.findings = []
        self.trusted = []
        self.unproven = []
        self.analysed = {}
        self.floors = []
        self.notes = []

    # -- obligations -------------------------------------------------------
    def ok(self, rule, instance, where="", nontrivial=True):
        self.obligations.append({"rule": rule, "instance": instance, "status": "discharged",
                                 "where": where, "nontrivial": bool(nontrivial)})

    def bad(self, finding, nontrivial=True):
        self.findings.append(finding)
        self.obligations.append({"rule": finding.rule, "instance": finding.construct, "status": "violated",
                                 "where": "%s:%s %s" % (finding.file, finding.line, finding.function),
                                 "nontrivial": bool(nontrivial)})

    def unknown(self, rule, instance, where="", why=""):
        self.unproven.append({"rule": rule, "instance": instance, "where": where, "why": why})

    def floor(self, name, count, minimum):
        """fail closed when a rule matched fewer instances than were confirmed by hand"""
        self.floors.append({"rule": name, "matched": count, "floor": minimum})
        if count < minimum:
            # deferred to the end of the run (finish): the remaining rules still run, and a violation they find is reported as such;
            # without one the run ends as ANALYSIS-ERROR, exactly as if raised here
            DEFERRED.append("rule %s matched %d instances, fewer than the confirmed floor %d "
                            "(the rule would pass vacuously)" % (name, count, minimum))

    def trust(self, *facts):
        for f in facts:
            if f not in self.trusted:
                self.trusted.append(f)

    def count(self, key, n=1):
        self.analysed[key] = self.analysed.get(key, 0) + n


def load_known():
    if not os.path.exists(KNOWN_FILE):
        return {"findings": [], "fixed": []}
    with open(KNOWN_FILE) as fh:
        return json.load(fh)


DEFERRED = []          # floor failures of this run (one process = one property), in the order they were met


def finish(result, tier, t0, selftest=None, prog=None):
    """Match findings against the known-findings file, write evidence, print, return exit code."""
    known = load_known()
    known_keys = {k["key"]: k for k in known.get("findings", []) if k.get("property") == result.prop}
    new = [f for f in result.findings if f.key not in known_keys]
    if DEFERRED and not new:
        raise AnalysisError(DEFERRED[0])
    for msg in DEFERRED:
        print("ANALYSIS-NOTE property=%s %s" % (result.prop, msg))
        result.notes.append("below floor: " + msg)
    listed = [f for f in result.findings if f.key in known_keys]
    stale = [k for k in known_keys if k not in {f.key for f in result.findings}]

    ev_dir = os.environ.get("VERIF_EVIDENCE_DIR") or os.path.join(VERIF, "evidence")
    if os.environ.get("VERIF_NOWRITE"):
        import atexit
        import shutil
        import tempfile
        ev_dir = tempfile.mkdtemp(prefix="verif-ev-")
        atexit.register(shutil.rmtree, ev_dir, True)          # a scratch run (evaluation tools): nothing is kept
    os.makedirs(ev_dir, exist_ok=True)
    replay_paths = []
    if new:
        rdir = os.path.join(ev_dir, "replay")
        os.makedirs(rdir, exist_ok=True)
        for i, f in enumerate(new):
            p = os.path.join(rdir, "%s-%d.json" % (result.prop, i))
            with open(p, "w") as fh:
                json.dump(f.as_dict(), fh, indent=1)
            replay_paths.append(p)

    obligations = len(result.obligations)
    discharged = sum(1 for o in result.obligations if o["status"] == "discharged")
    distinct = len({(o["rule"], o["instance"], o["where"]) for o in result.obligations if o["nontrivial"]})
    by_rule = {}
    for o in result.obligations:
        d = by_rule.setdefault(o["rule"], {"obligations": 0, "discharged": 0})
        d["obligations"] += 1
        d["discharged"] += o["status"] == "discharged"
    samples = []
    seen_rules = set()
    for o in result.obligations:
        if o["rule"] not in seen_rules or len(samples) < 12:
            if len(samples) < 40:
                samples.append({k: o[k] for k in ("rule", "instance", "where", "status")})
            seen_rules.add(o["rule"])
    coverage = {
        "explanation": result.explanation,
        "obligations": obligations,
        "discharged": discharged,
        "evaluations": max(obligations, 1),
        "distinct_nontrivial": distinct,
        "rule": "one obligation per (rule, construct) instance found in the current source of %s; an instance is "
                "non-trivial unless the rule marks it so (e.g. a path rule over a single-path function); "
                "distinct = distinct (rule, instance, location) triples" % repo_root(),
        "samples": samples,
        "by_rule": by_rule,
        "floors": result.floors,
        "analysed": result.analysed,
        "unproven": result.unproven[:60],
        "unproven_count": len(result.unproven),
        "trusted_base": result.trusted,
        "checker_cmd": "./check %s --tier %s" % (result.prop, tier),
        "known_findings_reported": [f.key for f in listed],
        "violations_found": [f.as_dict() for f in new],
        "exhaustive": True,
        "notes": result.notes,
    }
    if selftest is not None:
        coverage["selftest"] = selftest
    if prog is not None:
        gated = sorted("%s.%s" % (m.name, q) for m in prog.modules.values() for q in getattr(m, "gated", []))
        coverage["normal_form_gate"] = {
            "reference": getattr(prog, "reference_head", None),
            "functions_analysed_in_reference_form": gated,
            "renamed_functions_mapped_back": list(getattr(prog, "renamed", [])),
            "rule": "a function whose text differs from /verif/reference but whose function normal form (sa/fnf.py) is equal is analysed "
                    "in its reference form; any other difference is analysed as written",
        }
    evidence = {
        "property_id": result.prop,
        "tier": tier,
        "seed": int(os.environ.get("VERIF_SEED", "0") or 0),
        "level": "other",
        "coverage": coverage,
        "assumptions": result.trusted,
        "wall_s": round(time.time() - t0, 3),
        "violations": len(new),
    }
    with open(os.path.join(ev_dir, result.prop + ".json"), "w") as fh:
        json.dump(evidence, fh, indent=1, sort_keys=False)
        fh.write("\n")

    print("[%s] tier=%s repo=%s obligations=%d discharged=%d unproven=%d wall=%.2fs" % (
        result.prop, tier, repo_root(), obligations, discharged, len(result.unproven), time.time() - t0))
    for r, d in sorted(by_rule.items()):
        print("   rule %-22s %3d/%-3d" % (r, d["discharged"], d["obligations"]))
    for f in listed:
        print("KNOWN-FINDING: property=%s %s" % (result.prop, known_keys[f.key].get("what", f.text())))
    for k in stale:
        print("note: known finding no longer reproduced (consider moving it to 'fixed'): %s" % k)
    for f, p in zip(new, replay_paths):
        print("FINDING %s" % f.text())
        for w in f.witness:
            print("      via %s" % w)
        print("VIOLATION property=%s replay=%s" % (result.prop, p))
    return 1 if new else 0
