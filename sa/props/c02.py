"""C02 -- graph-problem families are satisfiable exactly when the graph has the documented property."""
from ..report import Result
from ..builders import builder_table
from . import _families as fam
from . import c04, c16

P = "C02"

MEMBERS = [
    ("cnfgen.families.tseitin", "TseitinFormula"),
    ("cnfgen.families.coloring", "GraphColoringFormula"),
    ("cnfgen.families.coloring", "EvenColoringFormula"),
    ("cnfgen.families.dominatingset", "DominatingSet"),
    ("cnfgen.families.dominatingset", "Tiling"),
    ("cnfgen.families.graphisomorphism", "GraphIsomorphism"),
    ("cnfgen.families.graphisomorphism", "GraphAutomorphism"),
    ("cnfgen.families.subgraph", "SubgraphFormula"),
    ("cnfgen.families.subgraph", "CliqueFormula"),
    ("cnfgen.families.subgraph", "BinaryCliqueFormula"),
    ("cnfgen.families.subgraph", "RamseyWitnessFormula"),
    ("cnfgen.families.subgraph", "non_edges"),
]

DELEGATES = [
    ("cnfgen.families.graphisomorphism", "GraphAutomorphism", "GraphIsomorphism", ["G", "G", "formula_class=formula_class"]),
]

EXPLANATION = (
    "Decides the structural part of the property, not satisfiability itself: AXIOM-SCHEMA compares, as sets of normal forms, the "
    "constraint emissions of every graph family (quantifier nest over vertices / edges / pairs, guards such as has_edge tests, builder, "
    "literal indices and signs) with the documented axioms in sa/props/_family_specs.py -- none missing, none extra.  DEAD-PARAM: every "
    "documented parameter (k, d, s, charges, flags) reaches the constraints.  DELEGATE: GraphAutomorphism is GraphIsomorphism(G, G) plus "
    "its own axiom.  GUARD-CHAIN: values the family validator accepts are not refused downstream.  HELPER: the helper enumerators the "
    "axioms quantify over (unique_neighborhoods: closed neighbourhood = neighbours + the vertex itself, built in a fresh list, one per "
    "distinct set) satisfy their contract.  MECHANISM/*: parity constraints, cardinality constraints, mapping clause schemas and "
    "forbid() bit patterns (rules of C04); GRAPH/*: the Graph representation and its read-only views (rules of C16).")


def run(prog, tier):
    R = Result(P, EXPLANATION)
    fam.run_family(R, prog, P, MEMBERS, 40, DELEGATES)
    fam.check_unique_neighborhoods(R, prog, P)
    check_tseitin_charges(R, prog)
    from ._shared import check_iterator_reuse
    check_iterator_reuse(R, prog, P, ['cnfgen.families', 'cnfgen.formula', 'cnfgen.clihelpers'], 100)
    fam.cli_roles(R, prog, P, MEMBERS, 10)
    table = builder_table(prog)
    fam.borrow(R, P, "MECHANISM", prog, c04.check_parity, floor=1)
    fam.borrow(R, P, "MECHANISM", prog, c04.check_thresholds, table, floor=8)
    fam.borrow(R, P, "MECHANISM", prog, c04.check_builder_paths, table, floor=14)
    fam.borrow(R, P, "MECHANISM", prog, c04.check_add_linear, floor=4)
    fam.borrow(R, P, "MECHANISM", prog, c04.check_mapping_dispatch, floor=4)
    fam.borrow(R, P, "MECHANISM", prog, c04.check_mapping_schema, floor=4)
    fam.borrow(R, P, "MECHANISM", prog, c04.check_forbid_bits, floor=1)
    fam.borrow(R, P, "GRAPH", prog, c16.analyse, floor=100)
    R.trust("the axiom table sa/props/_family_specs.py is a faithful transcription of the documented graph property of each family",
            "parity / cardinality clause blasting is correct once op / threshold / sign handling is (C04)")
    return R


def check_tseitin_charges(R, prog):
    """CHARGE: TseitinFormula, folded over stand-in graphs with a recording formula, adds for every vertex one parity constraint over the
    edges at that vertex whose constant is exactly 1 when the vertex's charge is odd / true and exactly 0 otherwise (missing charges
    are even, the default is one odd charge on the first vertex); the charge vector handed in is left as it was."""
    from ..fold import Folder, Raised
    from ..ql import Unknown
    from .. import standins as S
    from ..report import Finding
    fi = prog.func("cnfgen.families.tseitin", "TseitinFormula")

    class Grp:
        def __init__(self, G):
            self.ids = {e: i + 1 for i, e in enumerate(G.edges())}

        def __call__(self, u, v):
            return self.ids[(min(u, v), max(u, v))]

    class Rec:
        def __init__(self, description=None, **kw):
            self.par, self.other = [], []

        def new_graph_edges(self, G, label=None):
            self.g = Grp(G)
            return self.g

        def add_parity(self, lits, c, check=True):
            self.par.append((sorted(lits), c))

        def add_clause(self, c, check=True):
            self.other.append(list(c))
    graphs = [S.Graph.make(1, []), S.Graph.make(3, [(1, 2), (2, 3), (1, 3)]), S.Graph.make(4, [(1, 2), (3, 4), (2, 3)]), S.Graph.make(3, [(1, 2)])]
    cnt = 0
    bad = None
    try:
        for G in graphs:
            n = G.order()
            vectors = [None, [1] * n, [0] * n, [True] + [False] * (n - 1), [3] + [0] * (n - 1), [0] * (n - 1) + [5], [1], [], tuple([1] * n), [2, 1, 1][:n], [-1] * n]
            for ch in vectors:
                given = list(ch) if isinstance(ch, list) else ch
                f = Folder(env={})
                f.globals = {"Graph": S.Graph, "CNF": Rec}
                what = "TseitinFormula on the graph with %d vertices and edges %s, charges %r" % (n, G.edges(), ch)
                try:
                    out = f.call_function(fi.node, [G] + ([] if ch is None else [ch]), {"formula_class": Rec})
                except Raised as r:
                    bad = "%s raises %s" % (what, r.cls)
                    break
                if isinstance(ch, list) and ch != given:
                    bad = "%s changes the charge vector of its caller to %r" % (what, ch)
                    break
                want_ch = [1] + [0] * (n - 1) if ch is None else [1 if (i < len(ch) and ch[i]) else 0 for i in range(n)]
                if not isinstance(out, Rec) or out.other:
                    bad = "%s does not return a formula made of parity constraints only" % what
                    break
                want = [(sorted(out.g(u, v) for u in G.neighbors(v)), want_ch[v - 1]) for v in G.vertices()]
                got = [(l, c) for l, c in out.par]
                if len(got) != len(want) or any(gl != wl or (gc == 1) != (wc == 1) or gc not in (0, 1) for (gl, gc), (wl, wc) in zip(got, want)):
                    bad = "%s adds the parity constraints %s; one per vertex over its edges with the constants %s (exactly 0 or 1) expected" % (what, got, [w[1] for w in want])
                    break
                cnt += 1
            if bad:
                break
    except Unknown as e:
        R.unknown("CHARGE", "TseitinFormula charges", fi.key, "cannot fold TseitinFormula: %s" % e)
        return
    if bad:
        R.bad(Finding(P, "CHARGE", fi, "TseitinFormula charges", bad))
    else:
        R.ok("CHARGE", "TseitinFormula: %d (graph, charge vector) instances folded; each vertex gets the parity of its own charge, as exactly 0 or 1" % cnt, fi.key)
