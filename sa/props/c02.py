"""C02 -- graph-problem families are satisfiable exactly when the graph has the documented property."""
from ..report import Result
from ..builders import builder_table
from . import _families as fam
from . import c04, c16

P = "C02"

MEMBERS = [
    ("cnfgen.families.tseitin", "TseitinFormula"),
    ("cnfgen.families.coloring", "GraphColoringFormula"),
    ("cnfgen.families.coloring", "EvenColoringFormula"),
    ("cnfgen.families.dominatingset", "DominatingSet"),
    ("cnfgen.families.dominatingset", "Tiling"),
    ("cnfgen.families.graphisomorphism", "GraphIsomorphism"),
    ("cnfgen.families.graphisomorphism", "GraphAutomorphism"),
    ("cnfgen.families.subgraph", "SubgraphFormula"),
    ("cnfgen.families.subgraph", "CliqueFormula"),
    ("cnfgen.families.subgraph", "BinaryCliqueFormula"),
    ("cnfgen.families.subgraph", "RamseyWitnessFormula"),
    ("cnfgen.families.subgraph", "non_edges"),
]

DELEGATES = [
    ("cnfgen.families.graphisomorphism", "GraphAutomorphism", "GraphIsomorphism", ["G", "G", "formula_class=formula_class"]),
]

EXPLANATION = (
    "Decides the structural part of the property, not satisfiability itself: AXIOM-SCHEMA compares, as sets of normal forms, the "
    "constraint emissions of every graph family (quantifier nest over vertices / edges / pairs, guards such as has_edge tests, builder, "
    "literal indices and signs) with the documented axioms in sa/props/_family_specs.py -- none missing, none extra.  DEAD-PARAM: every "
    "documented parameter (k, d, s, charges, flags) reaches the constraints.  DELEGATE: GraphAutomorphism is GraphIsomorphism(G, G) plus "
    "its own axiom.  GUARD-CHAIN: values the family validator accepts are not refused downstream.  HELPER: the helper enumerators the "
    "axioms quantify over (unique_neighborhoods: closed neighbourhood = neighbours + the vertex itself, built in a fresh list, one per "
    "distinct set) satisfy their contract.  MECHANISM/*: parity constraints, cardinality constraints, mapping clause schemas and "
    "forbid() bit patterns (rules of C04); GRAPH/*: the Graph representation and its read-only views (rules of C16).")


def run(prog, tier):
    R = Result(P, EXPLANATION)
    fam.run_family(R, prog, P, MEMBERS, 40, DELEGATES)
    fam.check_unique_neighborhoods(R, prog, P)
    fam.cli_roles(R, prog, P, MEMBERS, 10)
    table = builder_table(prog)
    fam.borrow(R, P, "MECHANISM", prog, c04.check_parity, floor=1)
    fam.borrow(R, P, "MECHANISM", prog, c04.check_thresholds, table, floor=8)
    fam.borrow(R, P, "MECHANISM", prog, c04.check_builder_paths, table, floor=14)
    fam.borrow(R, P, "MECHANISM", prog, c04.check_add_linear, floor=4)
    fam.borrow(R, P, "MECHANISM", prog, c04.check_mapping_dispatch, floor=4)
    fam.borrow(R, P, "MECHANISM", prog, c04.check_mapping_schema, floor=4)
    fam.borrow(R, P, "MECHANISM", prog, c04.check_forbid_bits, floor=1)
    fam.borrow(R, P, "GRAPH", prog, c16.analyse, floor=100)
    R.trust("the axiom table sa/props/_family_specs.py is a faithful transcription of the documented graph property of each family",
            "parity / cardinality clause blasting is correct once op / threshold / sign handling is (C04)")
    return R
