"""C03 -- contradiction and Ramsey-type benchmarks consist of exactly their documented axioms."""
import ast

from ..loader import AnalysisError
from ..astutil import src, stmts_in, call_name
from ..ql import Poly, Unknown, to_poly
from ..report import Result, Finding
from ..builders import builder_table
from . import _families as fam
from ._pitfall import analyse_shift
from . import c04

P = "C03"

MEMBERS = [
    ("cnfgen.families.ordering", "OrderingPrinciple"),
    ("cnfgen.families.ordering", "GraphOrderingPrinciple"),
    ("cnfgen.families.pebbling", "PebblingFormula"),
    ("cnfgen.families.pebbling", "StoneFormula"),
    ("cnfgen.families.pebbling", "SparseStoneFormula"),
    ("cnfgen.families.cpls", "CPLSFormula"),
    ("cnfgen.families.pitfall", "PitfallFormula"),
    ("cnfgen.families.ramsey", "PythagoreanTriples"),
    ("cnfgen.families.ramsey", "RamseyNumber"),
    ("cnfgen.families.ramsey", "VanDerWaerden"),
    ("cnfgen.families.ramsey", "_vdw_ap_generator"),
    ("cnfgen.families.pebbling", "_uniqify_list"),
]

DELEGATES = [
    ("cnfgen.families.ordering", "OrderingPrinciple", "GraphOrderingPrinciple",
     ["Graph.complete_graph(size)", "total", "smart", "plant", "knuth", "formula_class=formula_class"]),
    ("cnfgen.families.pebbling", "StoneFormula", "SparseStoneFormula",
     ["D", "CompleteBipartiteGraph(D.number_of_vertices(), nstones)", "formula_class=formula_class"]),
]

EXPLANATION = (
    "The clause `consist of exactly the axioms their documentation lists, none missing and none extra` is decided directly: "
    "AXIOM-SCHEMA extracts the emission schema of every generator (quantifier nest, guards, builder, literal indices and signs in "
    "alpha-normal form) and compares it as a set with the documented axioms transcribed in sa/props/_family_specs.py.  DELEGATE: "
    "OrderingPrinciple is GraphOrderingPrinciple on the complete graph with the same flags in the same positions, StoneFormula is "
    "SparseStoneFormula on the complete bipartite stone graph.  DEAD-PARAM: every documented parameter reaches the constraints.  "
    "SIGN-EQUIV / COPY-RANGE: the literal renaming of the Pitfall copies commutes with negation and keeps each copy inside its own "
    "variable block (polynomial identity / corner proof).  AP-ENUM: _vdw_ap_generator lists exactly the progressions of length k "
    "inside 1..N (first element range and largest gap tight: last element of the last progression is N; length-1 case separate).  "
    "CLI/ARG-ROLE: op / peb / stone / ... helpers hand each option to the parameter of the same meaning.  Unsatisfiability itself "
    "(a statement over all assignments) is not decided: it follows from the documented axiom set, which is trusted.")


def run(prog, tier):
    R = Result(P, EXPLANATION)
    fam.run_family(R, prog, P, MEMBERS, 29, DELEGATES)
    check_pitfall(R, prog)
    check_ap(R, prog)
    from ._shared import check_iterator_reuse
    check_iterator_reuse(R, prog, P, ['cnfgen.families', 'cnfgen.formula', 'cnfgen.clihelpers'], 100)
    fam.cli_roles(R, prog, P, MEMBERS, 10)
    table = builder_table(prog)
    fam.borrow(R, P, "MECHANISM", prog, c04.check_thresholds, table, floor=8)
    fam.borrow(R, P, "MECHANISM", prog, c04.check_builder_paths, table, floor=14)
    fam.borrow(R, P, "MECHANISM", prog, c04.check_add_linear, floor=4)
    fam.borrow(R, P, "MECHANISM", prog, c04.check_parity, floor=1)
    fam.borrow(R, P, "MECHANISM", prog, c04.check_forbid_bits, floor=1)
    R.trust("the axiom table sa/props/_family_specs.py is a faithful transcription of the documented axioms of each family",
            "the documented axiom sets are contradictory / have the documented models (mathematical fact about the principle)")
    return R


def check_pitfall(R, prog):
    pit = analyse_shift(prog)
    fi = pit["fi"]
    for rule, key, detail in (("SIGN-EQUIV", "sign_equiv", "sign_detail"), ("COPY-RANGE", "range", "range_detail")):
        v = pit[key]
        if v is True:
            R.ok(rule, "shift_edgelit: %s" % pit[detail], fi.key)
        elif v is False:
            R.bad(Finding(P, rule, fi, "shift_edgelit %s" % rule.lower(),
                          "%s: the k copies of the Tseitin template are not copies of it, and the formula is not the documented one "
                          "(it may become satisfiable)" % pit[detail]))
        else:
            R.unknown(rule, "shift_edgelit", fi.key, str(pit[detail]))
    if pit.get("same_graph"):
        R.ok("COPY-RANGE", "the template and the edge variables of each copy are built on the same graph (nx = number of edges)", fi.key)
    else:
        R.bad(Finding(P, "COPY-RANGE", fi, "template graph differs from copy graph",
                      "the Tseitin template and new_graph_edges() must use the same graph, otherwise literal a of the template is not edge a "
                      "of the copy"))


def check_ap(R, prog):
    mod = "cnfgen.families.ramsey"
    fi = prog.func(mod, "_vdw_ap_generator")
    if len(fi.params) != 2:
        raise AnalysisError("_vdw_ap_generator(N, k) expected")
    N, k = fi.params
    env = {}
    for s in stmts_in(fi.node):
        if isinstance(s, ast.Assign) and len(s.targets) == 1 and isinstance(s.targets[0], ast.Name):
            env[s.targets[0].id] = s.value
    yields = [(s, s.value.value) for s in stmts_in(fi.node) if isinstance(s, ast.Expr) and isinstance(s.value, ast.Yield)]
    loops = {id(l): l for l in stmts_in(fi.node) if isinstance(l, ast.For)}

    def enclosing(st):
        out = []
        for l in loops.values():
            if any(x is st for b in l.body for x in ast.walk(b)):
                out.append(l)
        return sorted(out, key=lambda l: l.lineno)

    def rng(l):
        c = l.iter
        if isinstance(c, ast.Call) and call_name(c) == "range" and len(c.args) == 2 and isinstance(l.target, ast.Name):
            return l.target.id, c.args[0], c.args[1]
        return None

    general = None
    single = None
    for st, y in yields:
        if isinstance(y, ast.ListComp) and len(y.generators) == 1:
            general = (st, y)
        elif isinstance(y, ast.List) and len(y.elts) == 1:
            single = (st, y)
    if general is None:
        raise AnalysisError("_vdw_ap_generator: `yield [i + d * t for t in range(k)]` not found")
    st, y = general
    g = y.generators[0]
    ls = enclosing(st)
    ok = False
    why = ""
    try:
        if not (isinstance(g.iter, ast.Call) and call_name(g.iter) == "range" and len(g.iter.args) == 1 and src(g.iter.args[0]) == k
                and isinstance(g.target, ast.Name) and not g.ifs):
            raise Unknown("the progression must have exactly k terms t = 0..k-1")
        t = g.target.id
        if len(ls) != 2 or rng(ls[0]) is None or rng(ls[1]) is None:
            raise Unknown("expected two range loops (gap, first element)")
        (d, dlo, dhi), (i, ilo, ihi) = rng(ls[0]), rng(ls[1])
        elt = to_poly(y.elt, {})
        want = Poly.sym(i) + Poly.sym(d) * Poly.sym(t)
        if not (elt - want).is_zero():
            raise Unknown("term number t must be first + gap*t, found %s" % src(y.elt))
        if not (to_poly(dlo, env) - Poly.const(1)).is_zero() or not (to_poly(ilo, env) - Poly.const(1)).is_zero():
            raise Unknown("gap and first element start from 1")
        # last element of the last progression with gap d is exactly N
        last = to_poly(ihi, env) - Poly.const(1) + Poly.sym(d) * (Poly.sym(k) - Poly.const(1))
        if not (last - Poly.sym(N)).is_zero():
            raise Unknown("with gap %s the first element runs up to %s, so the last progression ends at %s instead of %s: progressions "
                          "inside 1..%s are missed or progressions leave the interval" % (d, src(ihi), last, N, N))
        # largest gap: floor((N-1)/(k-1))
        mx = ihi_expr = None
        hi = dhi
        if isinstance(hi, ast.BinOp) and isinstance(hi.op, ast.Add) and isinstance(hi.right, ast.Constant) and hi.right.value == 1:
            mx = hi.left
        if isinstance(mx, ast.Name) and mx.id in env:
            mx = env[mx.id]
        if not (isinstance(mx, ast.BinOp) and isinstance(mx.op, ast.FloorDiv)
                and (to_poly(mx.left, env) - (Poly.sym(N) - Poly.const(1))).is_zero()
                and (to_poly(mx.right, env) - (Poly.sym(k) - Poly.const(1))).is_zero()):
            raise Unknown("the largest gap must be (N - 1) // (k - 1)  (1 + d(k-1) <= N), found upper bound %s" % src(dhi))
        ok = True
    except Unknown as e:
        why = str(e)
    if ok:
        R.ok("AP-ENUM", "_vdw_ap_generator: gaps 1..(N-1)//(k-1), first elements 1..N-d(k-1), terms i+d*t, t<k: exactly the progressions in 1..N", fi.key)
    else:
        R.bad(Finding(P, "AP-ENUM", fi, "_vdw_ap_generator general case", why, node=st))
    # division by zero guarded: k == 1 handled before the division
    guard = [s for s in stmts_in(fi.node) if isinstance(s, ast.If) and src(s.test) in ("%s == 1" % k, "%s <= 1" % k)]
    if guard and single is not None and any(isinstance(x, ast.Return) for x in guard[0].body):
        l1 = enclosing(single[0])
        r = rng(l1[-1]) if l1 else None
        if r and src(r[1]) == "1" and (to_poly(r[2], env) - Poly.sym(N) - Poly.const(1)).is_zero() and src(single[1].elts[0]) == r[0]:
            R.ok("AP-ENUM", "_vdw_ap_generator: length 1 -> every single number of 1..N, and returns before dividing by k-1", fi.key)
        else:
            R.bad(Finding(P, "AP-ENUM", fi, "_vdw_ap_generator length-1 case", "for k == 1 the progressions are the singletons [i], i in 1..N", node=single[0]))
    else:
        R.bad(Finding(P, "AP-ENUM", fi, "_vdw_ap_generator length-1 case",
                      "progressions of length 1 (a documented legal length) need their own case before `(N - 1) // (k - 1)`"))
