"""Rules shared by C01 / C02 / C03: AXIOM-SCHEMA, DEAD-PARAM, DELEGATE, GUARD-CHAIN."""
import ast

from ..loader import AnalysisError, walk_shallow, FuncInfo, ClassInfo
from ..cfg import CFG
from ..astutil import src, call_name, method_name, const, stmts_in, target_names
from ..schema import extract, split_conditionals, spec
from ..guards import constraints_when, VALIDATOR_LOWER
from ..report import Finding
from ._family_specs import SPECS, HELPERS


def check_axioms(R, prog, P, members):
    """the emission schema of each family equals the documented axioms (set comparison of normal forms)"""
    total = 0
    for mod, q in members:
        fi = prog.func(mod, q)
        if (mod, q) not in SPECS:
            raise AnalysisError("no axiom table for %s:%s" % (mod, q))
        ems = extract(fi, helper=(mod, q) in HELPERS)
        got = {}
        for e in ems:
            got.setdefault(e.key(), e)
        want = {}
        for key in SPECS[(mod, q)]:
            quants, guards, builder, args = key
            text = "%s%s: %s(%s)" % (" ".join("for %s in %s" % (t, d) for t, d in quants), (" if " + " and ".join(guards)) if guards else "",
                                     builder, ", ".join(args))
            want[(tuple(tuple(x) for x in quants), tuple(guards), builder, tuple(args))] = text
        got = {k2: e for k, e in got.items() for k2 in split_conditionals(k)}
        want = {k2: line for k, line in want.items() for k2 in split_conditionals(k)}
        detail = ""
        if set(got) != set(want):
            # the schema differs from the reviewed table: is the generator, folded on small instances over a recording formula, still
            # the reviewed one (sa/familyfold.py)?
            from .. import familyfold
            sem = familyfold.compare(prog, mod, q)
            if sem[0] is True:
                total += len(want)
                R.ok("AXIOM-SCHEMA", "%s: %s" % (q, sem[1]), fi.key)
                R.unknown("AXIOM-SCHEMA", "%s schema" % q, fi.key,
                          "shape not recognised (the emission schema differs from the reviewed table); the meaning of the fragment was confirmed by folding")
                continue
            if sem[0] is False:
                detail = " [folding: %s]" % sem[1][:400]
        for k, line in want.items():
            total += 1
            if k in got:
                R.ok("AXIOM-SCHEMA", "%s: %s" % (q, line.strip()[:120]), fi.key)
            else:
                near = [e.text() for e in ems if e.builder == k[2]]
                R.bad(Finding(P, "AXIOM-SCHEMA", fi, "%s lacks axiom: %s" % (q, line.strip()[:100]),
                              "the documented axiom `%s` is not what the generator emits; emissions with the same builder: %s%s"
                              % (line.strip(), (" | ".join(near))[:400] or "none", detail)))
        for k, e in got.items():
            if k not in want:
                R.bad(Finding(P, "AXIOM-SCHEMA", fi, "%s extra axiom: %s" % (q, e.text()[:100]),
                              "the generator emits a constraint schema that is not among the documented axioms: %s" % e.text()[:300], node=e.node))
    return total


DESCRIPTIVE_TARGETS = ("description", "formula_name", "descr", "name", "parity")


def check_dead_params(R, prog, P, members, skip=("formula_class",)):
    """every documented parameter reaches the constraints: it is read, before being overwritten, by a statement other than an
    argument validator or the construction of the header text"""
    n = 0
    for mod, q in members:
        fi = prog.func(mod, q)
        cfg = CFG(fi.node)
        stmts = stmts_in(fi.node)
        for p in fi.params:
            if p in skip or p in ("self", "cls") or p.startswith("_"):
                continue
            if fi.node.args.vararg and fi.node.args.vararg.arg == p:
                pass
            n += 1
            binders = []
            for s in stmts:
                names = set()
                if isinstance(s, ast.Assign):
                    for t in s.targets:
                        names |= set(target_names(t))
                elif isinstance(s, (ast.AugAssign, ast.For)):
                    names |= set(target_names(s.target))
                if p in names:
                    binders.append(s)
            relevant = None
            for s in stmts:
                hdr = [s.test] if isinstance(s, (ast.If, ast.While)) else ([s.iter] if isinstance(s, ast.For) else
                                                                          ([] if isinstance(s, (ast.Try, ast.FunctionDef, ast.ClassDef, ast.With)) else [s]))
                reads = any(isinstance(x, ast.Name) and x.id == p and isinstance(x.ctx, ast.Load) for h in hdr for x in ast.walk(h))
                if not reads:
                    continue
                # validators and header text do not make the parameter matter
                if isinstance(s, ast.Expr) and isinstance(s.value, ast.Call) and (call_name(s.value) or "").split(".")[-1] in (
                        set(VALIDATOR_LOWER) | {"positive_int_seq", "non_negative_int_seq", "any_int", "one_of_values", "probability_value"}):
                    continue
                if isinstance(s, (ast.Assign, ast.AugAssign)):
                    tg = s.targets[0] if isinstance(s, ast.Assign) else s.target
                    tt = src(tg)
                    if tt in DESCRIPTIVE_TARGETS or "header[" in tt or tt.endswith("_text"):
                        continue
                # reachable from entry without passing a rebinding of p (the statement itself may rebind while reading)
                sn = cfg.node_of(s)
                bn = [cfg.node_of(b) for b in binders if b is not s and cfg.node_of(b) is not None]
                if sn is not None and (cfg.reaches(cfg.entry, sn, avoid=bn) or sn is cfg.entry):
                    relevant = s
                    break
            inst = "%s(%s)" % (q, p)
            if relevant is not None:
                R.ok("DEAD-PARAM", inst + " reaches the construction (line %d)" % relevant.lineno, fi.key, nontrivial=False)
            else:
                why = "is never read" if not any(isinstance(x, ast.Name) and x.id == p and isinstance(x.ctx, ast.Load) for x in walk_shallow(fi.node)) \
                    else "is only validated / mentioned in the header and then overwritten or ignored"
                R.bad(Finding(P, "DEAD-PARAM", fi, "%s ignores parameter `%s`" % (q, p),
                              "the documented parameter `%s` %s: the formula does not depend on it, so it cannot be the formula the "
                              "documentation describes for every value of `%s`" % (p, why, p)))
    return n


def check_delegate(R, prog, P, mod, q, callee, want_args):
    """a wrapper family calls ``callee`` with exactly these arguments (normal source text) and returns its result"""
    fi = prog.func(mod, q)
    calls = [c for c in walk_shallow(fi.node) if isinstance(c, ast.Call) and call_name(c) == callee]
    env = {}
    for s in stmts_in(fi.node):
        if isinstance(s, ast.Assign) and len(s.targets) == 1 and isinstance(s.targets[0], ast.Name):
            env[s.targets[0].id] = s.value
    ok = False
    got = None
    if len(calls) == 1:
        args = []
        for a in calls[0].args:
            if isinstance(a, ast.Name) and a.id in env and a.id not in fi.params:
                a = env[a.id]
            args.append(src(a))
        args += ["%s=%s" % (k.arg, src(k.value)) for k in calls[0].keywords]
        got = args
        ok = args == want_args
    if ok:
        R.ok("DELEGATE", "%s == %s(%s)" % (q, callee, ", ".join(want_args)), fi.key)
    else:
        R.bad(Finding(P, "DELEGATE", fi, "%s delegation to %s" % (q, callee),
                      "%s is documented as %s(%s); found %s" % (q, callee, ", ".join(want_args), got)))


def validator_bounds(fi):
    """{param: lower bound} from the validator calls at the top of a family function"""
    out = {}
    for s in stmts_in(fi.node):
        if isinstance(s, ast.Expr) and isinstance(s.value, ast.Call) and s.value.args:
            nm = (call_name(s.value) or "").split(".")[-1]
            if nm in VALIDATOR_LOWER and isinstance(s.value.args[0], ast.Name):
                out[s.value.args[0].id] = VALIDATOR_LOWER[nm]
    return out


def single_var_requirements(fi):
    """{param: c} for raising guards of the form  `p < c`  /  `a < c or b < c`  (each disjunct a single variable vs a constant)"""
    out = {}
    for s in stmts_in(fi.node):
        if isinstance(s, ast.If) and s.body and isinstance(s.body[0], ast.Raise):
            for (l, rel, r, off) in constraints_when(s.test, False):
                if r == "" and rel == ">=" and l in fi.params:
                    out[l] = max(out.get(l, off), off)
    return out


def check_guard_chain(R, prog, P, members):
    """a value the generator's own validator declares legal must not be refused further down the same call chain by a guard on that
    value alone (two checks of one quantity with different bounds: one of them is wrong)"""
    vm = prog.cls("cnfgen.formula.variables", "VariablesManager")
    n = 0
    for mod, q in members:
        fi = prog.func(mod, q)
        vb = validator_bounds(fi)
        if not vb:
            continue
        for c in [x for x in walk_shallow(fi.node) if isinstance(x, ast.Call) and isinstance(x.func, ast.Attribute)]:
            m = vm.methods.get(c.func.attr)
            if m is None or not c.func.attr.startswith("new_"):
                continue
            for i, a in enumerate(c.args):
                if not (isinstance(a, ast.Name) and a.id in vb) or i + 1 >= len(m.params):
                    continue
                n += 1
                p1 = m.params[i + 1]
                chain = [(m, p1)]
                # one more level: the group constructor the factory calls with the same parameter
                for c2 in [x for x in walk_shallow(m.node) if isinstance(x, ast.Call) and isinstance(x.func, ast.Name)]:
                    t = prog.resolve_global(m.module, c2.func.id)
                    if isinstance(t, ClassInfo):
                        init = prog.lookup_method(t, "__init__")
                        for j, a2 in enumerate(c2.args):
                            if isinstance(a2, ast.Name) and a2.id == p1 and init is not None and j + 1 < len(init.params):
                                chain.append((init, init.params[j + 1]))
                worst = None
                for f2, p2 in chain:
                    req = single_var_requirements(f2).get(p2)
                    if req is not None and req > vb[a.id]:
                        worst = (f2, p2, req)
                inst = "%s: `%s` (validated >= %d) -> %s" % (q, a.id, vb[a.id], " -> ".join("%s(%s)" % (f2.qualname, p2) for f2, p2 in chain))
                if worst:
                    R.bad(Finding(P, "GUARD-CHAIN", fi, "%s(%s=%d) refused downstream" % (q, a.id, vb[a.id]),
                                  "%s validates `%s` as >= %d, but %s refuses %s < %d: the documented-legal value %d raises ValueError instead of "
                                  "producing the (trivial) formula" % (q, a.id, vb[a.id], worst[0].qualname, worst[1], worst[2], vb[a.id]), node=c))
                else:
                    R.ok("GUARD-CHAIN", inst, fi.key)
    return n


def borrow(R, P, rule, prog, fn, *args, floor=1, only=None):
    """run a rule implemented for another property on a scratch result and account its obligations / findings to property P under
    ``rule`` (the other property's rule name is kept as a suffix) -- used where a family's meaning rests on a shared mechanism"""
    from ..report import Result
    tmp = Result(P, "")
    fn(tmp, prog, *args)
    n = 0
    if only is not None:
        tmp.obligations = [o for o in tmp.obligations if only(o["instance"])]
        tmp.findings = [f for f in tmp.findings if only(f.construct)]
        tmp.unproven = [u for u in tmp.unproven if only(u["instance"])]
    for o in tmp.obligations:
        if o["status"] == "discharged":
            n += 1
            R.ok("%s/%s" % (rule, o["rule"]), o["instance"], o["where"], nontrivial=o["nontrivial"])
    for f in tmp.findings:
        f.prop = P
        f.rule = "%s/%s" % (rule, f.rule)
        R.bad(f)
    for u in tmp.unproven:
        R.unknown("%s/%s" % (rule, u["rule"]), u["instance"], u["where"], u["why"])
    for t in tmp.trusted:
        R.trust(t)
    confirmed = sum(1 for u in tmp.unproven if "confirmed by folding" in (u.get("why") or ""))     # instance matched; shape unknown, meaning folded
    if n + len(tmp.findings) + confirmed < floor:
        raise AnalysisError("borrowed rule %s matched %d instances (< %d)" % (rule, n + len(tmp.findings) + confirmed, floor))
    return n


def run_family(R, prog, P, members, floor_axioms, delegates=()):
    na = check_axioms(R, prog, P, members)
    R.floor("AXIOM-SCHEMA", na, floor_axioms)
    nd = check_dead_params(R, prog, P, members)
    R.floor("DEAD-PARAM", nd, len(members))
    check_guard_chain(R, prog, P, members)
    for mod, q, callee, args in delegates:
        check_delegate(R, prog, P, mod, q, callee, args)
    R.count("family generators", len(members))
    R.count("documented axiom schemas", na)


def semantic_unique_neighborhoods(prog):
    """fold unique_neighborhoods over every graph on up to 4 vertices (a stand-in whose neighbors() hands out the graph's own rows): the
    result is the sorted list of the distinct closed neighbourhoods, each a sorted list of its own, and the graph is left untouched"""
    import itertools
    from ..fold import Folder, Raised
    from ..ql import Unknown
    fi = prog.func("cnfgen.families.dominatingset", "unique_neighborhoods")

    class G:
        def __init__(self, n, edges):
            self.n = n
            self.rows = [[] for _ in range(n + 1)]
            for u, v in edges:
                self.rows[u].append(v)
                self.rows[v].append(u)
            for r in self.rows:
                r.sort()

        def number_of_vertices(self):
            return self.n

        order = number_of_vertices

        def vertices(self):
            return range(1, self.n + 1)

        def neighbors(self, v):
            return self.rows[v]

        def number_of_edges(self):
            return sum(len(r) for r in self.rows) // 2
    cnt = 0
    for n in range(0, 5):
        pairs = list(itertools.combinations(range(1, n + 1), 2))
        for mask in range(2 ** len(pairs)):
            if n == 4 and mask % 3:          # a third of the 64 graphs on 4 vertices
                continue
            edges = [p_ for i, p_ in enumerate(pairs) if (mask >> i) & 1]
            g = G(n, edges)
            before = [list(r) for r in g.rows]
            f = Folder(env={})
            try:
                got = f.call_function(fi.node, [g], {})
            except Raised as r:
                return False, "unique_neighborhoods raises %s on the graph with %d vertices and edges %s" % (r.cls, n, edges)
            except Unknown as e:
                return None, "cannot fold unique_neighborhoods: %s" % e
            want = sorted({tuple(sorted([v] + before[v])) for v in range(1, n + 1)})
            try:
                gl = [list(x) for x in got]
            except TypeError:
                return False, "unique_neighborhoods returns %r" % (got,)
            if [tuple(x) for x in gl] != want:
                return False, ("on the graph with %d vertices and edges %s unique_neighborhoods gives %s; the distinct closed neighbourhoods, "
                               "sorted, are %s" % (n, edges, gl, [list(w) for w in want]))
            if [list(r) for r in g.rows] != before:
                return False, "unique_neighborhoods changes the adjacency rows of its argument (graph with edges %s)" % edges
            if any(any(x is r for r in g.rows) for x in got) or len({id(x) for x in got}) != len(gl):
                return False, "unique_neighborhoods hands out a row of the graph itself / the same list twice (graph with edges %s)" % edges
            cnt += 1
    return True, "%d graphs on up to 4 vertices folded" % cnt


def check_unique_neighborhoods(R, prog, P):
    from ._shared import with_semantics
    fi = prog.func("cnfgen.families.dominatingset", "unique_neighborhoods")
    sem = semantic_unique_neighborhoods(prog)
    try:
        with_semantics(R, P, lambda T: _shape_unique_neighborhoods(T, prog, P), sem,
                       "unique_neighborhoods lists the distinct closed neighbourhoods", fi, rule="HELPER")
    except AnalysisError as e:
        if sem[0] is not True:
            raise
        R.ok("HELPER", "unique_neighborhoods: %s" % sem[1], fi.key)
        R.unknown("HELPER", "unique_neighborhoods shape", fi.key, "shape not recognised (%s); the meaning of the fragment was confirmed by folding" % str(e)[:100])


def _shape_unique_neighborhoods(R, prog, P):
    """HELPER: unique_neighborhoods(G) lists the distinct *closed* neighbourhoods, each in a list of its own"""
    mod = "cnfgen.families.dominatingset"
    fi = prog.func(mod, "unique_neighborhoods")
    stmts = stmts_in(fi.node)
    apps = [s.value for s in stmts if isinstance(s, ast.Expr) and isinstance(s.value, ast.Call) and method_name(s.value) == "append"
            and s.value.args]
    loops = [s for s in stmts if isinstance(s, ast.For)]
    built = None
    for lp in loops:
        tv = target_names(lp.target)
        inner = [x for st in lp.body for x in ast.walk(st)]
        nb = [c for c in inner if isinstance(c, ast.Call) and method_name(c) == "neighbors"]
        ap = [a for a in apps if any(a is x for x in inner)]
        if nb and ap and len(tv) == 1:
            built = (lp, tv[0], ap[0], nb[0], src(ap[0].args[0]), inner)
            break
    if built is None:
        raise AnalysisError("unique_neighborhoods: a loop over the vertices that calls G.neighbors(v) and appends the set was not found")
    lp, v, app, nbc, txt, inner = built
    # (a) closed: the vertex itself is a member
    own = [e for e in inner if (isinstance(e, ast.List) and len(e.elts) == 1 and src(e.elts[0]) == v)
           or (isinstance(e, ast.Call) and method_name(e) in ("append", "add") and e is not app and len(e.args) == 1 and src(e.args[0]) == v)]
    arg_ok = len(nbc.args) == 1 and src(nbc.args[0]) == v
    if own and arg_ok:
        R.ok("HELPER", "unique_neighborhoods: N[%s] = %s  (the vertex and its neighbours)" % (v, txt), fi.key)
    else:
        R.bad(Finding(P, "HELPER", fi, "unique_neighborhoods closed neighbourhood",
                      "the set built for vertex `%s` is `%s`: it must contain the vertex itself and the neighbours of that same vertex "
                      "(domination / tiling constraints are over closed neighbourhoods)" % (v, txt), node=app))
    # (b) every vertex: loop over range(1, n+1) / G.vertices()
    it = src(lp.iter)
    nvar = [s.targets[0].id for s in stmts if isinstance(s, ast.Assign) and isinstance(s.targets[0], ast.Name)
            and isinstance(s.value, ast.Call) and method_name(s.value) in ("number_of_vertices", "order")]
    good_iters = {"G.vertices()"} | {"range(1, %s + 1)" % n for n in nvar} | {"range(1, %s+1)" % n for n in nvar}
    if it.replace(" ", "") in {g.replace(" ", "") for g in good_iters}:
        R.ok("HELPER", "unique_neighborhoods ranges over every vertex: %s" % it, fi.key)
    else:
        R.bad(Finding(P, "HELPER", fi, "unique_neighborhoods vertex range", "the loop `for %s in %s` does not range over all vertices 1..n" % (v, it), node=lp))
    # (c) fresh list: the appended value is built by sorted(..)/list(..)/[..]+.. and no name bound to a bare view is extended in place
    top = app.args[0]
    fresh = (isinstance(top, ast.Call) and call_name(top) in ("sorted", "list")) or isinstance(top, (ast.BinOp, ast.List, ast.ListComp))
    alias = set()
    for s in stmts:
        if isinstance(s, ast.Assign) and isinstance(s.value, ast.Call) and method_name(s.value) in ("neighbors", "predecessors", "successors") \
                and isinstance(s.targets[0], ast.Name):
            alias.add(s.targets[0].id)
    mutated = [s for s in stmts if (isinstance(s, ast.AugAssign) and isinstance(s.target, ast.Name) and s.target.id in alias)
               or (isinstance(s, ast.Expr) and isinstance(s.value, ast.Call) and isinstance(s.value.func, ast.Attribute)
                   and isinstance(s.value.func.value, ast.Name) and s.value.func.value.id in alias
                   and s.value.func.attr in ("append", "extend", "insert", "sort", "remove", "pop"))]
    if fresh and not mutated:
        R.ok("HELPER", "unique_neighborhoods builds each neighbourhood in a list of its own (no in-place change of a graph view)", fi.key)
    else:
        bad = mutated[0] if mutated else app
        R.bad(Finding(P, "HELPER", fi, "unique_neighborhoods mutates a graph view",
                      "`%s`: the value returned by G.neighbors() is changed in place / stored as is; if the view is the graph's own row the "
                      "input graph is corrupted and every later formula on it is built on another graph" % src(bad)[:80], node=bad))
    # (d) one entry per distinct set: sorted, then compared with the last kept
    sorts = [s for s in stmts if isinstance(s, ast.Expr) and isinstance(s.value, ast.Call) and method_name(s.value) == "sort"]
    dedup = [s for s in stmts if isinstance(s, ast.If) and isinstance(s.test, ast.Compare) and isinstance(s.test.ops[0], ast.NotEq)
             and "[-1]" in src(s.test)]
    if sorts and dedup and sorts[0].lineno < dedup[0].lineno:
        R.ok("HELPER", "unique_neighborhoods: sorted, then kept when different from the last kept (one per distinct set)", fi.key)
    else:
        R.bad(Finding(P, "HELPER", fi, "unique_neighborhoods dedup", "neighbourhoods must be sorted and then kept only when different from "
                      "the previously kept one; otherwise equal sets are repeated or distinct sets dropped"))


def cli_roles(R, prog, P, members, floor):
    """CLI/*: the command line helpers of this property's generators hand each option to the parameter of the same meaning, test
    optional graph arguments with `is None`, and default the short forms to the plain family (rules of C17, restricted to the helpers
    that call the generators of this property)"""
    from . import c17
    import re
    names = {q for _, q in members}
    helpers = c17.collect_helpers(prog)
    mine = []
    for h in helpers:
        ci, setup, build = h
        called = {c.func.id for c in walk_shallow(build.node) if isinstance(c, ast.Call) and isinstance(c.func, ast.Name)}
        if called & names:
            mine.append(h)
    pat = re.compile(r": (%s)\(" % "|".join(sorted(names)))
    borrow(R, P, "CLI", prog, c17.check_arg_role, helpers, floor=floor, only=lambda t: bool(pat.search(t)))
    hn = tuple(h[0].name for h in mine)
    borrow(R, P, "CLI", prog, c17.check_helper_schema, helpers, floor=1, only=lambda t: t.startswith(hn))
    borrow(R, P, "CLI", prog, c17.check_optional_object, helpers, floor=0, only=lambda t: t.startswith(hn))
    borrow(R, P, "CLI", prog, c17.check_action_defaults, helpers, floor=0, only=lambda t: t.startswith(hn))
