"""Bounded folding of the transformations of cnfgen/transformations/substitutions.py (C05).

Each transformation is folded (sa/fold.py: the analyser's own evaluator over the syntax tree; nothing of cnfgen is imported) on a few
small input formulas -- with an empty clause, an unused variable, repeated and opposite literals -- over a stand-in formula class whose
constraint builders are *semantic* (add_parity, add_linear, add_loose_majority .. store the canonical CNF of the named constraint, so the
builders' own encodings, which C04 decides, are not re-examined here).  The result is compared with the statement of the property by
truth table: an assignment of the new variables satisfies the result exactly when the induced assignment satisfies the input; the
result declares exactly the documented number of variables.

verdict(prog, name) -> (True | False | None, detail) per transformation.
"""
import ast
import copy as _copy
import itertools
import types

from ..fold import Folder, Raised
from ..ql import Unknown

MOD = "cnfgen.transformations.substitutions"


def _holds(op, tot, c):
    return {"<=": tot <= c, ">=": tot >= c, "<": tot < c, ">": tot > c, "==": tot == c, "!=": tot != c}[op]


def _canonical_cnf(lits, pred):
    """clauses over the variables of ``lits`` that are true exactly when pred(number of true literals, values) holds"""
    lits = list(lits)
    vs = sorted({abs(l) for l in lits})
    out = []
    for bits in itertools.product([False, True], repeat=len(vs)):
        asg = dict(zip(vs, bits))
        vals = [asg[abs(l)] == (l > 0) for l in lits]
        if not pred(vals):
            out.append([-v if asg[v] else v for v in vs])
    return out


class FakeCNF:
    """stand-in formula: identifiers, names, clauses; every named constraint is stored as its canonical CNF"""

    def __init__(self, *a, **k):
        self.header, self.n, self.cl, self.names = {}, 0, [], []

    # variables
    def new_variable(self, name=None, label=None):
        self.n += 1
        self.names.append(name if name is not None else label)
        return self.n

    def new_block(self, *dims, label=None):
        tot = 1
        for d in dims:
            tot *= d
        first = self.n + 1
        for i in range(tot):
            self.n += 1
            self.names.append("%s#%d" % (label, i))
        return list(range(first, first + tot))

    def update_variable_number(self, n):
        while self.n < n:
            self.n += 1
            self.names.append("x%d" % self.n)

    def number_of_variables(self):
        return self.n

    def all_variable_labels(self, *a, **k):
        return list(self.names)

    def variables(self):
        return list(range(1, self.n + 1))

    # clauses
    def add_clause(self, c, check=True):
        c = list(c)
        for l in c:
            if not isinstance(l, int) or isinstance(l, bool) or l == 0:
                raise TypeError
        self.cl.append(c)
        self.update_variable_number(max([0] + [abs(l) for l in c]))

    def add_clauses_from(self, cs, check=True):
        for c in cs:
            self.add_clause(c, check=check)

    def number_of_clauses(self):
        return len(self.cl)

    def clauses(self):
        return [list(c) for c in self.cl]

    def __iter__(self):
        return iter([list(c) for c in self.cl])

    def __len__(self):
        return len(self.cl)

    def __getitem__(self, i):
        return list(self.cl[i])

    # named constraints, by meaning
    def _add(self, lits, pred):
        lits = list(lits)
        for c in _canonical_cnf(lits, pred):
            self.add_clause(c)
        self.update_variable_number(max([0] + [abs(l) for l in lits]))

    def add_parity(self, lits, b, check=True):
        self._add(lits, lambda v: sum(v) % 2 == b % 2)

    def add_linear(self, lits, op, c, check=True):
        if op not in ("<=", ">=", "<", ">", "==", "!="):
            raise ValueError
        self._add(lits, lambda v: _holds(op, sum(v), c))

    def add_loose_majority(self, lits, check=True):
        self._add(lits, lambda v: 2 * sum(v) >= len(v))

    def add_strict_majority(self, lits, check=True):
        self._add(lits, lambda v: 2 * sum(v) > len(v))

    def add_loose_minority(self, lits, check=True):
        self._add(lits, lambda v: 2 * sum(v) <= len(v))

    def add_strict_minority(self, lits, check=True):
        self._add(lits, lambda v: 2 * sum(v) < len(v))

    def add_exactly_one(self, lits, check=True):
        self._add(lits, lambda v: sum(v) == 1)

    def cardinality_eq(self, lits, c, check=True):
        self.add_linear(lits, "==", c)

    def cardinality_neq(self, lits, c, check=True):
        self.add_linear(lits, "!=", c)

    def cardinality_geq(self, lits, c, check=True):
        self.add_linear(lits, ">=", c)

    def cardinality_leq(self, lits, c, check=True):
        self.add_linear(lits, "<=", c)

    def cardinality_gt(self, lits, c, check=True):
        self.add_linear(lits, ">", c)

    def cardinality_lt(self, lits, c, check=True):
        self.add_linear(lits, "<", c)


class FakeB:
    """stand-in bipartite graph: left vertex u -> list of right vertices"""

    def __init__(self, right, adj):
        self.right, self.adj = right, adj

    def left_order(self):
        return len(self.adj)

    def right_order(self):
        return self.right

    def number_of_vertices(self):
        return len(self.adj) + self.right

    def right_neighbors(self, u):
        return list(self.adj[u - 1])

    def left_degree(self, u):
        return len(self.adj[u - 1])


def inputs(full=False):
    """(number of variables, clauses): empty formula, empty clause, unused variable, repeated and opposite literals.  ``full``: also every
    single-clause formula of up to three literals over two variables (all patterns of repeated and opposite literals, where each
    literal matters on its own) and two-clause combinations of them"""
    yield 0, []
    yield 1, [[1], []]
    yield 2, [[1, -2], [2, 2], [-1, 1]]
    yield 3, [[1, -2], [-1, -2], [2]]          # variable 3 in no clause
    yield 2, [[1, -1, 2], [-2]]
    if full:
        lits = [1, -1, 2, -2]
        singles = [list(c) for r in range(1, 4) for c in itertools.product(lits, repeat=r)]
        for c in singles:
            yield 2, [c]
        for i in range(0, len(singles), 5):
            yield 2, [singles[i], singles[(i * 7 + 11) % len(singles)]]


def make(nv, clauses):
    f = FakeCNF()
    f.header = {"description": "d"}
    f.update_variable_number(nv)
    f.cl = [list(c) for c in clauses]
    return f


def sat(clauses, asg):
    return all(any(asg[abs(l)] == (l > 0) for l in c) for c in clauses)


def _validator(kind):
    def positive_int(v, name="x"):
        if not isinstance(v, int) or isinstance(v, bool) or v < 1:
            raise ValueError(name)

    def non_negative_int(v, name="x"):
        if not isinstance(v, int) or isinstance(v, bool) or v < 0:
            raise ValueError(name)

    def any_int(v, name="x"):
        if not isinstance(v, int) or isinstance(v, bool):
            raise ValueError(name)

    def one_of_values(v, name, choices):
        if v not in choices:
            raise ValueError(name)
    return {"positive_int": positive_int, "non_negative_int": non_negative_int, "any_int": any_int, "one_of_values": one_of_values}[kind]


def folder(prog):
    f = Folder(env={}, fuel=600000)
    m = prog.module(MOD)
    f.module_functions = {n.name: n for n in m.tree.body if isinstance(n, ast.FunctionDef)}
    f.globals = {"CNF": FakeCNF, "copy": _copy.copy, "deepcopy": _copy.deepcopy, "escape_curly": lambda s: s,
                 "BipartiteGraph": types.SimpleNamespace(normalize=lambda b, *a, **k: b),
                 "positive_int": _validator("positive_int"), "non_negative_int": _validator("non_negative_int"),
                 "any_int": _validator("any_int"), "one_of_values": _validator("one_of_values")}
    return f


def _blocks(nv, k):
    return {v: list(range((v - 1) * k + 1, v * k + 1)) for v in range(1, nv + 1)}


def cases(name):
    """-> list of (arguments after F, keyword arguments, expected number of variables as a function of N, induce(N, asg) -> {v: bool} or None
    when the assignment is not a legal one (lifting selectors), description)"""
    out = []

    def blockwise(k, g):
        def induce(nv, asg):
            b = _blocks(nv, k)
            return {v: g([asg[x] for x in b[v]]) for v in b}
        return induce
    if name == "FlipPolarity":
        out.append(((), {}, lambda n: n, lambda nv, a: {v: not a[v] for v in range(1, nv + 1)}, "flip"))
    elif name in ("XorSubstitution", "OrSubstitution", "MajoritySubstitution", "ExactlyOneSubstitution", "AllEqualSubstitution",
                  "NotAllEqualSubstitution"):
        g = {"XorSubstitution": lambda v: sum(v) % 2 == 1, "OrSubstitution": lambda v: any(v),
             "MajoritySubstitution": lambda v: 2 * sum(v) >= len(v), "ExactlyOneSubstitution": lambda v: sum(v) == 1,
             "AllEqualSubstitution": lambda v: len(set(v)) <= 1, "NotAllEqualSubstitution": lambda v: len(set(v)) > 1}[name]
        for k in (1, 2, 3):
            out.append(((k,), {}, lambda n, k=k: n * k, blockwise(k, g), "k=%d" % k))
        if name == "AllEqualSubstitution":
            for k in (1, 2, 3):
                out.append(((k,), {"invert": True}, lambda n, k=k: n * k, blockwise(k, lambda v: len(set(v)) > 1), "k=%d, invert" % k))
    elif name == "LinearSubstitution":
        for k in (1, 2, 3):
            for op in ("==", "<", ">", "<=", ">=", "!="):
                for c in (0, 1, k, k + 1) if k > 1 else (0, 1, 2):
                    out.append(((k, op, c), {}, lambda n, k=k: n * k, blockwise(k, lambda v, op=op, c=c: _holds(op, sum(v), c)), "k=%d %s %d" % (k, op, c)))
    elif name in ("AtLeastKSubstitution", "AtMostKSubstitution", "ExactlyKSubstitution", "AnythingButKSubstitution"):
        op = {"AtLeastKSubstitution": ">=", "AtMostKSubstitution": "<=", "ExactlyKSubstitution": "==", "AnythingButKSubstitution": "!="}[name]
        for k in (1, 2, 3):
            for c in (0, 1, 2, k + 1):
                out.append(((k, c), {}, lambda n, k=k: n * k, blockwise(k, lambda v, c=c: _holds(op, sum(v), c)), "N=%d k=%d" % (k, c)))
    elif name == "IfThenElseSubstitution":
        out.append(((), {}, lambda n: 3 * n, lambda nv, a: {v: (a[nv + v] if a[v] else a[2 * nv + v]) for v in range(1, nv + 1)}, "ite"))
    elif name == "FormulaLifting":
        for k in (1, 2):
            def induce(nv, a, k=k):
                res = {}
                for v in range(1, nv + 1):
                    xs = list(range((v - 1) * 2 * k + 1, (v - 1) * 2 * k + k + 1))
                    ys = list(range((v - 1) * 2 * k + k + 1, v * 2 * k + 1))
                    sel = [i for i, y in enumerate(ys) if a[y]]
                    if len(sel) != 1:
                        return None
                    res[v] = a[xs[sel[0]]]
                return res
            out.append(((k,), {}, lambda n, k=k: 2 * k * n, induce, "k=%d" % k))
    elif name == "VariableCompression":
        for fn, g in (("xor", lambda v: sum(v) % 2 == 1), ("maj", lambda v: 2 * sum(v) >= len(v))):
            for right, pattern in ((3, [[1, 2], [2, 3], [1, 2, 3], []]), (2, [[1], [1, 2], [2], [2, 1]]), (4, [[4, 1], [3], [2, 3, 4], [1]])):
                def graph(nv, right=right, pattern=pattern):
                    return FakeB(right, [list(pattern[i]) for i in range(nv)])

                def induce(nv, a, pattern=pattern, g=g):
                    return {v: g([a[x] for x in pattern[v - 1]]) for v in range(1, nv + 1)}
                out.append(((graph, fn), {}, lambda n, right=right: right, induce, "function=%r, %d right vertices" % (fn, right)))
    return out


NAMES = ["FlipPolarity", "XorSubstitution", "OrSubstitution", "MajoritySubstitution", "ExactlyOneSubstitution", "AllEqualSubstitution",
         "NotAllEqualSubstitution", "LinearSubstitution", "AtLeastKSubstitution", "AtMostKSubstitution", "ExactlyKSubstitution",
         "AnythingButKSubstitution", "IfThenElseSubstitution", "FormulaLifting", "VariableCompression"]
_V = {}


def verdict(prog, name):
    key = (id(prog), name)
    if key not in _V:
        try:
            _V[key] = _verdict(prog, name)
        except Unknown as e:
            _V[key] = (None, "cannot fold %s: %s" % (name, e))
        except RecursionError:
            _V[key] = (None, "recursion while folding %s" % name)
    return _V[key]


def _verdict(prog, name):
    fi = prog.func(MOD, name)
    n_inst = 0
    n_asg = 0
    cs = cases(name)
    rich = min(1, len(cs) - 1)                 # one parameter setting of each transformation sees the full input list
    for ci_, (args, kw, count, induce, desc) in enumerate(cs):
        for nv, clauses in inputs(full=(ci_ == rich)):
            F0 = make(nv, clauses)
            a = [x(nv) if callable(x) else x for x in args]
            what = "%s(F, %s) on the formula %s over %d variables" % (name, desc, clauses, nv)
            f = folder(prog)
            try:
                out = f.call_function(fi.node, [F0] + a, dict(kw))
            except Raised as r:
                return False, "%s raises %s" % (what, r.cls)
            if not isinstance(out, FakeCNF) or out is F0:
                return False, "%s does not return a new formula" % what
            if F0.cl != [list(c) for c in clauses] or F0.n != nv:
                return False, "%s modifies its input" % what
            want_n = count(nv)
            if out.n != want_n:
                return False, "%s has %d variables; the documented number is %d" % (what, out.n, want_n)
            if want_n > 13:
                continue
            for bits in itertools.product([False, True], repeat=want_n):
                asg = {i + 1: b for i, b in enumerate(bits)}
                ind = induce(nv, asg)
                want = False if ind is None else sat(clauses, ind)
                got = sat(out.cl, asg)
                n_asg += 1
                if got != want:
                    return False, ("%s: under the assignment %s of the new variables the result is %s, but the induced assignment %s makes "
                                   "the input %s" % (what, {v: int(b) for v, b in asg.items()}, got,
                                                     "is illegal (selectors)" if ind is None else {v: int(b) for v, b in ind.items()}, want))
            n_inst += 1
    if not n_inst:
        return None, "no instance"
    return True, "%d (parameters, input formula) instances folded, %d assignments compared with the gadget composition" % (n_inst, n_asg)
