"""C08 -- the pseudo-Boolean (OPB) and CNF renderings of a family are the same formula."""
import ast

from ..loader import AnalysisError, walk_shallow, FuncInfo
from ..cfg import CFG
from ..astutil import src, call_name, method_name, const, stmts_in
from ..provenance import FunctionProvenance, is_formula, SINKS, NEW_GROUP
from ..builders import builder_table, NAMED
from ..ql import Unknown
from ..report import Result, Finding

P = "C08"


def F(rule, fi, construct, msg, node=None):
    return Finding(P, rule, fi, construct, msg, node=node)


def family_generators(prog):
    for mname, m in sorted(prog.modules.items()):
        if mname.startswith("cnfgen.families."):
            for q, fi in sorted(m.functions.items()):
                if "<locals>" not in q and "formula_class" in fi.params:
                    yield fi


def helper_builders(prog):
    for mname, m in sorted(prog.modules.items()):
        if mname.startswith("cnfgen.clihelpers."):
            for q, fi in sorted(m.functions.items()):
                if q.endswith(".build_formula"):
                    yield fi


def run(prog, tier):
    R = Result(P, "Every family is one function parametrised by formula_class, and CNF / OPB share VariablesManager; the renderings can differ "
               "only through a constraint not built through the class handed in, or through the sibling builder methods.  CLASS-THREAD: in "
               "each generator the returned object is formula_class(..) (or a nested generator's result that received formula_class), "
               "constraints are added to that object only, nested generator calls pass the parameter on (frozen exception: the read-only "
               "CNF template of PitfallFormula); each CLI helper passes formula_class=formula_class to every generator it calls.  "
               "MRO-SHARED: allocation / naming methods resolve to VariablesManager for both classes.  INTERFACE-COMPLETE: every method a "
               "family calls on its formula exists in both classes.  ADD-CLAUSE-SIBLING: both add_clause store the clause on every path "
               "(the empty clause too).  THRESHOLD-SIBLING: the eight named builders agree between the classes (from C04).  Equality of "
               "model sets beyond that rests on the correctness of clause blasting (C04 trusted base).")
    check_class_thread(R, prog)
    check_mro(R, prog)
    check_interface(R, prog)
    check_add_clause(R, prog)
    check_builders(R, prog)
    from . import c04
    from ._families import borrow
    borrow(R, P, "BUILDER", prog, c04.check_builder_paths, builder_table(prog), floor=14)
    borrow(R, P, "BUILDER", prog, c04.check_parity, floor=1)
    # the CNF rendering of a linear constraint must mean the constraint the OPB rendering stores: add_linear by truth table
    borrow(R, P, "BUILDER", prog, c04.check_add_linear, floor=4)
    # both tools must build the same graph from the same seed: the seeding discipline of C07, for cnfgen and pbgen alike
    from . import c07
    from ..callgraph import Resolver
    res = Resolver(prog)
    consumers = c07.rng_consumers(prog)
    borrow(R, P, "SEED", prog, lambda r, p: c07.check_seed_order(r, p, res, consumers), floor=2)
    borrow(R, P, "SEED", prog, c07.check_seed_truthy, floor=1)
    # sibling agreement: cnfgen and pbgen seed at the same points.  Both seed while the --seed option is parsed (before the graph
    # arguments are built); a further random.seed() in only one of the two drivers restarts the stream between the graph and the
    # formula in that tool alone, and the same seed gives different formulas in the two tools
    import ast as _ast
    from ..astutil import call_name as _cn
    sites = {}
    for tool in ("cnfgen", "pbgen"):
        cli = prog.func("cnfgen.clitools." + tool, "cli")
        sites[tool] = [c for c in _ast.walk(cli.node) if isinstance(c, _ast.Call) and (_cn(c) or "") in ("random.seed", "seed")]
    if len(sites["cnfgen"]) == len(sites["pbgen"]):
        R.ok("SEED-SIBLING", "cnfgen.cli and pbgen.cli seed the generator at the same points (%d explicit calls each besides the option's action)"
             % len(sites["cnfgen"]), "cnfgen.clitools")
    else:
        tool = "pbgen" if len(sites["pbgen"]) > len(sites["cnfgen"]) else "cnfgen"
        cli = prog.func("cnfgen.clitools." + tool, "cli")
        R.bad(Finding(P, "SEED-SIBLING", cli, "%s.cli seeds the generator where the other tool does not" % tool,
                      "`%s`: the two tools must consume the same random stream for the same seed; this tool restarts it after the graph "
                      "arguments have been built" % _ast.unparse(sites[tool][0])[:60], node=sites[tool][0]))
    return R


def check_class_thread(R, prog):
    ngen = 0
    for fi in family_generators(prog):
        ngen += 1
        fp = FunctionProvenance(prog, fi)
        kinds = [k for k in fp.returns if k != "NONE"]
        good = kinds and all(is_formula(k) and k[1] in ("param-class", "nested") for k in kinds)
        if good:
            R.ok("CLASS-THREAD", "%s returns formula_class(..)%s" % (fi.qualname, " (through a nested generator)" if any(k[1] == "nested" for k in kinds) else ""), fi.key)
        else:
            R.bad(F("CLASS-THREAD", fi, "%s return value" % fi.qualname,
                    "the generator must return the object built with the formula class it was given (formula_class(..) or a nested generator "
                    "called with formula_class=formula_class); it returns %s: pbgen / library calls with OPB get another kind of formula"
                    % sorted({str(k) for k in kinds})))
        # constraints only on that object
        allsinks = [(fi, s) for s in fp.sinks] + [(sub.fi, s) for sub in fp.sub.values() for s in sub.sinks]
        for owner, (c, m, role, k, rk) in allsinks:
            if is_formula(rk) and rk[1] not in ("param-class", "nested"):
                R.bad(F("CLASS-THREAD", owner, "%s adds constraints to a %s formula" % (fi.qualname, rk[1]),
                        "`%s` adds to a formula that was not built through formula_class (origin %s): this part of the family would be a CNF "
                        "also when an OPB is requested" % (src(c)[:50], rk[1]), c))
        # nested generator calls pass the class on
        for c in [x for x in walk_shallow(fi.node) if isinstance(x, ast.Call) and isinstance(x.func, ast.Name)]:
            t = prog.resolve_global(fi.module, c.func.id)
            if isinstance(t, FuncInfo) and "formula_class" in t.params and t.module.name.startswith("cnfgen.families."):
                passed = [k for k in c.keywords if k.arg == "formula_class"]
                if passed and src(passed[0].value) == "formula_class":
                    R.ok("CLASS-THREAD", "%s passes formula_class on to %s" % (fi.qualname, t.qualname), fi.key)
                elif fi.qualname == "PitfallFormula" and t.qualname == "TseitinFormula":
                    R.ok("CLASS-THREAD", "PitfallFormula builds a CNF *template* with TseitinFormula whose clauses are copied literal by literal "
                                         "(read-only; frozen exception)", fi.key, nontrivial=False)
                else:
                    R.bad(F("CLASS-THREAD", fi, "%s -> %s without formula_class" % (fi.qualname, t.qualname),
                            "the nested generator is called without formula_class=formula_class: its part of the formula is always a CNF", c))
    R.floor("CLASS-THREAD generators", ngen, 28)
    pairs = set()
    for fi in helper_builders(prog):
        calls = []
        # a local name bound only to generator functions (`builder = OrderingPrinciple`, `builder, domain = GraphOrderingPrinciple, G`)
        alias, spoiled = {}, set()
        for st in walk_shallow(fi.node):
            if isinstance(st, ast.Assign) and len(st.targets) == 1:
                tg, vl = st.targets[0], st.value
                pairs_ = [(tg, vl)] if isinstance(tg, ast.Name) else (
                    list(zip(tg.elts, vl.elts)) if isinstance(tg, (ast.Tuple, ast.List)) and isinstance(vl, (ast.Tuple, ast.List)) and len(tg.elts) == len(vl.elts)
                    else [(e, None) for e in getattr(tg, "elts", [])])
                for a_, v_ in pairs_:
                    if not isinstance(a_, ast.Name):
                        continue
                    t_ = prog.resolve_global(fi.module, v_.id) if isinstance(v_, ast.Name) else None
                    if isinstance(t_, FuncInfo) and "formula_class" in t_.params:
                        alias.setdefault(a_.id, []).append(t_)
                    else:
                        spoiled.add(a_.id)
            elif isinstance(st, (ast.For, ast.comprehension)):
                spoiled |= {n.id for n in ast.walk(st.target) if isinstance(n, ast.Name)}
        for c in [x for x in walk_shallow(fi.node) if isinstance(x, ast.Call) and isinstance(x.func, ast.Name)]:
            if c.func.id in alias and c.func.id not in spoiled and c.func.id not in fi.params:
                for t in alias[c.func.id]:
                    calls.append((c, t))
                continue
            t = prog.resolve_global(fi.module, c.func.id)
            if isinstance(t, FuncInfo) and "formula_class" in t.params:
                calls.append((c, t))
        for c, t in calls:
            pairs.add((fi.key, t.key))
            passed = [k for k in c.keywords if k.arg == "formula_class"]
            pos = t.params.index("formula_class")
            positional = len(c.args) > pos and not t.node.args.vararg
            if (passed and src(passed[0].value) == "formula_class") or (positional and src(c.args[pos]) == "formula_class"):
                R.ok("CLASS-THREAD", "%s calls %s with formula_class=formula_class" % (fi.qualname, t.qualname), fi.key)
            else:
                R.bad(F("CLASS-THREAD", fi, "%s drops formula_class in %s(..)" % (fi.qualname, t.qualname),
                        "the helper receives the formula class of the tool but calls %s without it: pbgen builds a CNF for this family" % t.qualname, c))
        # helpers that build the formula themselves use the class given
        direct = [c for c in walk_shallow(fi.node) if isinstance(c, ast.Call) and isinstance(c.func, ast.Name) and c.func.id in ("CNF", "OPB")]
        for c in direct:
            R.bad(F("CLASS-THREAD", fi, "%s constructs %s directly" % (fi.qualname, c.func.id), "a helper must build through formula_class", c))
    R.floor("CLASS-THREAD (helper, generator) pairs", len(pairs), HELPER_PAIRS_FLOOR)


HELPER_PAIRS_FLOOR = 32        # distinct (command-line helper, generator it calls with formula_class) pairs confirmed by hand


def check_mro(R, prog):
    cnf = prog.cls("cnfgen.formula.cnf", "CNF")
    opb = prog.cls("cnfgen.formula.opb", "OPB")
    vm = prog.cls("cnfgen.formula.variables", "VariablesManager")
    for c in (cnf, opb):
        m = prog.mro(c)
        if len(m) > 1 and m[1] is vm:
            R.ok("MRO-SHARED", "%s: VariablesManager comes first among the bases" % c.name, c.key)
        else:
            R.bad(F("MRO-SHARED", None, "%s MRO" % c.name, "VariablesManager must precede the I/O and constraint bases; MRO is %s" % [x.name for x in m], module=c.module.name))
    n = 0
    for name in sorted(vm.methods):
        if name.startswith("__"):
            continue
        n += 1
        a, b = prog.lookup_method(cnf, name), prog.lookup_method(opb, name)
        if a is vm.methods[name] and b is vm.methods[name]:
            R.ok("MRO-SHARED", "%s resolves to VariablesManager for CNF and OPB" % name, vm.key, nontrivial=False)
        else:
            R.bad(F("MRO-SHARED", a if a is not vm.methods[name] else b, "override of %s" % name,
                    "`%s` is overridden below VariablesManager for %s: variables / names would differ between the two renderings"
                    % (name, "CNF" if a is not vm.methods[name] else "OPB")))
    R.floor("MRO-SHARED", n, 18)


def check_interface(R, prog):
    cnf = prog.cls("cnfgen.formula.cnf", "CNF")
    opb = prog.cls("cnfgen.formula.opb", "OPB")
    seen = {}
    for fi in list(family_generators(prog)) + list(helper_builders(prog)):
        fp = FunctionProvenance(prog, fi, seed={"formula_class": "FCLASS"})
        calls = list(fp.formula_calls)
        for sub in fp.sub.values():
            calls += sub.formula_calls
        for c, recv, rk, m in calls:
            if rk[1] not in ("param-class", "nested"):
                continue
            seen.setdefault(m, []).append((fi, c))
    n = 0
    for m, sites in sorted(seen.items()):
        n += len(sites)
        a, b = prog.lookup_method(cnf, m), prog.lookup_method(opb, m)
        if a is not None and b is not None:
            R.ok("INTERFACE-COMPLETE", "%s exists for CNF (%s) and OPB (%s); %d call sites" % (m, a.cls.name, b.cls.name, len(sites)), sites[0][0].key)
        else:
            fi, c = sites[0]
            R.bad(F("INTERFACE-COMPLETE", fi, "%s calls %s" % (fi.qualname, m),
                    "method `%s` is called on the family's formula but %s has no such method: the family works for one formula class only"
                    % (m, "OPB" if b is None else "CNF"), c))
    R.floor("INTERFACE-COMPLETE call sites", n, 100)


def check_add_clause(R, prog):
    for mod, cls, fld, meth in (("cnfgen.formula.basecnf", "BaseCNF", "_clauses", "add_clause"),
                                ("cnfgen.formula.baseopb", "BaseOPB", "_constraints", "add_clause"),
                                ("cnfgen.formula.baseopb", "BaseOPB", "_constraints", "add_constraint")):
        fi = prog.func(mod, cls + "." + meth)
        cfg = CFG(fi.node)
        apps = [s for s in stmts_in(fi.node) if isinstance(s, ast.Expr) and isinstance(s.value, ast.Call) and call_name(s.value) == "self.%s.append" % fld]
        nodes = [cfg.node_of(a) for a in apps]
        skip = cfg.reaches(cfg.entry, cfg.exit, avoid=nodes)
        if apps and not skip:
            R.ok("ADD-CLAUSE-SIBLING", "%s.%s stores the constraint on every path (the empty / trivial one included)" % (cls, meth), fi.key)
        else:
            R.bad(F("ADD-CLAUSE-SIBLING", fi, "%s.%s can drop a constraint" % (cls, meth),
                    "some path through %s returns without storing anything: a constraint one class records (an empty clause, `== 0`, ..) "
                    "the other drops, so the two renderings of a family differ" % meth))


def check_builders(R, prog):
    table = builder_table(prog)
    for name in NAMED:
        a, b = table[("cnf", name)], table[("opb", name)]
        if a is None or b is None:
            continue
        diff = None
        try:
            for n in range(0, 64):
                for v in range(-3, 9):
                    if a.normalised(n, v) != b.normalised(n, v):
                        diff = (n, v, a.normalised(n, v), b.normalised(n, v))
                        break
                if diff:
                    break
        except Unknown:
            R.unknown("THRESHOLD-SIBLING", name, b.fi.key, "threshold not foldable")
            continue
        if diff:
            R.bad(F("THRESHOLD-SIBLING", b.fi, name, "for %d literals (value %d) the CNF builder means `sum %s %d` and the OPB builder `sum %s %d`"
                    % (diff[0], diff[1], diff[2][0], diff[2][1], diff[3][0], diff[3][1]), b.call))
        else:
            R.ok("THRESHOLD-SIBLING", "CNFLinear.%s and BaseOPB.%s state the same constraint for every length" % (name, name), b.fi.key)
