"""Bounded folding of the variable groups of cnfgen/formula/variables.py through the object model of sa/objfold.py (C10, C11).

For every kind of group the manager can create, a few small instances are created by folding `VariablesManager.new_*` on a stand-in
formula that already owns some variables (and, for the edge groups, on stand-in graphs).  What is compared is the documentation of the
groups: the identifiers are the next fresh ones, consecutive, in the documented enumeration order of the indices; `g(*index)` and
`to_index` are inverse bijections between indices and identifiers; `label()` is aligned with `indices()`; a pattern with `None`
selects, in order, exactly the indices that agree with it; `len`, iteration and membership agree with the identifiers.

verdict(prog, kind) -> (True | False | None, detail);  CLASS_OF maps the classes / manager methods to the kinds that exercise them.
"""
import itertools

from ..fold import Raised
from ..objfold import World, Inst
from ..ql import Unknown
from .. import standins as S

MOD = "cnfgen.formula.variables"
GLOBALS = {k: getattr(S, k) for k in ("BaseBipartiteGraph", "BipartiteGraph", "CompleteBipartiteGraph", "Graph", "DirectedGraph")}


class Fm:
    def __init__(self, n):
        self.n = n

    def number_of_variables(self):
        return self.n

    def update_variable_number(self, v):
        self.n = max(self.n, v)


def _bip(L, R, edges):
    return S.BipartiteGraph.make(L, R, edges)


def instances(kind):
    """(constructor arguments, keyword arguments, expected indices in order, label format or None)"""
    if kind == "block":
        for dims in ((3,), (2, 3), (2, 1, 2), (0,), (2, 0)):
            yield list(dims), {"label": "x{}" + ",{}" * (len(dims) - 1)}, list(itertools.product(*[range(1, d + 1) for d in dims])), "x{}" + ",{}" * (len(dims) - 1), [(1, d) for d in dims]
    elif kind in ("combinations", "combinations_with_replacement", "permutations", "words"):
        fn = {"combinations": itertools.combinations, "combinations_with_replacement": itertools.combinations_with_replacement,
              "permutations": itertools.permutations, "words": lambda r, k: itertools.product(r, repeat=k)}[kind]
        for n, k in ((4, 2), (3, 3), (3, 1), (0, 1), (3, 2), (1, 2)):
            yield [n, k], {"label": "p<{}>"}, list(fn(range(1, n + 1), k)), ("joined", "p<{}>"), [(1, n)] * k
    elif kind in ("bipartite_edges", "sparse_mapping"):
        for L, R, edges in ((2, 3, [(1, 1), (1, 3), (2, 2)]), (3, 2, [(3, 1), (1, 2), (3, 2), (1, 1)]), (2, 2, []), (0, 0, []),
                            (3, 3, [(2, 1), (2, 2), (2, 3)])):
            yield [_bip(L, R, edges)], {"label": "e{},{}"}, sorted(edges), "e{},{}", [(1, L), (1, R)]
    elif kind == "graph_edges":
        for n, edges in ((4, [(1, 2), (2, 3), (1, 4)]), (3, [(1, 2), (1, 3), (2, 3)]), (3, []), (0, []), (5, [(4, 5), (2, 5), (1, 5)])):
            yield [S.Graph.make(n, edges)], {"label": "e{},{}"}, sorted(tuple(sorted(e)) for e in edges), "e{},{}", [(1, n), (1, n)]
    elif kind == "digraph_edges":
        for n, arcs in ((3, [(1, 2), (1, 3), (2, 3)]), (6, [(2, 1), (1, 3), (2, 6), (2, 3), (4, 3), (4, 2)]), (2, []), (3, [(3, 1), (1, 3), (2, 2)])):
            yield [S.DirectedGraph.make(n, arcs)], {"label": "a{},{}", "sortby": "pred"}, sorted(arcs), "a{},{}", [(1, n), (1, n)]
            yield [S.DirectedGraph.make(n, arcs)], {"label": "a{},{}", "sortby": "succ"}, sorted(arcs, key=lambda e: (e[1], e[0])), "a{},{}", [(1, n), (1, n)]
    elif kind == "mapping":
        for n, m in ((2, 3), (3, 1), (0, 2), (2, 0), (1, 1)):
            yield [n, m], {"label": "f{}={}"}, list(itertools.product(range(1, n + 1), range(1, m + 1))), "f{}={}", [(1, n), (1, m)]
    elif kind == "binary_mapping":
        for n, m in ((3, 5), (2, 4), (1, 1), (0, 3), (2, 2), (2, 0), (3, 8), (1, 9)):
            k = 0
            while 2 ** k < m:
                k += 1
            yield [n, m], {"label": "v{},{}"}, [(i, b) for i in range(1, n + 1) for b in range(k - 1, -1, -1)], "v{},{}", [(1, n), (0, k - 1)]


KINDS = ["block", "combinations", "combinations_with_replacement", "permutations", "words", "bipartite_edges", "sparse_mapping", "graph_edges",
         "digraph_edges", "mapping", "binary_mapping", "variable"]
CLASS_OF = {
    "BlockOfVariables": ["block"], "WordOfIndicesVariables": ["combinations", "combinations_with_replacement", "permutations", "words"],
    "BipartiteEdgesVariables": ["bipartite_edges", "sparse_mapping", "mapping", "digraph_edges"], "GraphEdgesVariables": ["graph_edges"],
    "DiGraphEdgesVariables": ["digraph_edges"], "UnaryMappingVariables": ["mapping", "sparse_mapping"],
    "BinaryMappingVariables": ["binary_mapping"], "SingletonVariableGroup": ["variable"],
    "BaseVariableGroup": [k for k in KINDS],
}
for _k in KINDS:
    CLASS_OF["VariablesManager.new_" + _k] = [_k]


def _tup(x):
    return tuple(x) if isinstance(x, (list, tuple)) else x


def check_group(g, n0, want, fmt, fm, what, patterns="product", domains=None):
    """-> None or a description of the disagreement.  patterns: how an index pattern with None selects -- "product" (position-wise
    agreement), "undirected" (the edges at the vertex named, by the other end point, either orientation), "exact" (no None allowed)"""
    joined = isinstance(fmt, tuple)
    if joined:
        raw = fmt[1]
        class _F:
            @staticmethod
            def format(*t):
                return raw.format(",".join(str(x) for x in t))
        fmt = _F
    N = len(want)
    ids = list(range(n0 + 1, n0 + N + 1))
    if fm.n != n0 + N:
        return "%s: the formula has %d variables afterwards; %d + %d expected" % (what, fm.n, n0, N)
    if not isinstance(g, Inst):
        return "%s does not return the group" % what
    if len(g) != N or list(g) != ids:
        return "%s: the group owns %s (len %s); the next fresh identifiers %s expected" % (what, list(g), len(g), ids)
    got_idx = [_tup(t) for t in g.indices()]
    if got_idx != [tuple(t) for t in want]:
        return "%s: indices() enumerates %s; the documented order is %s" % (what, got_idx, want)
    allids = list(g())
    if allids != ids:
        return "%s: g() gives %s; the identifiers in index order are %s" % (what, allids, ids)
    for pos, t in enumerate(want):
        v = g(*t)
        if v != ids[pos]:
            return "%s: g%s = %r; the variable at position %d of the enumeration is %d" % (what, tuple(t), v, pos + 1, ids[pos])
        back = _tup(g.to_index(ids[pos]))
        if back != tuple(t):
            return "%s: to_index(%d) = %r; %s expected" % (what, ids[pos], back, tuple(t))
        backn = _tup(g.to_index(-ids[pos]))
        if backn != tuple(t):
            return "%s: to_index(%d) = %r; the negative literal names the same variable, index %s" % (what, -ids[pos], backn, tuple(t))
        if (ids[pos] in g) is not True or (-ids[pos] in g) is not True:
            return "%s: the literals of variable %d are not reported as members of the group" % (what, ids[pos])
    if N and ((n0 in g and n0 > 0) or (n0 + N + 1) in g):
        return "%s: a variable outside the group is reported as a member" % what
    if fmt is not None:
        labs = list(g.label())
        if labs != [fmt.format(*t) for t in want]:
            return "%s: label() gives %s; aligned with indices() it must be %s" % (what, labs, [fmt.format(*t) for t in want])
        if N:
            one = g.label(*want[-1])
            if one != fmt.format(*want[-1]):
                return "%s: label%s = %r" % (what, tuple(want[-1]), one)
    # literals and indices outside the group are refused
    for lit in (0, n0, -n0, n0 + N + 1, -(n0 + N + 1)):
        if lit in ids or -lit in ids:
            continue
        try:
            r_ = g.to_index(lit)
        except Raised:
            continue
        return "%s: to_index(%d) returns %r although variable %d is not in the group (%s)" % (what, lit, r_, abs(lit), ids)
    if N and len(want[0]) >= 1:
        arity = len(want[0])
        legal = set(tuple(w) for w in want) | (set((b_, a_) for a_, b_ in want) if patterns == "undirected" else set())
        tried = set()
        for t in (want[0], want[-1]):
            for j in range(arity):
                lo, hi = domains[j] if domains else (min(w[j] for w in want), max(w[j] for w in want))
                for badv in (lo - 1, lo - 2, hi + 1, hi + 7):
                    cand = tuple(badv if i == j else x for i, x in enumerate(t))
                    if cand in legal or cand in tried:
                        continue
                    tried.add(cand)
                    try:
                        r_ = g(*cand)
                        r_ = list(r_) if not isinstance(r_, int) else r_
                    except Raised:
                        pass
                    else:
                        return "%s: g%s returns %r although %s is not an index of the group" % (what, cand, r_, cand)
                    if patterns == "exact" or arity < 2:
                        continue
                    # the illegal coordinate next to a wildcard
                    for j2 in range(arity):
                        if j2 == j:
                            continue
                        pat = tuple(None if i == j2 else x for i, x in enumerate(cand))
                        if all(p_ is None or (domains[i][0] <= p_ <= domains[i][1]) for i, p_ in enumerate(pat)):
                            continue          # every fixed coordinate is in its domain: the pattern is legal (it may select nothing)
                        if pat in tried:
                            continue
                        tried.add(pat)
                        for fn_name in ("__call__", "indices"):
                            try:
                                r_ = list(g(*pat)) if fn_name == "__call__" else list(g.indices(*pat))
                            except Raised:
                                continue
                            return "%s: %s%s returns %r although the coordinate %r is outside the domain" % (
                                what, "g" if fn_name == "__call__" else "indices", pat, r_, badv)
    if patterns == "undirected" and N:
        verts = sorted({x for e in want for x in e})
        for w in verts[:4]:
            sel = sorted((e for e in want if w in e), key=lambda e: e[0] if e[1] == w else e[1])
            for pat in ((None, w), (w, None)):
                gi = [_tup(x) for x in g.indices(*pat)]
                if gi != sel:
                    return "%s: indices%s gives %s; the edges at vertex %d are %s" % (what, pat, gi, w, sel)
                gv = list(g(*pat))
                if gv != [ids[want.index(e)] for e in sel]:
                    return "%s: g%s gives %s; the variables of the edges at vertex %d are %s" % (what, pat, gv, w, [ids[want.index(e)] for e in sel])
        for pos, (a_, b_) in enumerate(want):
            if g(b_, a_) != ids[pos]:
                return "%s: g(%d, %d) = %r; the edge {%d, %d} is variable %d in either orientation" % (what, b_, a_, g(b_, a_), a_, b_, ids[pos])
    # patterns with None
    if patterns == "product" and N and len(want[0]) >= 1:
        arity = len(want[0])
        samples = [want[0], want[-1], want[N // 2]]
        seen = set()
        for t in samples:
            for mask in itertools.product([False, True], repeat=arity):
                if not any(mask):
                    continue
                pat = tuple(None if m_ else x for m_, x in zip(mask, t))
                if pat in seen:
                    continue
                seen.add(pat)
                sel = [i for i, w in enumerate(want) if all(p_ is None or p_ == x for p_, x in zip(pat, w))]
                gi = [_tup(x) for x in g.indices(*pat)]
                if gi != [tuple(want[i]) for i in sel]:
                    return "%s: indices%s gives %s; the indices that agree with the pattern are %s" % (what, pat, gi, [want[i] for i in sel])
                gv = list(g(*pat))
                if gv != [ids[i] for i in sel]:
                    return "%s: g%s gives %s; the variables of the indices that agree with the pattern are %s" % (what, pat, gv, [ids[i] for i in sel])
    return None


def _verdict(prog, kind):
    cnt = 0
    if kind == "variable":
        for n0 in (0, 3):
            W = World(prog, MOD, GLOBALS)
            fm = Fm(n0)
            vm = W.new("VariablesManager", fm)
            a = vm.new_variable("A")
            b = vm.new_variable(label="B{}")
            c = vm.new_variable()
            if (a, b, c) != (n0 + 1, n0 + 2, n0 + 3) or fm.n != n0 + 3:
                return False, "new_variable on a formula with %d variables returns %r, %r, %r and leaves %d variables" % (n0, a, b, c, fm.n)
            labs = list(vm.all_variable_labels())
            if len(labs) != n0 + 3 or labs[n0] != "A" or labs[n0 + 1] != "B{}":
                return False, "after new_variable('A'), new_variable(label='B{}') the names are %s" % labs
            cnt += 1
        return True, "%d instances folded" % cnt
    for args, kw, want, fmt, domains in instances(kind):
        for n0 in (0, 4):
            W = World(prog, MOD, GLOBALS)
            fm = Fm(n0)
            vm = W.new("VariablesManager", fm)
            what = "new_%s(%s%s) on a formula with %d variables" % (kind, ", ".join(_show(a) for a in args),
                                                                    "".join(", %s=%r" % kv for kv in kw.items() if kv[0] != "label"), n0)
            try:
                g = getattr(vm, "new_" + kind)(*args, **kw)
                why = check_group(g, n0, want, fmt, fm, what, patterns={"graph_edges": "undirected", "combinations": "exact", "permutations": "exact",
                                                                       "combinations_with_replacement": "exact", "words": "exact"}.get(kind, "product"),
                                  domains=domains)
            except Raised as r:
                return False, "%s: %s is raised" % (what, r.cls)
            if why:
                return False, why
            if kind in ("mapping", "sparse_mapping"):
                if kind == "mapping":
                    dom, rng = list(range(1, args[0] + 1)), list(range(1, args[1] + 1))
                else:
                    dom, rng = list(range(1, args[0].left_order() + 1)), list(range(1, args[0].right_order() + 1))
                if list(g.domain()) != dom or list(g.range()) != rng:
                    return False, "%s: domain() / range() are %s / %s; %s / %s expected" % (what, list(g.domain()), list(g.range()), dom, rng)
                for u in dom:
                    if list(g.range(u)) != [v for (a_, v) in want if a_ == u]:
                        return False, "%s: range(%d) is %s" % (what, u, list(g.range(u)))
                for v in rng:
                    if list(g.domain(v)) != [a_ for (a_, b_) in want if b_ == v]:
                        return False, "%s: domain(%d) is %s" % (what, v, list(g.domain(v)))
            if kind == "binary_mapping":
                n, m = args
                k = 0
                while 2 ** k < m:
                    k += 1
                if g.bits() != k or list(g.domain()) != list(range(1, n + 1)) or list(g.range()) != list(range(0, m)):
                    return False, "%s: bits() = %r, domain() = %s, range() = %s; %d bits, 1..%d, 0..%d expected" % (
                        what, g.bits(), list(g.domain()), list(g.range()), k, n, m - 1)
                ids = list(g)
                for i in range(1, n + 1):
                    for j in range(0, m):
                        cl = list(g.forbid(i, j))
                        # the clause is falsified exactly when the bits of f(i) spell j (most significant bit first)
                        wantc = [(-1 if (j >> b) & 1 else 1) * ids[(i - 1) * k + (k - 1 - b)] for b in range(k - 1, -1, -1)]
                        if cl != wantc:
                            return False, "%s: forbid(%d, %d) = %s; the clause falsified exactly by f(%d) = %d is %s" % (what, i, j, cl, i, j, wantc)
            cnt += 1
    return True, "%d (parameters, starting count) instances folded through VariablesManager.new_%s" % (cnt, kind)


def _show(a):
    if isinstance(a, S.BipartiteGraph):
        return "B(%d,%d,%s)" % (a.L, a.R, a.edges())
    if isinstance(a, (S.Graph, S.DirectedGraph)):
        return "G(%d,%s)" % (a.n, a.edges())
    return repr(a)


_V = {}


def verdict(prog, kind):
    key = (id(prog), kind)
    if key not in _V:
        def compute():
            try:
                return _verdict(prog, kind)
            except Unknown as e:
                return (None, "cannot fold new_%s: %s" % (kind, e))
            except RecursionError:
                return (None, "recursion while folding new_%s" % kind)
        from ..vcache import cached
        _V[key] = cached("groups/%s" % kind, prog, [MOD, "cnfgen.localtypes", "cnfgen.graphs"], compute)
    return _V[key]


def verdict_for(prog, qualname):
    """combined verdict of the kinds that exercise the class / manager method a finding is about: True only if all of them are"""
    cls = qualname.split(".")[0]
    kinds = CLASS_OF.get(qualname) or CLASS_OF.get(cls)
    if not kinds:
        return (None, "no folding for %s" % qualname)
    vs = [verdict(prog, k) for k in kinds]
    if all(v[0] is True for v in vs):
        return (True, "; ".join("%s: %s" % (k, v[1]) for k, v in zip(kinds, vs))[:300])
    bad = [v for v in vs if v[0] is False]
    if bad:
        return bad[0]
    return [v for v in vs if v[0] is None][0]
