"""C14 -- graph files round-trip in every supported format; bad files are rejected."""
import ast

from ..loader import AnalysisError, walk_shallow
from ..cfg import CFG
from ..astutil import src, call_name, method_name, const, is_const, stmts_in
from ..callgraph import Resolver
from ..effects import Effects, ancestors, handler_types
from ..guards import constraints_when, has
from ..report import Result, Finding

P = "C14"
MOD = "cnfgen.graphs"
ALLOWED = {"ValueError", "OSError"}
READERS = ["_kthlist_parse", "_read_bipartite_kthlist", "_read_nonbipartite_kthlist", "_read_graph_dimacs_format",
           "_read_graph_matrix_format", "readGraph"]


def F(rule, fi, construct, msg, node=None, witness=None):
    return Finding(P, rule, fi, construct, msg, node=node, witness=witness)


def run(prog, tier):
    R = Result(P, "READER-TOTAL: exception classes leaving each in-house graph reader and readGraph through a definite trigger are within "
               "ValueError (+ OSError from open); external readers (networkx gml / dot) are wrapped: the classes the facts table lists for "
               "them, and the type refusal of normalize(), are caught and turned into ValueError.  DAG-GATE: every return of readGraph is "
               "dominated by the `dag and not is_dag() -> raise` test.  FORMAT-TABLE: supported_file_formats() of each graph class = formats "
               "with a reader branch = formats with a writer branch, with the same bipartite split.  KTH-SIBLING: both kthlist readers "
               "refuse non-increasing vertex lines and update the running vertex.  OFFSET-SIBLING: the bipartite kthlist writer shifts right "
               "vertices by the left order and the reader shifts back by its left count; the writer emits one line per left vertex "
               "unconditionally.  LABEL-ORDER: relabelling to 1..n orders numeric labels numerically also when they are strings.  "
               "WRITER-ROWS: dimacs / matrix writers state the true counts and one row per edge / left vertex.  Round-trip identity as such "
               "and the correctness of networkx's own parsers are not decided.")
    R.trust("networkx.read_gml raises NetworkXError on malformed text and returns Graph/DiGraph according to the file's `directed` flag",
            "networkx.nx_pydot.read_dot returns string node labels and signals malformed text with TypeError (per the repository's own comment)",
            "file.readlines() yields non-empty strings; str.strip() may return ''")
    res = Resolver(prog)
    eff = Effects(prog, res)
    # ROUND-TRIP: the in-house writers and readers folded over stand-in graphs and texts (sa/props/_graphio_fold.py); a shape finding
    # inside one of those functions is an undecided shape when the folding confirmed round trips and refusals
    from . import _graphio_fold as _gio
    from ._shared import merge_filtered
    rt = _gio.verdict(prog)
    anchor = prog.func("cnfgen.graphs", "readGraph")
    if rt[0] is True:
        R.ok("ROUND-TRIP", rt[1], anchor.key)
    elif rt[0] is False:
        R.bad(F("ROUND-TRIP", anchor, "kthlist / dimacs / matrix round trip", rt[1]))
    else:
        R.unknown("ROUND-TRIP", "kthlist / dimacs / matrix round trip", anchor.key, rt[1])
    R0, R = R, Result(P, "")
    check_reader_total(R, prog, eff)
    check_external_wrapped(R, prog)
    check_dag_gate(R, prog)
    check_format_table(R, prog)
    check_kth_sibling(R, prog)
    check_offsets(R, prog)
    check_label_order(R, prog)
    check_writers(R, prog)
    check_return_defined(R, prog)
    check_nodes_first(R, prog)
    merge_filtered(R0, R, lambda f: rt[1] if (rt[0] is True and f.module == "cnfgen.graphs" and (f.function or "").split(".")[0] in _gio.FUNCTIONS) else None)
    R = R0
    from ._families import borrow as _borrow
    from . import c16 as _c16
    _borrow(R, P, "GRAPH", prog, _c16.analyse, floor=100)
    # a token stream consumed by two loops (or by zip and a later loop) loses or skips entries of the file
    from ._shared import check_iterator_reuse
    check_iterator_reuse(R, prog, P, ['cnfgen.graphs'], 30)
    return R


def check_reader_total(R, prog, eff):
    n = 0
    for q in READERS:
        fi = prog.func(MOD, q)
        for cls, site in sorted(eff.escapes(fi).items()):
            n += 1
            ok = bool(set(ancestors(cls)) & ALLOWED)
            inst = "%s may raise %s (%s)" % (q, cls, site.what[:60])
            if ok:
                R.ok("READER-TOTAL", inst, site.where())
            elif not site.definite:
                R.unknown("READER-TOTAL", inst, site.where(), "indefinite trigger (type check / internal assertion)")
            else:
                R.bad(F("READER-TOTAL", fi, "%s lets %s escape" % (q, cls),
                        "reading a malformed file can end in %s instead of ValueError: %s" % (cls, site.what), site.node, witness=site.chain()))
    R.floor("READER-TOTAL", n, 10)


def check_external_wrapped(R, prog):
    """each external reader call in readGraph sits in a try whose handlers turn the classes the facts table lists into ValueError;
    the following normalize() (which refuses a graph of the wrong kind with TypeError -- input dependent) is covered too"""
    fi = prog.func(MOD, "readGraph")
    facts = {"networkx.read_gml": ["NetworkXError", "UnicodeEncodeError", "TypeError"],
             "networkx.nx_pydot.read_dot": ["TypeError"]}
    found = 0
    for t in [x for x in walk_shallow(fi.node) if isinstance(x, ast.Try)]:
        calls = [c for b in t.body for c in ast.walk(b) if isinstance(c, ast.Call) and call_name(c) in facts]
        if not calls:
            continue
        found += 1
        name = call_name(calls[0])
        norm = [c for b in t.body for c in ast.walk(b) if isinstance(c, ast.Call) and method_name(c) == "normalize"]
        caught = {}
        for h in t.handlers:
            rv = h.body and isinstance(h.body[0], ast.Raise) and "ValueError" in src(h.body[0])
            for ht in handler_types(h):
                caught[ht] = rv
        for cls in facts[name]:
            inst = "readGraph: %s from %s%s -> ValueError" % (cls, name, " / normalize()" if cls == "TypeError" else "")
            hit = [h for h in caught if h in ancestors(cls)]
            if hit and caught[hit[0]]:
                R.ok("READER-TOTAL", inst, fi.key)
            else:
                R.bad(F("READER-TOTAL", fi, "readGraph does not wrap %s of %s" % (cls, name.split(".")[-1]),
                        "%s raised while reading (%s%s) leaves readGraph unconverted; malformed input must end in ValueError"
                        % (cls, name, ", or by normalize() for a file of the other directedness" if cls == "TypeError" else ""), t))
        if not norm:
            R.bad(F("READER-TOTAL", fi, "normalize outside the try of %s" % name.split(".")[-1],
                    "the conversion normalize(G) of the graph read by %s must be inside the same try: it refuses graphs of the wrong kind" % name, t))
    R.floor("READER-TOTAL external readers", found, 2)


def check_dag_gate(R, prog):
    fi = prog.func(MOD, "readGraph")
    cfg = CFG(fi.node)
    stmts = stmts_in(fi.node)
    gate = None
    for s in stmts:
        if isinstance(s, ast.If) and s.body and isinstance(s.body[0], ast.Raise) and "is_dag()" in src(s.test) and "dag" in src(s.test):
            t = s.test
            if isinstance(t, ast.BoolOp) and isinstance(t.op, ast.And) and src(t.values[0]) in ("%s == 'dag'" % fi.params[1],) and \
                    src(t.values[1]).startswith("not ") and src(t.values[1]).endswith(".is_dag()"):
                gate = s
    if gate is None:
        R.bad(F("DAG-GATE", fi, "acyclicity test", "no `if graph_type == 'dag' and not G.is_dag(): raise ValueError` found"))
        return
    gvar = src(gate.test.values[1])[4:-9]
    rets = [s for s in stmts if isinstance(s, ast.Return) and s.value is not None and src(s.value) == gvar]
    if not rets:
        raise AnalysisError("readGraph: no `return %s`" % gvar)
    for r in rets:
        if cfg.edge_dominates(cfg.node_of(gate), False, cfg.node_of(r)):
            R.ok("DAG-GATE", "return %s (line %d) is dominated by the acyclicity test" % (gvar, r.lineno), fi.key)
        else:
            R.bad(F("DAG-GATE", fi, "return without acyclicity test", "a graph can be returned for graph_type 'dag' without passing the "
                    "`not is_dag()` refusal", r))
    # no mutation of G between the gate and the return
    # recursion for file names goes through the same function (covered by the inner call)
    other = [s for s in stmts if isinstance(s, ast.Return) and s not in rets and s.value is not None]
    for r in other:
        if isinstance(r.value, ast.Call) and call_name(r.value) == "readGraph" and src(r.value.args[1]) == fi.params[1]:
            R.ok("DAG-GATE", "the file-name form re-enters readGraph with the same graph_type", fi.key, nontrivial=False)
        else:
            R.bad(F("DAG-GATE", fi, "unchecked return", "`%s` bypasses the acyclicity test" % src(r), r))


def dispatch_formats(fi, var="file_format", typevar="graph_type"):
    """formats with a branch in readGraph/writeGraph: {(format, 'bip'|'nonbip'|'any')}"""
    out = set()
    for s in stmts_in(fi.node):
        if isinstance(s, ast.If):
            t = s.test
            parts = t.values if isinstance(t, ast.BoolOp) and isinstance(t.op, ast.And) else [t]
            fmt = side = None
            for p in parts:
                if isinstance(p, ast.Compare) and len(p.ops) == 1 and src(p.left) == var and isinstance(p.ops[0], ast.Eq):
                    fmt = const(p.comparators[0])
                if isinstance(p, ast.Compare) and len(p.ops) == 1 and src(p.left) == typevar and const(p.comparators[0]) == "bipartite":
                    side = "bip" if isinstance(p.ops[0], ast.Eq) else "nonbip"
            if fmt:
                out.add((fmt, side or "any"))
    return out


EXPECTED_FORMATS = {("dimacs", "any"), ("dot", "any"), ("gml", "any"), ("kthlist", "bip"), ("kthlist", "nonbip"), ("matrix", "any")}


def semantic_write_dispatch(prog):
    """fold writeGraph for every (graph type, file format) pair over recording stand-ins for the six writers: each pair must reach the
    writer of its format (the bipartite kthlist writer exactly for bipartite graphs), an unknown format must raise RuntimeError"""
    import types
    from ..fold import Folder, Raised
    from ..ql import Unknown
    fi = prog.func(MOD, "writeGraph")
    want = {"kthlist": None, "dimacs": "_write_graph_dimacs_format", "matrix": "_write_graph_matrix_format", "dot": "write_dot", "gml": "write_gml"}
    n = 0
    for gtype in ("simple", "digraph", "dag", "bipartite"):
        for fmt in ("kthlist", "dimacs", "matrix", "dot", "gml", "bogus"):
            calls = []

            def rec(name):
                return lambda *a, **k: calls.append(name)
            g = {k: rec(k) for k in ("_write_graph_kthlist_nonbipartite", "_write_graph_kthlist_bipartite", "_write_graph_dimacs_format",
                                     "_write_graph_matrix_format")}
            g["_process_graph_io_arguments"] = lambda iofile, graph_type, file_format, multi: (graph_type, file_format)
            g["networkx"] = types.SimpleNamespace(nx_pydot=types.SimpleNamespace(write_dot=rec("write_dot")), write_gml=rec("write_gml"))
            g["io"] = types.SimpleNamespace(BytesIO=lambda: types.SimpleNamespace(getvalue=lambda: b""))
            g["print"] = lambda *a, **k: None
            G = types.SimpleNamespace(to_networkx=lambda: "nx")
            g["BaseGraph"] = types.SimpleNamespace     # (the entry check `isinstance(G, BaseGraph)` accepts the stand-in)
            f = Folder(env={}, fuel=20000)
            f.globals = g
            try:
                f.call_function(fi.node, [G, types.SimpleNamespace(write=lambda t: None), gtype, fmt], {})
                got = list(calls)
            except Raised as r:
                got = "raises " + r.cls.split("(")[0]
            except Unknown as e:
                return None, "cannot fold writeGraph: %s" % e
            exp = ["_write_graph_kthlist_bipartite" if gtype == "bipartite" else "_write_graph_kthlist_nonbipartite"] if fmt == "kthlist" else \
                ([want[fmt]] if fmt in want else "raises RuntimeError")
            if got != exp:
                return False, "writeGraph(G, file, %r, %r) reaches %s; the format's writer is %s" % (gtype, fmt, got, exp)
            n += 1
    return True, "%d (graph type, format) pairs folded: each reaches the writer of its format, an unknown format is an internal error" % n


def check_format_table(R, prog):
    rd, wr = prog.func(MOD, "readGraph"), prog.func(MOD, "writeGraph")
    r, w = dispatch_formats(rd), dispatch_formats(wr)
    if r != w and r == EXPECTED_FORMATS:
        sem = semantic_write_dispatch(prog)
        if sem[0] is True:
            R.ok("FORMAT-TABLE", "writeGraph: %s" % sem[1], wr.key)
            R.unknown("FORMAT-TABLE", "writeGraph dispatch", wr.key,
                      "shape not recognised (no comparison chain on the format); the meaning of the fragment was confirmed by folding: " + sem[1])
            w = r
        elif sem[0] is False:
            R.bad(F("FORMAT-TABLE", wr, "writeGraph dispatch", sem[1]))
            w = r
    if r == w:
        R.ok("FORMAT-TABLE", "readGraph and writeGraph have branches for the same (format, side) pairs: %s" % sorted(r), rd.key)
    else:
        R.bad(F("FORMAT-TABLE", wr, "reader / writer branches differ", "formats read: %s; formats written: %s" % (sorted(r), sorted(w))))
    for cname, side in (("Graph", "nonbip"), ("DirectedGraph", "nonbip"), ("BipartiteGraph", "bip")):
        fi = prog.func(MOD, cname + ".supported_file_formats")
        lists = [n for n in ast.walk(fi.node) if isinstance(n, ast.List)]
        declared = set()
        for l in lists:
            declared |= {const(e) for e in l.elts}
        handled = {f for f, s in r if s in (side, "any")}
        # formats reachable for this side but not declared are fine only if the argument check refuses them -- which it does by this table
        if declared <= handled:
            R.ok("FORMAT-TABLE", "%s declares %s, all with a reader and a writer branch" % (cname, sorted(declared)), fi.key)
        else:
            R.bad(F("FORMAT-TABLE", fi, "%s declares formats without a branch" % cname,
                    "declared %s but reader/writer branches for this graph type exist only for %s" % (sorted(declared), sorted(handled))))
        # the dot format is offered exactly when the dot library is present
        tests = [s for s in stmts_in(fi.node) if isinstance(s, ast.If) and src(s.test) == "has_dot_library()"]
        if tests:
            a = {const(e) for x in tests[0].body for l in ast.walk(x) if isinstance(l, ast.List) for e in l.elts}
            b = {const(e) for x in tests[0].orelse for l in ast.walk(x) if isinstance(l, ast.List) for e in l.elts}
            if a - b == {"dot"} and b <= a:
                R.ok("FORMAT-TABLE", "%s: 'dot' offered only when pydot is importable" % cname, fi.key, nontrivial=False)
            else:
                R.bad(F("FORMAT-TABLE", fi, "%s dot availability" % cname, "the two format lists must differ exactly by 'dot'"))
    # validation of the arguments refuses everything else
    pa = prog.func(MOD, "_process_graph_io_arguments")
    txt = src(pa.node)
    if "file_format not in grtype.supported_file_formats()" in txt and "extension not in grtype.supported_file_formats()" in txt:
        R.ok("FORMAT-TABLE", "explicit and auto-detected formats are checked against supported_file_formats() of the graph class", pa.key)
    else:
        R.bad(F("FORMAT-TABLE", pa, "format validation", "the requested / detected format must be refused unless the graph class supports it"))


def check_kth_sibling(R, prog):
    for q, first in (("_read_bipartite_kthlist", "left"), ("_read_nonbipartite_kthlist", "succ")):
        fi = prog.func(MOD, q)
        loops = [s for s in fi.node.body if isinstance(s, ast.For) and src(s.iter) == "parser"]
        if not loops:
            from . import _graphio_fold as _gio
            rt = _gio.verdict(prog)
            if rt[0] is True:              # (the ordering refusals are among the damaged texts the folding feeds the readers)
                R.unknown("KTH-SIBLING", "%s ordering check" % q, fi.key,
                          "shape not recognised (loop over the parsed lines not found); the meaning of the fragment was confirmed by folding: " + rt[1])
                continue
            raise AnalysisError("%s: loop over the parsed lines not found" % q)
        lp = loops[0]
        v = src(lp.target.elts[0])
        guard = [s for s in lp.body if isinstance(s, ast.If) and s.body and isinstance(s.body[0], ast.Raise) and
                 src(s.test) in ("%s <= previous" % v, "previous >= %s" % v)]
        upd = [s for s in lp.body if isinstance(s, ast.Assign) and src(s.targets[0]) == "previous" and src(s.value) == v]
        init = [s for s in fi.node.body if isinstance(s, ast.Assign) and src(s.targets[0]) == "previous" and is_const(s.value, 0)]
        if guard and upd and init and lp.body.index(guard[0]) < lp.body.index(upd[0]):
            R.ok("KTH-SIBLING", "%s: a vertex line not larger than the previous one is refused, and the running vertex is updated" % q, fi.key)
        else:
            R.bad(F("KTH-SIBLING", fi, "%s ordering check" % q,
                    "vertex lines must be strictly increasing: `if %s <= previous: raise` followed by `previous = %s` in every iteration "
                    "(without the update the check is dead: a repeated vertex silently replaces its earlier line)" % (v, v), lp))
    kp = prog.func(MOD, "_kthlist_parse")
    txt = [src(s) for s in stmts_in(kp.node)]
    tests = [src(s.test) for s in stmts_in(kp.node) if isinstance(s, ast.If) and s.body and isinstance(s.body[0], ast.Raise)]
    need = {"size >= 0": "a second size line", "len(right) < 1 or right[-1] != 0": "a line not ending in 0",
            "left < 1 or left > size": "a vertex outside 1..size", "len([x for x in right if x < 1 or x > size]) > 0": "a neighbour outside 1..size"}
    for t, what in need.items():
        if t in tests:
            R.ok("KTH-SIBLING", "_kthlist_parse refuses %s" % what, kp.key)
        else:
            R.bad(F("KTH-SIBLING", kp, "_kthlist_parse: %s" % what, "the line parser must refuse %s with ValueError" % what))


def check_offsets(R, prog):
    w = prog.func(MOD, "_write_graph_kthlist_bipartite")
    r = prog.func(MOD, "_read_bipartite_kthlist")
    wt = [src(s) for s in stmts_in(w.node)]
    loop = [s for s in w.node.body if isinstance(s, ast.For) and src(s.iter) == "U"]
    w_ok = "U, _ = G.parts()" in wt and "offset = len(U)" in wt and loop and \
        any("' ' + str(v + offset) for v in G.right_neighbors(%s)" % src(loop[0].target) in t for t in wt)
    r_ok = any(isinstance(s, ast.For) and "G.add_edge(u, v - L)" in src(s) for s in r.node.body) and \
        "L = bipartition_ambiguous[0] - 1" in [src(s) for s in r.node.body]
    if w_ok and r_ok:
        R.ok("OFFSET-SIBLING", "bipartite kthlist: writer adds the left order to right vertices, reader subtracts its left count", w.key)
    else:
        R.bad(F("OFFSET-SIBLING", w if not w_ok else r, "bipartite kthlist offsets",
                "right vertex v must be written as v + |left| and read back as value - |left| (both sides must use the LEFT part size)"))
    # one line per left vertex, unconditionally (the reader infers the left side from the lines present)
    if loop and all(isinstance(x, ast.Expr) for x in loop[0].body) and any("str(%s) + ' :'" % src(loop[0].target) in src(x) for x in loop[0].body) \
            and any("' 0\\n'" in src(x) for x in loop[0].body):
        R.ok("OFFSET-SIBLING", "bipartite kthlist writer: one `u : ... 0` line for every left vertex, isolated ones included", w.key)
    else:
        R.bad(F("OFFSET-SIBLING", w, "bipartite kthlist rows", "every left vertex needs its own line (also when it has no neighbours): the reader "
                "infers the left/right split from the vertices that own a line", loop[0] if loop else None))
    hdr = "print('{}'.format(G.order()), file=output_file)" in wt
    if hdr:
        R.ok("OFFSET-SIBLING", "bipartite kthlist writer: size line = total number of vertices", w.key)
    else:
        R.bad(F("OFFSET-SIBLING", w, "bipartite kthlist size line", "the size line must be the total number of vertices G.order()"))
    wn = prog.func(MOD, "_write_graph_kthlist_nonbipartite")
    wt = [src(s) for s in stmts_in(wn.node)]
    loopn = [s for s in wn.node.body if isinstance(s, ast.For) and src(s.iter) == "G.vertices()"]
    pred = any(isinstance(s, ast.If) and src(s.test) == "G.is_directed()" and "nbors = G.predecessors(v)" in [src(x) for x in s.body]
               and "nbors = G.neighbors(v)" in [src(x) for x in s.orelse] for s in stmts_in(wn.node))
    rn = prog.func(MOD, "_read_nonbipartite_kthlist")
    radd = any("G.add_edge(v, succ)" in src(s) for s in rn.node.body)
    if loopn and pred and radd:
        R.ok("OFFSET-SIBLING", "kthlist: writer lists predecessors (neighbours) of each vertex, reader adds edge (listed, vertex)", wn.key)
    else:
        R.bad(F("OFFSET-SIBLING", wn, "kthlist orientation", "a line `v : p1 p2 .. 0` lists the predecessors of v; the reader must add p -> v"))


def check_label_order(R, prog):
    fi = prog.func(MOD, "normalize_networkx_labels")
    calls = [c for c in ast.walk(fi.node) if isinstance(c, ast.Call)]
    native = [c for c in calls if (call_name(c) or "").endswith("convert_node_labels_to_integers") and
              any(k.arg == "ordering" and const(k.value) == "sorted" for k in c.keywords)]
    keyed = [c for c in calls if call_name(c) == "sorted" and any(k.arg == "key" for k in c.keywords)]
    numeric_key = False
    for c in keyed:
        k = [x.value for x in c.keywords if x.arg == "key"][0]
        kf = prog.find_func(MOD, src(k)) if isinstance(k, ast.Name) else None
        body = src(kf.node) if kf is not None else src(k)
        if "int(" in body:
            numeric_key = True
    if native and not numeric_key:
        R.bad(F("LABEL-ORDER", fi, "native sort of vertex labels",
                "vertices are renumbered in the native sort order of their labels; labels read from dot files are strings, so '10' sorts "
                "before '2' and a graph with ten or more vertices comes back with other edges", native[0]))
    elif numeric_key:
        R.ok("LABEL-ORDER", "relabelling sorts numeric labels numerically, whether int or str (dot labels)", fi.key)
    else:
        R.unknown("LABEL-ORDER", "normalize_networkx_labels", fi.key, "ordering not recognised")
    fb = any(isinstance(t, ast.Try) and any("TypeError" in handler_types(h) for h in t.handlers) for t in ast.walk(fi.node))
    if fb:
        R.ok("LABEL-ORDER", "unsortable mixed labels fall back to the graph's own node order", fi.key, nontrivial=False)
    for cname in ("Graph", "DirectedGraph"):
        f2 = prog.func(MOD, cname + ".from_networkx")
        if any(call_name(c) == "normalize_networkx_labels" for c in ast.walk(f2.node) if isinstance(c, ast.Call)):
            R.ok("LABEL-ORDER", "%s.from_networkx renumbers through normalize_networkx_labels" % cname, f2.key, nontrivial=False)


def check_writers(R, prog):
    w = prog.func(MOD, "_write_graph_dimacs_format")
    txt = [src(s) for s in stmts_in(w.node)]
    ok = "n = G.number_of_vertices()" in txt and "m = G.number_of_edges()" in txt and \
        "print('p edge {} {}'.format(n, m), file=output_file)" in txt and \
        any(isinstance(s, ast.For) and src(s.iter) == "G.edges()" and [src(x) for x in s.body] == ["print('e {} {}'.format(v, w), file=output_file)"]
            and src(s.target) == "(v, w)" for s in w.node.body)
    if ok:
        R.ok("WRITER-ROWS", "dimacs graph writer: `p edge n m` with the true counts, one `e v w` line per listed edge", w.key)
    else:
        R.bad(F("WRITER-ROWS", w, "dimacs graph writer", "expected `p edge <number_of_vertices> <number_of_edges>` and one `e v w` per edge of G.edges()"))
    r = prog.func(MOD, "_read_graph_dimacs_format")
    rt = [src(s) for s in stmts_in(r.node)]
    if any(isinstance(s, ast.If) and src(s.test) == "m != m_cnt" and isinstance(s.body[0], ast.Raise) for s in r.node.body) and \
            "m_cnt += 1" in rt and "_, fmt, nstr, mstr = l.split()" in rt and "_, v, w = l.split()" in rt:
        R.ok("WRITER-ROWS", "dimacs graph reader: 4-token problem line, 3-token edge lines, edge count compared with the declared one", r.key)
    else:
        R.bad(F("WRITER-ROWS", r, "dimacs graph reader", "the reader must count `e` lines and refuse a count different from the declared one"))
    w = prog.func(MOD, "_write_graph_matrix_format")
    txt = [src(s) for s in stmts_in(w.node)]
    ok = "print('{} {}'.format(G.left_order(), G.right_order()), file=output_file)" in txt and "L, R = G.parts()" in txt and \
        any(isinstance(s, ast.For) and src(s.iter) == "L" for s in w.node.body) and "if G.has_edge(u, v):" in src(w.node)
    if ok:
        R.ok("WRITER-ROWS", "matrix writer: header (left, right) and one 0/1 row per left vertex over all right vertices", w.key)
    else:
        R.bad(F("WRITER-ROWS", w, "matrix writer", "expected header `<left> <right>` and a row of has_edge(u, v) flags for every left vertex"))
    r = prog.func(MOD, "_read_graph_matrix_format")
    rt = src(r.node)
    if "for i in range(1, n + 1):" in rt and "for j in range(1, m + 1):" in rt and "G.add_edge(i, j)" in rt and "There are more than" in rt:
        R.ok("WRITER-ROWS", "matrix reader: exactly n*m entries, entry (i,j)=1 adds edge (i,j), surplus entries refused", r.key)
    else:
        R.bad(F("WRITER-ROWS", r, "matrix reader", "the reader must consume exactly n*m 0/1 entries row by row and refuse surplus data"))


def check_return_defined(R, prog):
    """RETURN-DEFINED: a reader hands back a graph, never None.  For `return X` with X initialised to None, every path to the return
    either assigns X a constructed object, or passes a raising test that fires while X is still None: `if X is None: raise`, or the
    count sentinel idiom `if a != b: raise` where `a` starts from a negative constant and is set only where X is, and `b` is a counter
    that starts at 0 and only grows -- so `a != b` holds as long as the specification line was not seen.  (With a sentinel of 0 a file
    without specification line and without edges passes the test and None is returned; the caller then fails with AttributeError.)"""
    m = prog.modules[MOD]
    n = 0
    for q, fi in sorted(m.functions.items()):
        if not q.startswith("_read_") or "<locals>" in q:
            continue
        stmts = stmts_in(fi.node)
        cfg = CFG(fi.node)
        inits = {}
        for st in fi.node.body:
            if isinstance(st, ast.Assign) and len(st.targets) == 1 and isinstance(st.targets[0], ast.Name):
                inits.setdefault(st.targets[0].id, st.value)
        for ret in [x for x in stmts if isinstance(x, ast.Return) and isinstance(x.value, ast.Name)]:
            X = ret.value.id
            if not (X in inits and isinstance(inits[X], ast.Constant) and inits[X].value is None):
                continue
            n += 1
            rn = cfg.node_of(ret)
            assigns = [st for st in stmts if isinstance(st, ast.Assign) and any(isinstance(t, ast.Name) and t.id == X for t in st.targets)
                       and not (isinstance(st.value, ast.Constant) and st.value.value is None)]
            an = [cfg.node_of(a) for a in assigns if cfg.node_of(a) is not None]
            inst = "%s returns %s" % (q, X)
            if not cfg.reaches(cfg.entry, rn, avoid=an):
                R.ok("RETURN-DEFINED", inst + ": assigned on every path", fi.key)
                continue
            ok = False
            why = "some path reaches `return %s` with %s still None" % (X, X)
            for g in [st for st in stmts if isinstance(st, ast.If) and st.body and isinstance(st.body[-1], ast.Raise)]:
                gn = cfg.node_of(g)
                if gn is None or not cfg.dominates(gn, rn):
                    continue
                t = g.test
                if isinstance(t, ast.Compare) and len(t.ops) == 1 and isinstance(t.ops[0], ast.Is) and src(t.left) == X and src(t.comparators[0]) == "None":
                    ok = True
                    break
                if isinstance(t, ast.UnaryOp) and isinstance(t.op, ast.Not) and src(t.operand) == X:
                    ok = True
                    break
                if isinstance(t, ast.Compare) and len(t.ops) == 1 and isinstance(t.ops[0], ast.NotEq) and \
                        isinstance(t.left, ast.Name) and isinstance(t.comparators[0], ast.Name):
                    for a, b in ((t.left.id, t.comparators[0].id), (t.comparators[0].id, t.left.id)):
                        ia, ib = inits.get(a), inits.get(b)
                        a_sets = [st for st in stmts if isinstance(st, ast.Assign) and any(isinstance(x, ast.Name) and x.id == a for x in st.targets) and st is not None
                                  and st not in fi.node.body]
                        b_changes = [st for st in stmts if (isinstance(st, (ast.Assign, ast.AugAssign)) and
                                                            any(isinstance(x, ast.Name) and x.id == b for x in ([st.target] if isinstance(st, ast.AugAssign) else st.targets)))
                                     and st not in fi.node.body]
                        counter = ib is not None and const(ib) == 0 and b_changes and all(
                            isinstance(st, ast.AugAssign) and isinstance(st.op, ast.Add) and isinstance(const(st.value), int) and const(st.value) > 0 for st in b_changes)
                        # `a` is set only together with X (same block as an assignment of X)
                        together = a_sets and all(any(cfg.node_of(x) is not None and cfg.node_of(s2) is not None and
                                                      cfg.dominates(cfg.node_of(s2), cfg.node_of(x)) or cfg.dominates(cfg.node_of(x), cfg.node_of(s2))
                                                      for x in assigns) for s2 in a_sets)
                        if counter and together and ia is not None:
                            va = const(ia) if not (isinstance(ia, ast.UnaryOp) and isinstance(ia.op, ast.USub)) else -const(ia.operand)
                            if isinstance(va, int) and va < 0:
                                ok = True
                            else:
                                why = ("the count test `%s` is what refuses a file without specification line, but `%s` starts at %s, a value the "
                                       "counter `%s` (from 0, only growing) can equal: with no specification line and %s edge lines the test "
                                       "passes and None is returned" % (src(t), a, src(ia), b, src(ia)))
                    if ok:
                        break
            if ok:
                R.ok("RETURN-DEFINED", inst + ": a raising test fires while it is still None", fi.key)
            else:
                R.bad(F("RETURN-DEFINED", fi, "%s can return None" % q, why, ret))
    R.floor("RETURN-DEFINED", n, 1)


def check_nodes_first(R, prog):
    """NODES-FIRST: every to_networkx creates the nodes 1..n (for bipartite graphs: the left side, then the right side) before any edge.
    networkx numbers nodes in order of first appearance and the readers / from_networkx number vertices in that order: an edge added
    first moves its end points to the front and the graph that is read back is numbered differently."""
    n = 0
    for cname, ci in sorted(prog.module("cnfgen.graphs").classes.items()):
        fi = ci.methods.get("to_networkx")
        if fi is None:
            continue
        calls = [c for c in ast.walk(fi.node) if isinstance(c, ast.Call) and isinstance(c.func, ast.Attribute) and
                 (c.func.attr in ("add_nodes_from", "add_node", "add_edges_from", "add_edge", "add_weighted_edges_from", "update") or
                  (c.func.attr in ("Graph", "DiGraph", "MultiGraph", "MultiDiGraph", "from_edgelist", "from_dict_of_lists") and (c.args or c.keywords)))]
        if not calls:
            continue          # (abstract base: raises NotImplementedError)
        n += 1
        calls.sort(key=lambda c: (c.lineno, c.col_offset))
        # (a networkx graph constructed from data starts with the nodes in the order that data mentions them)
        kinds = ["node" if c.func.attr.startswith("add_node") else "edge" for c in calls]
        first_edge = kinds.index("edge") if "edge" in kinds else len(kinds)
        in_loop = any(isinstance(p_, (ast.For, ast.While)) and any(x is calls[0] for x in ast.walk(p_)) and
                      any(c is not calls[0] and any(x is c for x in ast.walk(p_)) for c in calls) for p_ in ast.walk(fi.node))
        if "node" in kinds and "node" not in kinds[first_edge:] and not in_loop:
            R.ok("NODES-FIRST", "%s.to_networkx creates all nodes before the first edge" % cname, fi.key)
        else:
            R.bad(F("NODES-FIRST", fi, "%s.to_networkx adds an edge before all nodes exist" % cname,
                    "`%s` comes before `%s`: networkx keeps nodes in order of first appearance, so the vertices of the written graph are "
                    "renumbered by the order in which the edges mention them" % (src(calls[first_edge])[:50] if first_edge < len(calls) else "?",
                                                                               src([c for c, k in zip(calls, kinds) if k == "node"][-1])[:50] if "node" in kinds else "add_nodes_from"),
                    calls[first_edge] if first_edge < len(calls) else None))
    R.floor("NODES-FIRST", n, 3)
