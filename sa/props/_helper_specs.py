"""Command line helpers: the library call each one makes, in the normal form of sa/schema.py.

One entry per helper class: the set of (quantifiers, guards on the parsed options, `return`, expression) emissions of its
build_formula / transform_cnf.  Transcribed from the helpers and reviewed against the usage texts of the sub-commands and the
signatures of the generators; compared by rule HELPER-SCHEMA of C17 (and, restricted to their helpers, C01-C03).
"""

HELPER_SPECS = {
    ('cnfgen.clihelpers.counting_helpers', 'CountingCmdHelper'): [
        # : return(CountingPrinciple(args.M, args.p, formula_class=formula_class))
        ((), (), 'return', ('CountingPrinciple(args.M, args.p, formula_class=formula_class)',)),
    ],
    ('cnfgen.clihelpers.counting_helpers', 'PMatchingCmdHelper'): [
        # : return(PerfectMatchingPrinciple(args.G, formula_class=formula_class))
        ((), (), 'return', ('PerfectMatchingPrinciple(args.G, formula_class=formula_class)',)),
    ],
    ('cnfgen.clihelpers.counting_helpers', 'ParityCmdHelper'): [
        # : return(CountingPrinciple(args.N, 2, formula_class=formula_class))
        ((), (), 'return', ('CountingPrinciple(args.N, 2, formula_class=formula_class)',)),
    ],
    ('cnfgen.clihelpers.counting_helpers', 'SCCmdHelper'): [
        # : return(SubsetCardinalityFormula({if hasattr(args, 'N'): N = args.N, d = args.d, _it = make_graph_from_spec('bipartite', ['regular', args.N, args.N, args.d, 'addedges', 1]) else: if hasattr(args, 'B'): _it = args.B}, args.equal, formula_class=formula_class))
        ((), (), 'return', ("SubsetCardinalityFormula({if hasattr(args, 'N'): N = args.N, d = args.d, _it = make_graph_from_spec('bipartite', ['regular', args.N, args.N, args.d, 'addedges', 1]) else: if hasattr(args, 'B'): _it = args.B}, args.equal, formula_class=formula_class)",)),
    ],
    ('cnfgen.clihelpers.counting_helpers', 'TseitinCmdHelper'): [
        # : return(TseitinFormula({if not hasattr(args, 'G'): N = args.N, d = args.d, if args.N <= args.d: raise ValueError, if 1 == args.N * args.d % 2: raise ValueError, _it = make_graph_from_spec('simple', ['gnd', args.N, args.d]), _v0 = [random.randint(0, 1) for c0 in range(_it.order() - 1)], _v0.append(1 - sum(_v0) % 2) else: _it = args.G}, {if not hasattr(args, 'G'): N = args.N, d = args.d, if args.N 
        ((), (), 'return', ("TseitinFormula({if not hasattr(args, 'G'): N = args.N, d = args.d, if args.N <= args.d: raise ValueError, if 1 == args.N * args.d % 2: raise ValueError, _it = make_graph_from_spec('simple', ['gnd', args.N, args.d]), _v0 = [random.randint(0, 1) for c0 in range(_it.order() - 1)], _v0.append(1 - sum(_v0) % 2) else: _it = args.G}, {if not hasattr(args, 'G'): N = args.N, d = args.d, if args.N <= args.d: raise ValueError, if 1 == args.N * args.d % 2: raise ValueError, _v0 = make_graph_from_spec('simple', ['gnd', args.N, args.d]), _it = [random.randint(0, 1) for c0 in range(_v0.order() - 1)], _it.append(1 - sum(_it) % 2) else: _v0 = args.G; if _v0.order() < 1: _it = None else: if not hasattr(args, 'charge'): pass else: if 'first' == args.charge: _it = [1] + [0] * (_v0.order() - 1) else: if 'zero' == args.charge: _it = [0] * _v0.order() else: if 'one' == args.charge: _it = [1] * _v0.order() else: _it = [random.randint(0, 1) for c0 in range(_v0.order() - 1)], parity = sum(_it) % 2, if 'random' == args.charge: _it.append(random.randint(0, 1)) else: if 'randomodd' == args.charge: _it.append(1 - sum(_it) % 2) else: if 'randomeven' == args.charge: _it.append(sum(_it) % 2) else: raise ValueError}, formula_class=formula_class)",)),
    ],
    ('cnfgen.clihelpers.cpls_helpers', 'CPLSCmdHelper'): [
        # : return(CPLSFormula(args.a, args.b, args.c, formula_class=formula_class))
        ((), (), 'return', ('CPLSFormula(args.a, args.b, args.c, formula_class=formula_class)',)),
    ],
    ('cnfgen.clihelpers.dimacs_helpers', 'DimacsCmdHelper'): [
        # : return(from_dimacs_file(formula_class, args.input))
        ((), (), 'return', ('from_dimacs_file(formula_class, args.input)',)),
    ],
    ('cnfgen.clihelpers.graph_helpers', 'BinaryKCliqueCmdHelper'): [
        # : return(BinaryCliqueFormula(args.G, args.k, formula_class=formula_class))
        ((), (), 'return', ('BinaryCliqueFormula(args.G, args.k, formula_class=formula_class)',)),
    ],
    ('cnfgen.clihelpers.graph_helpers', 'DominatingSetCmdHelper'): [
        # : return(DominatingSet(args.G, args.d, alternative=args.alternative, formula_class=formula_class))
        ((), (), 'return', ('DominatingSet(args.G, args.d, alternative=args.alternative, formula_class=formula_class)',)),
    ],
    ('cnfgen.clihelpers.graph_helpers', 'ECCmdHelper'): [
        # : return(EvenColoringFormula(args.G, formula_class=formula_class))
        ((), (), 'return', ('EvenColoringFormula(args.G, formula_class=formula_class)',)),
    ],
    ('cnfgen.clihelpers.graph_helpers', 'GIsoCmdHelper'): [
        #  if args.G2 is not None: return(GraphIsomorphism(args.G, args.G2, formula_class=formula_class))
        ((), ('args.G2 is not None',), 'return', ('GraphIsomorphism(args.G, args.G2, formula_class=formula_class)',)),
        #  if args.G2 is None: return(GraphAutomorphism(args.G, formula_class=formula_class))
        ((), ('args.G2 is None',), 'return', ('GraphAutomorphism(args.G, formula_class=formula_class)',)),
    ],
    ('cnfgen.clihelpers.graph_helpers', 'KCliqueCmdHelper'): [
        # : return(CliqueFormula(args.G, args.k, args.symmetrybreaking, formula_class=formula_class))
        ((), (), 'return', ('CliqueFormula(args.G, args.k, args.symmetrybreaking, formula_class=formula_class)',)),
    ],
    ('cnfgen.clihelpers.graph_helpers', 'KColorCmdHelper'): [
        # : return(GraphColoringFormula(args.G, args.k, formula_class=formula_class))
        ((), (), 'return', ('GraphColoringFormula(args.G, args.k, formula_class=formula_class)',)),
    ],
    ('cnfgen.clihelpers.graph_helpers', 'RWCmdHelper'): [
        # : return(RamseyWitnessFormula(args.G, args.k, args.s, formula_class=formula_class))
        ((), (), 'return', ('RamseyWitnessFormula(args.G, args.k, args.s, formula_class=formula_class)',)),
    ],
    ('cnfgen.clihelpers.graph_helpers', 'SubGraphCmdHelper'): [
        # : return(SubgraphFormula(args.G, args.H, induced=False, symbreak=False, formula_class=formula_class))
        ((), (), 'return', ('SubgraphFormula(args.G, args.H, induced=False, symbreak=False, formula_class=formula_class)',)),
    ],
    ('cnfgen.clihelpers.graph_helpers', 'TilingCmdHelper'): [
        # : return(Tiling(args.G, formula_class=formula_class))
        ((), (), 'return', ('Tiling(args.G, formula_class=formula_class)',)),
    ],
    ('cnfgen.clihelpers.ordering_helpers', 'OPCmdHelper'): [
        #  if hasattr(args, 'G'): return(GraphOrderingPrinciple(args.G, args.total, args.smart, args.plant, args.knuth, formula_class=formula_class))
        ((), ("hasattr(args, 'G')",), 'return', ('GraphOrderingPrinciple(args.G, args.total, args.smart, args.plant, args.knuth, formula_class=formula_class)',)),
        #  if args.d is not None and hasattr(args, 'd') and not hasattr(args, 'G'): return(GraphOrderingPrinciple(make_graph_from_spec('simple', ['gnd', args.N, args.d]), args.total, args.smart, args.plant, args.knuth, formula_class=formula_class))
        ((), ('args.d is not None', "hasattr(args, 'd')", "not hasattr(args, 'G')"), 'return', ("GraphOrderingPrinciple(make_graph_from_spec('simple', ['gnd', args.N, args.d]), args.total, args.smart, args.plant, args.knuth, formula_class=formula_class)",)),
        #  if (args.d is None or not hasattr(args, 'd')) and not hasattr(args, 'G'): return(OrderingPrinciple(args.N, args.total, args.smart, args.plant, args.knuth, formula_class=formula_class))
        ((), ("(args.d is None or not hasattr(args, 'd'))", "not hasattr(args, 'G')"), 'return', ('OrderingPrinciple(args.N, args.total, args.smart, args.plant, args.knuth, formula_class=formula_class)',)),
    ],
    ('cnfgen.clihelpers.pebbling_helpers', 'PebblingCmdHelper'): [
        # : return(PebblingFormula(args.D, formula_class=formula_class))
        ((), (), 'return', ('PebblingFormula(args.D, formula_class=formula_class)',)),
    ],
    ('cnfgen.clihelpers.pebbling_helpers', 'StoneCmdHelper'): [
        #  if args.sparse is not None and hasattr(args, 'sparse'): return(SparseStoneFormula(args.D, bipartite_random_left_regular(args.D.order(), args.s, args.sparse), formula_class=formula_class))
        ((), ('args.sparse is not None', "hasattr(args, 'sparse')"), 'return', ('SparseStoneFormula(args.D, bipartite_random_left_regular(args.D.order(), args.s, args.sparse), formula_class=formula_class)',)),
        #  if (args.sparse is None or not hasattr(args, 'sparse')): return(StoneFormula(args.D, args.s, formula_class=formula_class))
        ((), ("(args.sparse is None or not hasattr(args, 'sparse'))",), 'return', ('StoneFormula(args.D, args.s, formula_class=formula_class)',)),
    ],
    ('cnfgen.clihelpers.php_helpers', 'BPHPCmdHelper'): [
        # : return(BinaryPigeonholePrinciple(args.M, args.N, formula_class=formula_class))
        ((), (), 'return', ('BinaryPigeonholePrinciple(args.M, args.N, formula_class=formula_class)',)),
    ],
    ('cnfgen.clihelpers.php_helpers', 'CliqueColoringCmdHelper'): [
        # : return(CliqueColoring(args.n, args.k, args.c, formula_class=formula_class))
        ((), (), 'return', ('CliqueColoring(args.n, args.k, args.c, formula_class=formula_class)',)),
    ],
    ('cnfgen.clihelpers.php_helpers', 'PHPCmdHelper'): [
        #  if args.B is not None and hasattr(args, 'B'): return(GraphPigeonholePrinciple(args.B, functional=args.functional, onto=args.onto, formula_class=formula_class))
        ((), ('args.B is not None', "hasattr(args, 'B')"), 'return', ('GraphPigeonholePrinciple(args.B, functional=args.functional, onto=args.onto, formula_class=formula_class)',)),
        #  if (args.B is None or not hasattr(args, 'B')) and args.degree == args.holes: return(PigeonholePrinciple(args.pigeons, args.holes, functional=args.functional, onto=args.onto, formula_class=formula_class))
        ((), ("(args.B is None or not hasattr(args, 'B'))", 'args.degree == args.holes'), 'return', ('PigeonholePrinciple(args.pigeons, args.holes, functional=args.functional, onto=args.onto, formula_class=formula_class)',)),
        #  if (args.B is None or not hasattr(args, 'B')) and args.degree != args.holes: return(GraphPigeonholePrinciple(bipartite_random_left_regular(args.pigeons, args.holes, args.degree), functional=args.functional, onto=args.onto, formula_class=formula_class))
        ((), ("(args.B is None or not hasattr(args, 'B'))", 'args.degree != args.holes'), 'return', ('GraphPigeonholePrinciple(bipartite_random_left_regular(args.pigeons, args.holes, args.degree), functional=args.functional, onto=args.onto, formula_class=formula_class)',)),
    ],
    ('cnfgen.clihelpers.php_helpers', 'PTNCmdHelper'): [
        # : return(PythagoreanTriples(args.N, formula_class=formula_class))
        ((), (), 'return', ('PythagoreanTriples(args.N, formula_class=formula_class)',)),
    ],
    ('cnfgen.clihelpers.php_helpers', 'RPHPCmdHelper'): [
        # : return(RelativizedPigeonholePrinciple(args.pigeons, args.resting_places, args.holes, formula_class=formula_class))
        ((), (), 'return', ('RelativizedPigeonholePrinciple(args.pigeons, args.resting_places, args.holes, formula_class=formula_class)',)),
    ],
    ('cnfgen.clihelpers.php_helpers', 'RamseyCmdHelper'): [
        # : return(RamseyNumber(args.s, args.k, args.N, formula_class=formula_class))
        ((), (), 'return', ('RamseyNumber(args.s, args.k, args.N, formula_class=formula_class)',)),
    ],
    ('cnfgen.clihelpers.php_helpers', 'VDWCmdHelper'): [
        # : return(VanDerWaerden(args.N, args.k1, args.k2, *args.ks, formula_class=formula_class))
        ((), (), 'return', ('VanDerWaerden(args.N, args.k1, args.k2, *args.ks, formula_class=formula_class)',)),
    ],
    ('cnfgen.clihelpers.pitfall_helpers', 'PitfallCmdHelper'): [
        # : return(PitfallFormula(args.v, args.d, args.ny, args.nz, args.k, formula_class=formula_class))
        ((), (), 'return', ('PitfallFormula(args.v, args.d, args.ny, args.nz, args.k, formula_class=formula_class)',)),
    ],
    ('cnfgen.clihelpers.simple_helpers', 'AND'): [
        # : g1 = new_block(args.P)
        ((), (), 'g1 = new_block', ('args.P',)),
        # : g0 = new_block(args.N)
        ((), (), 'g0 = new_block', ('args.N',)),
        # : add_clauses_from([[c0] for c0 in g1])
        ((), (), 'add_clauses_from', ('[[c0] for c0 in g1]',)),
        # : add_clauses_from([[-c0] for c0 in g0])
        ((), (), 'add_clauses_from', ('[[-c0] for c0 in g0]',)),
        # : return(F)
        ((), (), 'return', ('F',)),
    ],
    ('cnfgen.clihelpers.simple_helpers', 'FALSE'): [
        # : add_clause([])
        ((), (), 'add_clause', ('[]',)),
        # : return(F)
        ((), (), 'return', ('F',)),
    ],
    ('cnfgen.clihelpers.simple_helpers', 'OR'): [
        # : g1 = new_block(args.P)
        ((), (), 'g1 = new_block', ('args.P',)),
        # : g0 = new_block(args.N)
        ((), (), 'g0 = new_block', ('args.N',)),
        # : add_clause([-c0 for c0 in g0] + g1)
        ((), (), 'add_clause', ('[-c0 for c0 in g0] + g1',)),
        # : return(F)
        ((), (), 'return', ('F',)),
    ],
    ('cnfgen.clihelpers.simple_helpers', 'RandCmdHelper'): [
        #  if args.plant: return(RandomKCNF(args.k, args.n, args.m, planted_assignments=[[random.choice([-1, 1]) * c0 for c0 in range(1, args.n + 1)]], formula_class=formula_class))
        ((), ('args.plant',), 'return', ('RandomKCNF(args.k, args.n, args.m, planted_assignments=[[random.choice([-1, 1]) * c0 for c0 in range(1, args.n + 1)]], formula_class=formula_class)',)),
        #  if not args.plant: return(RandomKCNF(args.k, args.n, args.m, formula_class=formula_class))
        ((), ('not args.plant',), 'return', ('RandomKCNF(args.k, args.n, args.m, formula_class=formula_class)',)),
    ],
    ('cnfgen.clihelpers.simple_helpers', 'RandXorHelper'): [
        #  if args.plant: return(RandomKXOR(args.k, args.n, args.m, planted_assignments=[[random.choice([-1, 1]) * c0 for c0 in range(1, args.n + 1)]], formula_class=formula_class))
        ((), ('args.plant',), 'return', ('RandomKXOR(args.k, args.n, args.m, planted_assignments=[[random.choice([-1, 1]) * c0 for c0 in range(1, args.n + 1)]], formula_class=formula_class)',)),
        #  if not args.plant: return(RandomKXOR(args.k, args.n, args.m, formula_class=formula_class))
        ((), ('not args.plant',), 'return', ('RandomKXOR(args.k, args.n, args.m, formula_class=formula_class)',)),
    ],
    ('cnfgen.clihelpers.simple_helpers', 'TRUE'): [
        # : return(formula_class(description='Formula with no clauses'))
        ((), (), 'return', ("formula_class(description='Formula with no clauses')",)),
    ],
    ('cnfgen.clihelpers.transformation_helpers', 'AllEqualsSubstitutionCmd'): [
        # : return(AllEqualSubstitution(F, args.N))
        ((), (), 'return', ('AllEqualSubstitution(F, args.N)',)),
    ],
    ('cnfgen.clihelpers.transformation_helpers', 'AnythingButKSubstitutionCmd'): [
        # : return(AnythingButKSubstitution(F, args.N, args.K))
        ((), (), 'return', ('AnythingButKSubstitution(F, args.N, args.K)',)),
    ],
    ('cnfgen.clihelpers.transformation_helpers', 'AtLeastKSubstitutionCmd'): [
        # : return(AtLeastKSubstitution(F, args.N, args.K))
        ((), (), 'return', ('AtLeastKSubstitution(F, args.N, args.K)',)),
    ],
    ('cnfgen.clihelpers.transformation_helpers', 'AtMostKSubstitutionCmd'): [
        # : return(AtMostKSubstitution(F, args.N, args.K))
        ((), (), 'return', ('AtMostKSubstitution(F, args.N, args.K)',)),
    ],
    ('cnfgen.clihelpers.transformation_helpers', 'ExactlyKSubstitutionCmd'): [
        # : return(ExactlyKSubstitution(F, args.N, args.K))
        ((), (), 'return', ('ExactlyKSubstitution(F, args.N, args.K)',)),
    ],
    ('cnfgen.clihelpers.transformation_helpers', 'ExactlyOneSubstitutionCmd'): [
        # : return(ExactlyOneSubstitution(F, args.N))
        ((), (), 'return', ('ExactlyOneSubstitution(F, args.N)',)),
    ],
    ('cnfgen.clihelpers.transformation_helpers', 'FlipCmd'): [
        # : return(FlipPolarity(F))
        ((), (), 'return', ('FlipPolarity(F)',)),
    ],
    ('cnfgen.clihelpers.transformation_helpers', 'FormulaLiftingCmd'): [
        # : return(FormulaLifting(F, args.k))
        ((), (), 'return', ('FormulaLifting(F, args.k)',)),
    ],
    ('cnfgen.clihelpers.transformation_helpers', 'IfThenElseSubstitutionCmd'): [
        # : return(IfThenElseSubstitution(F))
        ((), (), 'return', ('IfThenElseSubstitution(F)',)),
    ],
    ('cnfgen.clihelpers.transformation_helpers', 'MajCompressionCmd'): [
        # : return(VariableCompression(F, {if hasattr(args, 'N'): N = args.N, d = args.d, V = len(F.variables()), _it = make_graph_from_spec('bipartite', ['glrd', len(F.variables()), args.N, args.d]) else: if hasattr(args, 'B'): _it = args.B}, function='maj'))
        ((), (), 'return', ("VariableCompression(F, {if hasattr(args, 'N'): N = args.N, d = args.d, V = len(F.variables()), _it = make_graph_from_spec('bipartite', ['glrd', len(F.variables()), args.N, args.d]) else: if hasattr(args, 'B'): _it = args.B}, function='maj')",)),
    ],
    ('cnfgen.clihelpers.transformation_helpers', 'MajSubstitution'): [
        # : return(MajoritySubstitution(F, args.N))
        ((), (), 'return', ('MajoritySubstitution(F, args.N)',)),
    ],
    ('cnfgen.clihelpers.transformation_helpers', 'NeqSubstitutionCmd'): [
        # : return(NotAllEqualSubstitution(F, args.N))
        ((), (), 'return', ('NotAllEqualSubstitution(F, args.N)',)),
    ],
    ('cnfgen.clihelpers.transformation_helpers', 'NoSubstitutionCmd'): [
        # : return(F)
        ((), (), 'return', ('F',)),
    ],
    ('cnfgen.clihelpers.transformation_helpers', 'OrSubstitutionCmd'): [
        # : return(OrSubstitution(F, args.N))
        ((), (), 'return', ('OrSubstitution(F, args.N)',)),
    ],
    ('cnfgen.clihelpers.transformation_helpers', 'ShuffleCmd'): [
        # : return(Shuffle(F, polarity_flips='fixed' if args.no_polarity_flips else 'shuffle', variables_permutation='fixed' if args.no_variables_permutation else 'shuffle', clauses_permutation='fixed' if args.no_clauses_permutation else 'shuffle'))
        ((), (), 'return', ("Shuffle(F, polarity_flips='fixed' if args.no_polarity_flips else 'shuffle', variables_permutation='fixed' if args.no_variables_permutation else 'shuffle', clauses_permutation='fixed' if args.no_clauses_permutation else 'shuffle')",)),
    ],
    ('cnfgen.clihelpers.transformation_helpers', 'XorCompressionCmd'): [
        # : return(VariableCompression(F, {if hasattr(args, 'N'): N = args.N, d = args.d, V = len(F.variables()), _it = make_graph_from_spec('bipartite', ['glrd', len(F.variables()), args.N, args.d]) else: if hasattr(args, 'B'): _it = args.B}, function='xor'))
        ((), (), 'return', ("VariableCompression(F, {if hasattr(args, 'N'): N = args.N, d = args.d, V = len(F.variables()), _it = make_graph_from_spec('bipartite', ['glrd', len(F.variables()), args.N, args.d]) else: if hasattr(args, 'B'): _it = args.B}, function='xor')",)),
    ],
    ('cnfgen.clihelpers.transformation_helpers', 'XorSubstitutionCmd'): [
        # : return(XorSubstitution(F, args.N))
        ((), (), 'return', ('XorSubstitution(F, args.N)',)),
    ],
}
