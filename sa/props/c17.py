"""C17 -- a command line builds the same formula as the library call it stands for."""
import ast

from ..loader import AnalysisError, walk_shallow, FuncInfo, ClassInfo
from ..cfg import CFG
from ..astutil import src, call_name, method_name, const, is_const, stmts_in, kwarg
from ..report import Result, Finding
from . import c08

P = "C17"
GLOBAL_DESTS = {"output", "output_format", "seed", "verbose", "varnames", "generator", "transformation", "input"}


def F(rule, fi, construct, msg, node=None):
    return Finding(P, rule, fi, construct, msg, node=node)


def run(prog, tier):
    R = Result(P, "DEST-AGREE: per helper, the set of argparse destinations declared (incl. the inner parsers of compose_two_parsers / PHPArgs "
               "and attributes set by its actions) covers every attribute the builder reads, and every declared *option* is read.  "
               "ARG-ROLE: a value args.X handed positionally to a generator parameter P is reported when X is the name of another parameter "
               "of that generator or when args.P exists and is not the one handed over (swap detection); keyword arguments name existing "
               "parameters and carry the attribute of the same name; flag options reach the parameter of the same meaning.  CLASS-THREAD "
               "(shared with C08).  CHAIN-ORDER: the command line is split at -T left to right, transformations are parsed and applied in "
               "that order threading the formula, and the last result is what is written.  TOOL-SIBLING: kthlist2pebbling and `peb` build "
               "PebblingFormula on a `dag` read by the same reader.  OUTPUT-OPTIONS: quiet/verbose and varnames reach the writer flags.  "
               "Equality of outputs for every option subset is not decided.")
    helpers = collect_helpers(prog)
    check_dest_agree(R, prog, helpers)
    check_arg_role(R, prog, helpers)
    check_helper_schema(R, prog, helpers)
    check_optional_object(R, prog, helpers)
    check_action_defaults(R, prog, helpers)
    R2 = Result(P, "")
    c08.check_class_thread(R2, prog)
    for o in R2.obligations:
        if "calls" in o["instance"] or "drops" in o["instance"]:
            R.obligations.append(o)
    for f in R2.findings:
        if "drops formula_class" in f.construct or "constructs" in f.construct:
            g = Finding(P, "CLASS-THREAD", None, f.construct, f.message, module=f.module, line=f.line)
            g.function, g.file = f.function, f.file
            R.findings.append(g)
    check_chain_order(R, prog)
    check_tool_sibling(R, prog)
    check_output_options(R, prog)
    from ._families import borrow as _borrow
    from . import c15 as _c15
    _borrow(R, P, "GRAPH-ARG", prog, _c15.check_save_last, floor=1)
    return R


# ---------------------------------------------------------------------------- helpers table
def dest_of(call):
    """destination name of an add_argument call"""
    d = kwarg(call, "dest")
    if d is not None and isinstance(const(d), str):
        return const(d)
    names = [const(a) for a in call.args if isinstance(const(a), str)]
    if not names:
        return None
    longs = [n for n in names if n.startswith("--")]
    if longs:
        return longs[0][2:].replace("-", "_")
    if names[0].startswith("-"):
        return names[0].lstrip("-").replace("-", "_")
    return names[0]


def is_option(call):
    names = [const(a) for a in call.args if isinstance(const(a), str)]
    return bool(names) and names[0].startswith("-")


def collect_helpers(prog):
    out = []
    for base_mod, base_cls, method in (("cnfgen.clihelpers.formula_helpers", "FormulaHelper", "build_formula"),
                                       ("cnfgen.clihelpers.transformation_helpers", "TransformationHelper", "transform_cnf")):
        base = prog.cls(base_mod, base_cls)
        for c in prog.subclasses(base):
            setup = c.methods.get("setup_command_line")
            build = c.methods.get(method)
            if setup is None or build is None:
                continue
            out.append((c, setup, build))
    return out


def declared_dests(prog, ci, setup):
    """{dest: (call, is_option)} incl. inner parsers and attributes set by custom actions of this helper"""
    decl = {}
    actions = []
    for c in [x for x in walk_shallow(setup.node) if isinstance(x, ast.Call) and method_name(x) == "add_argument"]:
        d = dest_of(c)
        if d:
            decl[d] = (c, is_option(c))
        act = kwarg(c, "action")
        if act is not None and not isinstance(const(act), str):
            r = prog.resolve_expr(setup.module, act)
            if isinstance(r, ClassInfo):
                actions.append(r)
    for a in actions:
        call = prog.lookup_method(a, "__call__")
        if call is None:
            continue
        nsparam = call.params[2] if len(call.params) > 2 else None
        for x in ast.walk(call.node):
            # `namespace.dest = value` is the same as setattr(namespace, 'dest', value)
            if isinstance(x, ast.Attribute) and isinstance(x.ctx, ast.Store) and isinstance(x.value, ast.Name) and x.value.id == nsparam:
                decl.setdefault(x.attr, (x, False))
        for c in [x for x in ast.walk(call.node) if isinstance(x, ast.Call)]:
            if call_name(c) == "setattr" and len(c.args) >= 2 and isinstance(const(c.args[1]), str):
                decl.setdefault(const(c.args[1]), (c, False))
            elif call_name(c) == "setattr" and len(c.args) >= 2 and isinstance(c.args[1], ast.Name):
                # `for name, value in (("pigeons", p), ("holes", h)): setattr(ns, name, value)`: the names a literal table runs over
                for name in _loop_constants(call.node, c.args[1].id):
                    decl.setdefault(name, (c, False))
            if method_name(c) == "add_argument":
                d = dest_of(c)
                if d:
                    decl.setdefault(d, (c, is_option(c)))
    return decl


def _loop_constants(fnode, var):
    """the string constants variable ``var`` takes when it is bound only as (a component of) the target of `for` loops over literal
    tuples / lists; [] when it is bound in any other way"""
    out, other = [], False
    for n in ast.walk(fnode):
        if isinstance(n, ast.For):
            t = n.target
            idx = None
            if isinstance(t, ast.Name) and t.id == var:
                idx = -1
            elif isinstance(t, (ast.Tuple, ast.List)):
                for i, e in enumerate(t.elts):
                    if isinstance(e, ast.Name) and e.id == var:
                        idx = i
            if idx is None:
                continue
            if not isinstance(n.iter, (ast.Tuple, ast.List)):
                return []
            for row in n.iter.elts:
                cell = row if idx == -1 else (row.elts[idx] if isinstance(row, (ast.Tuple, ast.List)) and idx < len(row.elts) else None)
                if cell is None or not isinstance(const(cell), str):
                    return []
                out.append(const(cell))
        elif isinstance(n, ast.Name) and n.id == var and isinstance(n.ctx, ast.Store):
            other = True
    # (the Store occurrences inside the loop targets were counted as "other" too: subtract them)
    targets = sum(1 for n in ast.walk(fnode) if isinstance(n, ast.For) for e in ast.walk(n.target) if isinstance(e, ast.Name) and e.id == var)
    stores = sum(1 for n in ast.walk(fnode) if isinstance(n, ast.Name) and n.id == var and isinstance(n.ctx, ast.Store))
    return out if stores == targets else []


def reads_of(build, prog=None):
    """attribute names read from the args parameter: args.X and hasattr(args, 'X'); with ``prog``, also what the functions of the
    package read from it when the whole namespace is handed to them (`helper(args)`, `self._pick(args)`), three calls deep"""
    from ..loader import FuncInfo
    ap = build.params[0] if build.name == "build_formula" else build.params[1]
    reads = {}

    def scan(fi, pname, depth):
        for n in walk_shallow(fi.node):
            if isinstance(n, ast.Attribute) and isinstance(n.value, ast.Name) and n.value.id == pname:
                reads.setdefault(n.attr, n)
            if isinstance(n, ast.Call) and call_name(n) in ("hasattr", "getattr") and len(n.args) >= 2 and src(n.args[0]) == pname and isinstance(const(n.args[1]), str):
                reads.setdefault(const(n.args[1]), n)
            if prog is not None and depth < 3 and isinstance(n, ast.Call):
                callee, shift = None, 0
                if isinstance(n.func, ast.Name):
                    r = prog.resolve_global(fi.module, n.func.id)
                    callee = r if isinstance(r, FuncInfo) else None
                elif isinstance(n.func, ast.Attribute) and isinstance(n.func.value, ast.Name) and n.func.value.id in ("self", "cls") and fi.cls is not None:
                    r = prog.lookup_method(fi.cls, n.func.attr)
                    callee, shift = (r, 1) if isinstance(r, FuncInfo) else (None, 0)
                if callee is None or callee is fi:
                    continue
                cps = callee.params
                for i, a_ in enumerate(n.args):
                    if isinstance(a_, ast.Name) and a_.id == pname and i + shift < len(cps):
                        scan(callee, cps[i + shift], depth + 1)
                for k in n.keywords:
                    if k.arg in cps and isinstance(k.value, ast.Name) and k.value.id == pname:
                        scan(callee, k.arg, depth + 1)
    scan(build, ap, 0)
    return ap, reads


def check_dest_agree(R, prog, helpers):
    n = 0
    for ci, setup, build in sorted(helpers, key=lambda h: h[0].name):
        decl = declared_dests(prog, ci, setup)
        ap, reads = reads_of(build, prog)
        n += len(decl)
        for name, node in sorted(reads.items()):
            inst = "%s reads %s.%s" % (ci.name, ap, name)
            if name in decl or name in GLOBAL_DESTS:
                R.ok("DEST-AGREE", inst + " (declared)", build.key)
            else:
                R.bad(F("DEST-AGREE", build, inst,
                        "the builder reads attribute `%s` but the sub-command declares only %s: the value is never set (hasattr is always "
                        "false / AttributeError), so the corresponding argument has no effect" % (name, sorted(decl)), node))
        for name, (call, opt) in sorted(decl.items()):
            if opt and name not in reads and name not in ("help",):
                R.bad(F("DEST-AGREE", setup, "%s declares option `%s` that is never read" % (ci.name, name),
                        "option %s stores into `%s`, which the builder never reads: the option is accepted and ignored"
                        % ([const(a) for a in call.args], name), call))
            elif opt:
                R.ok("DEST-AGREE", "%s option -> %s is read by the builder" % (ci.name, name), setup.key)
    R.floor("DEST-AGREE declared dests", n, 100)


def check_arg_role(R, prog, helpers):
    n = 0
    for ci, setup, build in sorted(helpers, key=lambda h: h[0].name):
        ap, reads = reads_of(build)
        decl = declared_dests(prog, ci, setup)
        for c in [x for x in walk_shallow(build.node) if isinstance(x, ast.Call) and isinstance(x.func, ast.Name)]:
            t = prog.resolve_global(build.module, c.func.id)
            if not isinstance(t, FuncInfo) or not (t.module.name.startswith("cnfgen.families") or t.module.name.startswith("cnfgen.transformations")):
                continue
            params = t.params
            for i, a in enumerate(c.args):
                if isinstance(a, ast.Starred) or i >= len(params):
                    continue
                pname = params[i]
                if isinstance(a, ast.Attribute) and isinstance(a.value, ast.Name) and a.value.id == ap:
                    n += 1
                    x = a.attr
                    inst = "%s: %s(.. %s=%s.%s ..)" % (ci.name, t.qualname, pname, ap, x)
                    if x != pname and x in params:
                        R.bad(F("ARG-ROLE", build, inst,
                                "`%s.%s` is passed in the position of parameter `%s`, but `%s` is itself a parameter of %s: the two options "
                                "are swapped" % (ap, x, pname, x, t.qualname), c))
                    elif x != pname and pname in decl and pname in reads:
                        R.bad(F("ARG-ROLE", build, inst,
                                "parameter `%s` receives `%s.%s` although the command line has its own `%s`" % (pname, ap, x, pname), c))
                    else:
                        R.ok("ARG-ROLE", inst, build.key, nontrivial=x != pname)
            for k in c.keywords:
                if k.arg is None:
                    continue
                n += 1
                inst = "%s: %s(%s=%s)" % (ci.name, t.qualname, k.arg, src(k.value)[:30])
                if k.arg not in params and not t.node.args.kwarg:
                    R.bad(F("ARG-ROLE", build, inst, "%s has no parameter `%s`" % (t.qualname, k.arg), c))
                elif isinstance(k.value, ast.Attribute) and isinstance(k.value.value, ast.Name) and k.value.value.id == ap and \
                        k.value.attr != k.arg and k.value.attr in params:
                    R.bad(F("ARG-ROLE", build, inst, "parameter `%s` receives the option `%s`, which names another parameter of %s: swapped"
                            % (k.arg, k.value.attr, t.qualname), c))
                else:
                    R.ok("ARG-ROLE", inst, build.key, nontrivial=False)
    R.floor("ARG-ROLE", n, 80)


# ---------------------------------------------------------------------------- chain order
def semantic_parse_command_line(prog):
    """fold parse_command_line on argument vectors with 0..3 `-T` chunks: the formula parser gets chunk 0 without the program name, the
    transformation parser gets chunks 1.. one by one in command line order, and the results come back in that order"""
    import types
    from ..fold import Folder, Raised
    from ..ql import Unknown
    pc = prog.func("cnfgen.clitools.cnfgen", "parse_command_line")
    samples = [["cnfgen", "php", "3"], ["cnfgen", "php", "3", "-T", "xor", "2"], ["cnfgen", "op", "4", "-T", "xor", "2", "-T", "shuffle"],
               ["cnfgen", "-q", "tseitin", "5", "-T", "shuffle", "-v", "-T", "flip", "-T", "or", "3"], ["cnfgen"], ["cnfgen", "-T", "flip"],
               ["cnfgen", "php", "3", "-T"], ["cnfgen", "php", "3", "-T", "-T", "flip"]]
    for argv in samples:
        chunks = [[]]
        for a in argv:
            if a == "-T":
                chunks.append([])
            else:
                chunks[-1].append(a)
        want_calls = [("F", tuple(chunks[0][1:]))] + [("T", tuple(c)) for c in chunks[1:]]
        calls = []
        fp, tp = types.SimpleNamespace(tag="F"), types.SimpleNamespace(tag="T")

        class Sink(dict):
            pass
        f = Folder(env={}, sinks={"parse_args": None})
        # the receiver tells which parser is used: evaluate through a callable that records it
        def parse_F(x):
            calls.append(("F", tuple(x)))
            return ("F", tuple(x))

        def parse_T(x):
            calls.append(("T", tuple(x)))
            return ("T", tuple(x))
        fp.parse_args, tp.parse_args = parse_F, parse_T
        f = Folder(env={}, sinks=())
        try:
            got = f.call_function(pc.node, [list(argv), fp, tp], {})
        except Raised as r:
            return False, "parse_command_line(%s) raises %s" % (argv, r.cls)
        except Unknown as e:
            return None, "cannot fold parse_command_line(%s): %s" % (argv, e)
        want = (("F", tuple(chunks[0][1:])), [("T", tuple(c)) for c in chunks[1:]])
        if calls != want_calls or not (isinstance(got, tuple) and len(got) == 2 and got[0] == want[0] and list(got[1]) == want[1]):
            return False, ("for the command line %s the parsers are called with %s and the result is %s; expected the formula part %s and then "
                           "the transformations %s in this order" % (argv, calls, got, want[0], want[1]))
    return True, "%d command lines folded: chunk 0 to the formula parser, chunks 1.. to the transformation parser in order" % len(samples)


def check_chain_order(R, prog):
    from ._shared import with_semantics
    pc = prog.func("cnfgen.clitools.cnfgen", "parse_command_line")
    T0 = Result(P, "")
    _shape_chain_order(T0, prog)
    # the findings about parse_command_line are subject to the folded semantics; the rest of the rule is kept as it is
    mine = [f for f in T0.findings if f.function == "parse_command_line"]

    def shape(T):
        for o in T0.obligations:
            if o["status"] == "discharged":
                T.ok(o["rule"], o["instance"], o["where"], nontrivial=o["nontrivial"])
        for f in mine:
            T.bad(f)
    with_semantics(R, P, shape, semantic_parse_command_line(prog), "parse_command_line splits at -T in order", pc, rule="CHAIN-ORDER")
    from . import _cli_fold
    drv = _cli_fold.verdict(prog, "cnfgen")          # the driver folded on scripted parsers / helpers: order and options of the -T chain
    cli = prog.func("cnfgen.clitools.cnfgen", "cli")
    if drv[0] is True:
        R.ok("CHAIN-ORDER", "cnfgen.cli: %s" % drv[1], cli.key)
    elif drv[0] is False:
        R.bad(F("CHAIN-ORDER", cli, "cnfgen.cli applies the transformations in command line order", drv[1]))
    for f in T0.findings:
        if f not in mine:
            if drv[0] is True and f.function == "cli":
                R.unknown(f.rule, f.construct, "%s:%s %s" % (f.file, f.line, f.function),
                          "shape not recognised (%s); the meaning of the fragment was confirmed by folding" % f.message[:100])
            else:
                R.bad(f)
    for u in T0.unproven:
        R.unknown(u["rule"], u["instance"], u["where"], u["why"])


def _shape_chain_order(R, prog):
    pc = prog.func("cnfgen.clitools.cnfgen", "parse_command_line")
    body = pc.node.body
    txt = [src(s) for s in stmts_in(pc.node)]
    loop = [s for s in body if isinstance(s, ast.For) and src(s.iter) == pc.params[0]]
    ok_split = False
    if loop and "cmd_chunks = [[]]" in txt:
        lp = loop[0]
        a = src(lp.target)
        if len(lp.body) == 1 and isinstance(lp.body[0], ast.If) and src(lp.body[0].test) == "%s == '-T'" % a and \
                [src(x) for x in lp.body[0].body] == ["cmd_chunks.append([])"] and [src(x) for x in lp.body[0].orelse] == ["cmd_chunks[-1].append(%s)" % a]:
            ok_split = True
    ok_sel = "generator_cmd = cmd_chunks[0][1:]" in txt and "transformation_cmds = cmd_chunks[1:]" in txt
    tl = [s for s in body if isinstance(s, ast.For) and src(s.iter) == "transformation_cmds"]
    ok_parse = tl and [src(x) for x in tl[0].body] == ["targs.append(%s.parse_args(%s))" % (pc.params[2], src(tl[0].target))] and "targs = []" in txt
    rets = [src(s.value) for s in stmts_in(pc.node) if isinstance(s, ast.Return)]
    if ok_split and ok_sel and ok_parse and rets == ["(fargs, targs)"]:
        R.ok("CHAIN-ORDER", "command line split at each -T left to right; chunk i+1 parsed into the i-th transformation, in order", pc.key)
    else:
        R.bad(F("CHAIN-ORDER", pc, "parse_command_line order",
                "the arguments must be split at every -T in command line order (new chunk appended at the end, arguments appended to the last "
                "chunk), chunk 0 is the formula, chunks 1.. are parsed in that order into the transformation list: otherwise `-T a -T b` "
                "is not b(a(F))"))
    cli = prog.func("cnfgen.clitools.cnfgen", "cli")
    cfg = CFG(cli.node)
    stmts = stmts_in(cli.node)
    loops = [s for s in stmts if isinstance(s, ast.For) and src(s.iter) == "t_args"]
    apply_loop = [l for l in loops if any(isinstance(x, ast.Call) and method_name(x) == "transform_cnf" for x in ast.walk(l))]
    good = False
    if apply_loop:
        lp = apply_loop[0]
        d = src(lp.target)
        asg = [x for x in ast.walk(lp) if isinstance(x, ast.Assign) and isinstance(x.value, ast.Call) and method_name(x.value) == "transform_cnf"]
        if len(asg) == 1 and src(asg[0].targets[0]) == src(asg[0].value.args[0]) and src(asg[0].value.args[1]) == d and \
                src(asg[0].value.func.value) == "%s.transformation" % d:
            good = True
            var = src(asg[0].targets[0])
    if good:
        R.ok("CHAIN-ORDER", "cli applies t_args in list order, each transformation receiving the previous result and its own options", cli.key)
        build = [s for s in stmts if isinstance(s, ast.Assign) and src(s.targets[0]) == var and isinstance(s.value, ast.Call) and method_name(s.value) == "build_formula"]
        outs = [s for s in stmts if isinstance(s, ast.Expr) and isinstance(s.value, ast.Call) and src(s.value.func) == "%s.to_file" % var]
        rets = [s for s in stmts if isinstance(s, ast.Return) and s.value is not None and var in src(s.value)]
        ln = cfg.node_of(apply_loop[0])
        if build and outs and cfg.dominates(cfg.node_of(build[0]), ln) and all(cfg.dominates(ln, cfg.node_of(o)) for o in outs + rets):
            R.ok("CHAIN-ORDER", "the formula is built first, transformed, and the last result is what is returned / written", cli.key)
        else:
            R.bad(F("CHAIN-ORDER", cli, "cli build / transform / write order", "build_formula must precede the transformation loop, which must "
                    "precede every return / write of the formula"))
    else:
        R.bad(F("CHAIN-ORDER", cli, "cli transformation loop", "expected `for t in t_args: cnf = t.transformation.transform_cnf(cnf, t)`"))
    if "build_formula(args, formula_class=CNF)" in src(cli.node):
        R.ok("CHAIN-ORDER", "cnfgen builds with formula_class=CNF", cli.key, nontrivial=False)
    pb = prog.func("cnfgen.clitools.pbgen", "cli")
    if "build_formula(args, formula_class=OPB)" in src(pb.node):
        R.ok("CHAIN-ORDER", "pbgen builds with formula_class=OPB", pb.key, nontrivial=False)
    else:
        R.bad(F("CHAIN-ORDER", pb, "pbgen formula class", "pbgen must build with formula_class=OPB"))


def check_tool_sibling(R, prog):
    k = prog.func("cnfgen.clitools.kthlist2pebbling", "cli")
    t = src(k.node)
    a = "readGraph(sys.stdin, 'dag', file_format='kthlist')" in t
    b = "PebblingFormula(G)" in t.replace(" ", "") or "F = PebblingFormula(G)" in t
    h = prog.func("cnfgen.clihelpers.pebbling_helpers", "PebblingCmdHelper.build_formula")
    s = prog.func("cnfgen.clihelpers.pebbling_helpers", "PebblingCmdHelper.setup_command_line")
    c = "PebblingFormula(args.D" in src(h.node) and "action=ObtainDirectedAcyclicGraph" in src(s.node)
    act = prog.func("cnfgen.clitools.graph_args", "ObtainDirectedAcyclicGraph.__call__")
    d = "make_graph_from_spec('dag', values)" in src(act.node)
    if a and b and c and d:
        R.ok("TOOL-SIBLING", "kthlist2pebbling: PebblingFormula(readGraph(stdin, 'dag', kthlist)); peb: PebblingFormula(<dag argument>)", k.key)
    else:
        R.bad(F("TOOL-SIBLING", k, "kthlist2pebbling vs peb", "both must build PebblingFormula on a graph read as type 'dag' (kthlist2pebbling "
                "from a kthlist stream)"))
    tr = "args.transformation.transform_cnf(F, args)" in t
    if tr:
        R.ok("TOOL-SIBLING", "kthlist2pebbling applies its optional transformation to the pebbling formula", k.key, nontrivial=False)


def check_output_options(R, prog):
    for mod, var in (("cnfgen.clitools.cnfgen", "cnf"), ("cnfgen.clitools.pbgen", "opb")):
        cli = prog.func(mod, "cli")
        calls = [c for c in walk_shallow(cli.node) if isinstance(c, ast.Call) and src(c.func) == "%s.to_file" % var]
        if len(calls) == 1:
            kw = {k.arg: src(k.value) for k in calls[0].keywords}
            pos = [src(a) for a in calls[0].args]
            if pos[:1] == ["args.output"] and kw.get("fileformat") == "output_format" and kw.get("export_header") == "args.verbose" and \
                    kw.get("export_varnames") == "args.varnames":
                R.ok("OUTPUT-OPTIONS", "%s: -o, output format, verbose/quiet and --varnames reach to_file" % mod.split(".")[-1], cli.key)
            else:
                R.bad(F("OUTPUT-OPTIONS", cli, "%s to_file arguments" % mod.split(".")[-1], "to_file must receive args.output, the selected format, "
                        "export_header=args.verbose, export_varnames=args.varnames; found %s %s" % (pos, kw), calls[0]))
        sp = prog.func(mod, "setup_command_line_parsers")
        t = src(sp.node)
        if "add_argument('--quiet', '-q', action='store_false', dest='verbose')" in t and "add_argument('--verbose', '-v', action='store_true', default=True)" in t:
            R.ok("OUTPUT-OPTIONS", "%s: --quiet clears `verbose`, --verbose sets it (default on)" % mod.split(".")[-1], sp.key)
        else:
            R.bad(F("OUTPUT-OPTIONS", sp, "%s quiet/verbose" % mod.split(".")[-1], "--quiet must store False into `verbose`, --verbose True"))
        mode = [s for s in stmts_in(cli.node) if isinstance(s, ast.If) and src(s.test) in ("mode == 'formula'",)]
        if mode and [src(x) for x in mode[0].body] == ["return %s" % var]:
            R.ok("OUTPUT-OPTIONS", "%s: mode='formula' returns the formula object itself" % mod.split(".")[-1], cli.key, nontrivial=False)


# ---------------------------------------------------------------------------- optional objects / defaults of custom actions
def _truth_tested(fnode, ap):
    """attribute names X for which `args.X` is used as a truth value (if / while / and / or / not / conditional expression)"""
    out = {}

    def operands(t):
        if isinstance(t, ast.BoolOp):
            for v in t.values:
                yield from operands(v)
        elif isinstance(t, ast.UnaryOp) and isinstance(t.op, ast.Not):
            yield from operands(t.operand)
        else:
            yield t
    for n in walk_shallow(fnode):
        tests = []
        if isinstance(n, (ast.If, ast.While, ast.IfExp)):
            tests.append(n.test)
        elif isinstance(n, ast.Assert):
            tests.append(n.test)
        for t in tests:
            for o in operands(t):
                if isinstance(o, ast.Attribute) and isinstance(o.value, ast.Name) and o.value.id == ap:
                    out.setdefault(o.attr, o)
    return out


def check_optional_object(R, prog, helpers):
    """OPTIONAL-OBJECT: a destination filled by a graph-producing action holds an object whose truth value is its size (the graph
    classes define __len__): `if args.G2:` is false for the graph without vertices.  Presence must be tested with `is None`."""
    n = 0
    for ci, setup, build in sorted(helpers, key=lambda h: h[0].name):
        ap, _ = reads_of(build)
        objs = {}
        for c in [x for x in walk_shallow(setup.node) if isinstance(x, ast.Call) and method_name(x) == "add_argument"]:
            act = kwarg(c, "action")
            if act is None or isinstance(const(act), str):
                continue
            r = prog.resolve_expr(setup.module, act)
            if isinstance(r, ClassInfo) and r.name.startswith("Obtain"):
                d = dest_of(c)
                if d:
                    objs[d] = r.name
        if not objs:
            continue
        tested = _truth_tested(build.node, ap)
        for d, act in sorted(objs.items()):
            n += 1
            inst = "%s: args.%s (filled by %s)" % (ci.name, d, act)
            if d in tested:
                R.bad(F("OPTIONAL-OBJECT", build, "%s tests args.%s for truth" % (ci.name, d),
                        "`%s.%s` holds a graph object (action %s); its truth value is its number of vertices, so the graph with no vertices "
                        "counts as `not given` and another formula is built: test `is not None`" % (ap, d, act), tested[d]))
            else:
                R.ok("OPTIONAL-OBJECT", inst + " is never used as a truth value", build.key, nontrivial=False)
    R.floor("OPTIONAL-OBJECT", n, 15)


def semantic_php_action(prog):
    """fold PHPArgs.__call__ for one, two and three numbers: `php N` is N+1 pigeons in N holes, `php M N` is the plain principle (degree
    equal to the number of holes), `php M N D` has degree D and is refused when D exceeds N"""
    import types
    from ..fold import Folder, Raised
    from ..ql import Unknown
    ci = prog.cls("cnfgen.clihelpers.php_helpers", "PHPArgs")
    call = ci.methods.get("__call__")
    if call is None:
        return None, "PHPArgs.__call__ not found"
    mod = prog.modules["cnfgen.clihelpers.php_helpers"]
    mfuncs = {q: fi.node for q, fi in mod.functions.items() if "." not in q}
    cases = [(["5"], (6, 5, 5), False), (["5", "4"], (5, 4, 4), False), (["3", "7"], (3, 7, 7), False), (["5", "4", "6"], None, True),
             (["1", "2", "3", "4"], None, True), (["-1"], None, True), (["2", "-1"], None, True)]
    # every combination of small numbers, zeros included (`php M N 0` is the principle on the graph without edges)
    import itertools as _it
    for n_ in range(0, 4):
        cases.append(([str(n_)], (n_ + 1, n_, n_), False))
    for m_, n_ in _it.product(range(0, 4), repeat=2):
        cases.append(([str(m_), str(n_)], (m_, n_, n_), False))
    for m_, n_, d_ in _it.product(range(0, 4), repeat=3):
        cases.append(([str(m_), str(n_), str(d_)], (m_, n_, d_) if d_ <= n_ else None, d_ > n_))
    for values, want, err in cases:
        ns = types.SimpleNamespace()

        def error(*a, **k):
            raise Raised("SystemExit")
        parser = types.SimpleNamespace(error=error, prog="cnfgen php")
        f = Folder(env={})
        f.opaque_constructors = True
        f.module_functions = mfuncs
        try:
            f.call_function(call.node, [None, parser, ns, list(values)], {})
            raised = False
        except Raised as r:
            raised = True
        except Unknown as e:
            return None, "cannot fold PHPArgs.__call__(%s): %s" % (values, e)
        got = (getattr(ns, "pigeons", None), getattr(ns, "holes", None), getattr(ns, "degree", None))
        if raised != err or (not err and got != want):
            return False, "`php %s` sets (pigeons, holes, degree) = %s%s; documented: %s" % (
                " ".join(values), got, " and reports an error" if raised else "", "an error" if err else want)
    return True, "%d forms of `php <numbers>` folded" % len(cases)


def check_action_defaults(R, prog, helpers):
    from ._shared import with_semantics
    ci = prog.cls("cnfgen.clihelpers.php_helpers", "PHPArgs")
    verdict = semantic_php_action(prog)

    def shape(T):
        try:
            _shape_action_defaults(T, prog, helpers)
        except AnalysisError:
            if verdict[0] is not True:
                raise
    with_semantics(R, P, shape, verdict, "PHPArgs: php N / php M N / php M N D", ci.methods.get("__call__"), rule="ACTION-DEFAULT")


def _shape_action_defaults(R, prog, helpers):
    """ACTION-DEFAULT: a custom action that fills several destinations from a variable number of words, and a builder that takes the
    plain family when two of them are equal (`args.A == args.B`): in every branch of the action that has fewer words than destinations
    the two are set from the same word, so the short form is the plain family."""
    n = 0
    for ci, setup, build in sorted(helpers, key=lambda h: h[0].name):
        ap, _ = reads_of(build)
        pairs = []
        for t in walk_shallow(build.node):
            if isinstance(t, ast.Compare) and len(t.ops) == 1 and isinstance(t.ops[0], ast.Eq):
                a, b = t.left, t.comparators[0]
                if all(isinstance(x, ast.Attribute) and isinstance(x.value, ast.Name) and x.value.id == ap for x in (a, b)):
                    pairs.append((a.attr, b.attr))
        if not pairs:
            continue
        for c in [x for x in walk_shallow(setup.node) if isinstance(x, ast.Call) and method_name(x) == "add_argument"]:
            act = kwarg(c, "action")
            r = prog.resolve_expr(setup.module, act) if act is not None and not isinstance(const(act), str) else None
            call = prog.lookup_method(r, "__call__") if isinstance(r, ClassInfo) else None
            if call is None:
                continue
            # branches = maximal statement lists made of setattr(args, 'X', expr)
            def branches(stmts):
                cur = {}
                for st in stmts:
                    if isinstance(st, ast.Expr) and isinstance(st.value, ast.Call) and call_name(st.value) == "setattr" and \
                            len(st.value.args) == 3 and isinstance(const(st.value.args[1]), str):
                        cur[const(st.value.args[1])] = st.value.args[2]
                    elif isinstance(st, ast.If):
                        yield from branches(st.body)
                        yield from branches(st.orelse)
                if cur:
                    yield cur
            for br in branches(call.node.body):
                for a, b in pairs:
                    if a in br and b in br:
                        words = {src(v) for v in br.values() if isinstance(v, ast.Subscript)}
                        bases = {src(v) for v in br.values()}
                        if len(words) >= len(br):
                            continue            # every destination has its own word
                        n += 1
                        inst = "%s: short form sets %s=%s, %s=%s" % (ci.name, a, src(br[a]), b, src(br[b]))
                        if src(br[a]) == src(br[b]):
                            R.ok("ACTION-DEFAULT", inst, call.key)
                        else:
                            R.bad(F("ACTION-DEFAULT", call, "%s short form: %s != %s" % (ci.name, a, b),
                                    "with fewer words than parameters the action sets %s=`%s` and %s=`%s`; the builder takes the plain family "
                                    "only when they are equal, so the short command line builds another formula than the documented one"
                                    % (a, src(br[a]), b, src(br[b])), br[b]))
    R.floor("ACTION-DEFAULT", n, 2)


def check_helper_schema(R, prog, helpers):
    """HELPER-SCHEMA: what each helper returns -- which library function, with which option in which argument, under which condition
    on the parsed options -- equals, in the normal form of sa/schema.py, the reviewed table sa/props/_helper_specs.py."""
    from ..schema import extract
    from ._helper_specs import HELPER_SPECS
    n = 0
    for ci, setup, build in sorted(helpers, key=lambda h: h[0].name):
        key = (ci.module.name, ci.name)
        if key not in HELPER_SPECS:
            # a helper that did not exist when the table was reviewed: nothing is known about what it should do, so nothing is decided
            R.unknown("HELPER-SCHEMA", "%s has no entry in the helper table" % ci.name, build.key,
                      "a command line helper added after the review: its `options -> library call` mapping is not in _helper_specs.py")
            continue
        got = {}
        for e in extract(build, helper=True):
            got.setdefault(e.key(), e)
        from ..schema import split_conditionals
        got = {k2: e for k, e in got.items() for k2 in split_conditionals(k)}
        want = {k2 for k in HELPER_SPECS[key] for k2 in split_conditionals(k)}
        if set(got) != want:
            # the schema differs from the reviewed table: is the helper, folded on a finite table of option values, still the reviewed one?
            from .. import helperfold
            sem = helperfold.compare_method(prog, ci, build.name)
            if sem[0] is True:
                n += len(want)
                R.ok("HELPER-SCHEMA", "%s: %s" % (ci.name, sem[1]), build.key)
                R.unknown("HELPER-SCHEMA", "%s schema" % ci.name, build.key,
                          "shape not recognised (the return schema differs from the reviewed table); the meaning of the fragment was confirmed by folding")
                continue
            detail = (" [folding: %s]" % sem[1][:300]) if sem[0] is False else ""
        else:
            detail = ""
        for k in sorted(want, key=str):
            n += 1
            q, g, b, a = k
            line = "%s%s: %s(%s)" % (" ".join("for %s in %s" % (t, d) for t, d in q), (" if " + " and ".join(g)) if g else "", b, ", ".join(a))
            if k in got:
                R.ok("HELPER-SCHEMA", "%s: %s" % (ci.name, line.strip()[:110]), build.key)
            else:
                near = [e.text() for e in got.values() if e.builder == b]
                R.bad(F("HELPER-SCHEMA", build, "%s no longer does: %s" % (ci.name, line.strip()[:90]),
                        "the helper is documented / reviewed to do `%s`; it now does: %s%s" % (line.strip()[:300], (" | ".join(near))[:400] or "nothing comparable", detail)))
        for k, e in got.items():
            if k not in want:
                R.bad(F("HELPER-SCHEMA", build, "%s does something else: %s" % (ci.name, e.text()[:90]),
                        "not in the reviewed table: %s" % e.text()[:400], e.node))
    R.floor("HELPER-SCHEMA", n, len(helpers))
    if len(helpers) < 15:
        raise AnalysisError("only %d command line helpers found" % len(helpers))
