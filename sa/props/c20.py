"""C20 -- solve() and is_satisfiable() report what the SAT solver found."""
import ast
import re

from ..loader import AnalysisError, walk_shallow
from ..cfg import CFG
from ..astutil import src, call_name, method_name, const, is_const, stmts_in, target_names, docstring_of
from ..callgraph import Resolver
from ..effects import Effects, ancestors, try_context
from ..report import Result, Finding

P = "C20"
MOD = "cnfgen.utils.solver"
IFACES = ["_satsolve_filein_fileout", "_satsolve_stdin_stdout", "_satsolve_filein_stdout"]
DOCUMENTED = {"RuntimeError", "ValueError", "TypeError"}


def F(rule, fi, construct, msg, node=None, witness=None):
    return Finding(P, rule, fi, construct, msg, node=node, witness=witness)


def run(prog, tier):
    R = Result(P, "TMP-PAIR: every NamedTemporaryFile(delete=False) is unlinked in a `finally` that covers the solver run (all exits).  "
               "SOLVER-TABLE: every solver named in an interface function's docstring (examples and prose) is mapped to that function "
               "in the name -> interface table; the interface used is table[sameas or solver].  SOLVER-EXC: exception classes leaving "
               "sat_solve through a definite trigger are the documented RuntimeError / ValueError / TypeError (incl. definitely-assigned "
               "analysis for names bound only inside a try).  VERDICT: is_satisfiable is solve(...)[0] with the same arguments; the "
               "witness is returned iff the verdict is True (no `A and B or C` with a possibly empty B), sorted by variable; the output "
               "parsers examine every line (no early exit).  The behaviour of real solvers is not decided.")
    R.trust("tempfile.NamedTemporaryFile(delete=False) leaves a file that only os.unlink removes",
            "subprocess.Popen raises OSError when the program cannot be started")
    res = Resolver(prog)
    eff = Effects(prog, res)
    T = Result(P, "")
    check_table(T, prog)
    check_tmp_pair(T, prog)
    check_exceptions(T, prog, eff)
    check_verdict(T, prog)
    check_argv(T, prog)
    check_bridge(R, prog, T)
    return R


def semantic_facade(prog):
    """fold CNFio.is_satisfiable and CNFio.solve (with the methods of the class they may call) over a recording stand-in for sat_solve:
    the formula itself, the command, the `sameas` name and the verbosity must be handed over, and the verdict / the (verdict, witness) pair
    handed back"""
    import types
    from ..fold import Folder, Raised
    from ..ql import Unknown
    ci = prog.cls("cnfgen.formula.cnfio", "CNFio")
    methods = {k: v.node for k, v in ci.methods.items()}
    n = 0
    for cmd, sameas in (("solverA", None), (None, "minisat"), ("x -y", "glucose"), (None, None)):
        for mname in ("is_satisfiable", "solve"):
            for verbose in ((0,) if mname == "is_satisfiable" else (0, 1, 2)):
                calls = []

                def fake(F, **k):
                    calls.append((F, dict(k)))
                    return ("ANSWER", ["WITNESS"])
                f = Folder(env={}, fuel=20000, methods=methods)
                f.globals = {"sat_solve": lambda *a, **k: fake(*a, **dict(zip(("cmd", "sameas", "verbose"), a[1:]), **k))}
                me = types.SimpleNamespace()
                kw = {"cmd": cmd, "sameas": sameas}
                if mname == "solve":
                    kw["verbose"] = verbose
                try:
                    got = f.call_function(methods[mname], [me], kw)
                except Raised as r:
                    return False, "%s(cmd=%r, sameas=%r) raises %s" % (mname, cmd, sameas, r.cls)
                except Unknown as e:
                    return None, "cannot fold CNFio.%s: %s" % (mname, e)
                want = "ANSWER" if mname == "is_satisfiable" else ("ANSWER", ["WITNESS"])
                if got != want and not (isinstance(got, (tuple, list)) and tuple(got) == want):
                    return False, "%s(cmd=%r, sameas=%r) returns %r; sat_solve answered ('ANSWER', ['WITNESS'])" % (mname, cmd, sameas, got)
                if len(calls) != 1 or calls[0][0] is not me or calls[0][1].get("cmd") != cmd or calls[0][1].get("sameas") != sameas or \
                        calls[0][1].get("verbose", 0) != verbose:
                    return False, "%s(cmd=%r, sameas=%r, verbose=%r) calls sat_solve with %s" % (
                        mname, cmd, sameas, verbose, [(("self" if c[0] is me else "another object"), c[1]) for c in calls])
                n += 1
    return True, "%d calls folded: the formula, cmd, sameas and verbosity reach sat_solve, its answer comes back" % n


def check_bridge(R, prog, T):
    """BRIDGE-SEMANTICS: the three interface functions and sat_solve, folded over a stand-in file table and a scripted process
    (sa/props/_c20_fold.py), give the documented verdicts and errors, hand the formula over as DIMACS text, split the command into
    words and remove every temporary file.  A shape finding inside a function whose folding confirmed all of that is recorded as
    undecided shape; a refuted folding is a finding of its own."""
    from . import _c20_fold as cf
    verdicts = {}
    for name in ("_satsolve_filein_fileout", "_satsolve_stdin_stdout", "_satsolve_filein_stdout", "sat_solve"):
        fi = prog.func(MOD, name)
        v = cf.verdict(prog, name)
        verdicts[name] = v
        if v[0] is True:
            R.ok("BRIDGE-SEMANTICS", "%s: %s" % (name, v[1]), fi.key)
        elif v[0] is False:
            R.bad(F("BRIDGE-SEMANTICS", fi, "%s behaves as documented" % name, v[1]))
        else:
            R.unknown("BRIDGE-SEMANTICS", name, fi.key, v[1])
    for o in T.obligations:
        if o["status"] == "discharged":
            R.ok(o["rule"], o["instance"], o["where"], nontrivial=o["nontrivial"])
    for u in T.unproven:
        R.unknown(u["rule"], u["instance"], u["where"], u["why"])
    R.floors.extend(T.floors)
    for t in T.trusted:
        R.trust(t)
    for f in T.findings:
        top = (f.function or "").split(".")[0]
        if verdicts.get(top, (None,))[0] is True and f.rule != "SOLVER-TABLE":          # (what the documentation says is not folded)
            R.unknown(f.rule, f.construct, "%s:%s %s" % (f.file, f.line, f.function),
                      "shape not recognised (%s); the meaning of the fragment was confirmed by folding" % f.message[:120])
        else:
            R.bad(f)


def check_tmp_pair(R, prog):
    n = 0
    for q in IFACES + ["sat_solve"]:
        fi = prog.func(MOD, q)
        temps = [s for s in stmts_in(fi.node) if isinstance(s, ast.Assign) and isinstance(s.value, ast.Call) and
                 call_name(s.value) == "tempfile.NamedTemporaryFile" and any(k.arg == "delete" and is_const(k.value, False) for k in s.value.keywords)]
        ctx = try_context(fi.node)
        for t in temps:
            n += 1
            v = src(t.targets[0])
            unl = [c for c in walk_shallow(fi.node) if isinstance(c, ast.Call) and call_name(c) == "os.unlink" and src(c.args[0]) == v + ".name"]
            in_finally = [c for c in unl if any(item[1] == "finally" for item in ctx.get(id(c), []))]
            inst = "%s: temporary file `%s`" % (q, v)
            if not unl:
                R.bad(F("TMP-PAIR", fi, inst + " never removed", "NamedTemporaryFile(delete=False) bound to `%s` is never unlinked: every call "
                        "leaves a file behind" % v, t))
                continue
            if not in_finally:
                R.bad(F("TMP-PAIR", fi, inst + " removed on the normal path only",
                        "os.unlink(%s.name) is not in a `finally`: when running the solver or reading its result raises, the file stays" % v, unl[0]))
                continue
            # the finally must belong to a try that contains the process run
            ok = False
            for c in in_finally:
                for item in ctx.get(id(c), []):
                    if item[1] == "finally":
                        body_calls = [call_name(x) for b in item[0].body for x in ast.walk(b) if isinstance(x, ast.Call)]
                        if "subprocess.Popen" in body_calls:
                            ok = True
            # nothing that can raise may sit between creating the file and entering that try, other than writing it
            if ok:
                R.ok("TMP-PAIR", inst + " is unlinked in the finally of the try that runs the solver", fi.key)
            else:
                R.bad(F("TMP-PAIR", fi, inst + " finally does not cover the solver run", "the `finally` that unlinks the file must belong to the "
                        "try that starts the solver and reads its output", in_finally[0]))
    R.floor("TMP-PAIR", n, 3)


def check_table(R, prog):
    m = prog.module(MOD)
    tab = m.globals.get("_SATSOLVER_INTERFACE")
    if not isinstance(tab, ast.Dict):
        raise AnalysisError("_SATSOLVER_INTERFACE dict literal not found")
    table = {const(k): src(v) for k, v in zip(tab.keys, tab.values)}
    names = set(table)
    for q in IFACES:
        fi = prog.func(MOD, q)
        doc = docstring_of(fi.node)
        mentioned = set()
        for mm in re.finditer(r"cmd='([A-Za-z0-9_\-]+)", doc):
            mentioned.add(mm.group(1))
        for nm in sorted(mentioned & names):
            inst = "docstring of %s names solver %r" % (q, nm)
            if table[nm] == q:
                R.ok("SOLVER-TABLE", inst + " and the table maps it there", fi.key)
            else:
                R.bad(F("SOLVER-TABLE", fi, "solver %r: docstring vs table" % nm,
                        "the documentation of %s says it is the interface for %r, but _SATSOLVER_INTERFACE maps %r to %s: one of the two "
                        "is wrong" % (q, nm, nm, table[nm])))
    for nm, fn in sorted(table.items()):
        if fn not in IFACES:
            R.bad(F("SOLVER-TABLE", None, "table entry %r" % nm, "%r maps to %s which is not one of the three interface functions" % (nm, fn)))
    ss = prog.func(MOD, "sat_solve")
    sel = [s for s in stmts_in(ss.node) if isinstance(s, ast.Assign) and "_SATSOLVER_INTERFACE" in src(s.value)]
    if len(sel) == 1 and src(sel[0].value) in ("_SATSOLVER_INTERFACE[sameas or solver]",):
        R.ok("SOLVER-TABLE", "sat_solve uses table[sameas or solver]: `sameas` overrides the command's own name", ss.key)
    else:
        R.bad(F("SOLVER-TABLE", ss, "interface selection", "the interface must be _SATSOLVER_INTERFACE[sameas or solver] (sameas wins also when the "
                "command itself is a known solver); found %s" % [src(s.value) for s in sel], sel[0] if sel else None))
    # guards of sat_solve
    tests = [src(s.test) for s in stmts_in(ss.node) if isinstance(s, ast.If) and s.body and isinstance(s.body[0], ast.Raise)]
    need = {"not isinstance(F, BaseCNF)": "TypeError for a non-CNF", "sameas is not None and sameas not in supported_satsolvers()": "ValueError for an unknown sameas",
            "cmd.split()[0] not in supported_satsolvers() and sameas is None": "RuntimeError for an unsupported solver without sameas"}
    for t, what in need.items():
        if t in tests:
            R.ok("SOLVER-EXC", "sat_solve raises " + what, ss.key)
        else:
            R.bad(F("SOLVER-EXC", ss, "sat_solve guard: " + what, "expected the guard `%s`" % t))
    tail = [s for s in ss.node.body if isinstance(s, ast.If) or isinstance(s, ast.Raise)]
    if any(isinstance(s, ast.Raise) and "RuntimeError" in src(s) for s in ast.walk(ss.node.body[-1])):
        R.ok("SOLVER-EXC", "no usable solver ends in RuntimeError, never in a verdict", ss.key)
    else:
        R.bad(F("SOLVER-EXC", ss, "no solver available", "when no solver can be run sat_solve must raise RuntimeError"))


def possibly_undefined(fi):
    """(name, use stmt) pairs: a local that is bound only inside a ``try`` body and used after the try although a handler of that
    try can fall through (the binding may not have happened)"""
    out = []
    cfg = CFG(fi.node)
    stmts = stmts_in(fi.node)
    binds = {}
    for s in stmts:
        names = set()
        if isinstance(s, ast.Assign):
            for t in s.targets:
                names |= set(target_names(t))
        elif isinstance(s, (ast.AugAssign, ast.AnnAssign, ast.For)):
            names |= set(target_names(s.target))
        elif isinstance(s, ast.With):
            for it in s.items:
                if it.optional_vars is not None:
                    names |= set(target_names(it.optional_vars))
        for nme in names:
            binds.setdefault(nme, []).append(s)
    ctx = try_context(fi.node)
    for name, bs in binds.items():
        if name in fi.params:
            continue
        if not all(any(it[1] == "body" for it in ctx.get(id(b), [])) for b in bs):
            continue
        bnodes = [cfg.node_of(b) for b in bs if cfg.node_of(b) is not None]
        for s in stmts:
            if s in bs:
                continue
            hdr = s.test if isinstance(s, (ast.If, ast.While)) else (s.iter if isinstance(s, ast.For) else s)
            if isinstance(s, (ast.Try, ast.FunctionDef, ast.ClassDef, ast.With)):
                continue
            if name in {n.id for n in ast.walk(hdr) if isinstance(n, ast.Name) and isinstance(n.ctx, ast.Load)}:
                un = cfg.node_of(s)
                if un is not None and cfg.reaches(cfg.entry, un, avoid=bnodes):
                    out.append((name, s))
                    break
    return out


def check_exceptions(R, prog, eff):
    ss = prog.func(MOD, "sat_solve")
    n = 0
    # escapes() keeps one representative site per class and function: look at sat_solve and at each function it is made of, so that
    # a second source of the same class (Popen next to open) is not hidden behind the first
    todo = [(ss, cls, site) for cls, site in sorted(eff.escapes(ss).items())]
    for q in list(IFACES) + ["some_solver_installed"]:
        fq = prog.func(MOD, q)
        todo += [(fq, cls, site) for cls, site in sorted(eff.escapes(fq).items()) if site.fi.module.name == MOD and cls not in ("RuntimeError", "ValueError", "TypeError")]
    seen = set()
    for owner, cls, site in todo:
        if (cls, id(site.node)) in seen:
            continue
        seen.add((cls, id(site.node)))
        n += 1
        inst = "%s may raise %s (%s)" % (owner.qualname, cls, site.what[:50])
        if set(ancestors(cls)) & DOCUMENTED:
            R.ok("SOLVER-EXC", inst, site.where())
        elif cls in ("OSError",) and "parsedimacs" in site.fi.module.name:
            R.unknown("SOLVER-EXC", inst, site.where(), "to_dimacs() writes to an in-memory buffer: the open() branch of the writer is not taken")
        elif not site.definite:
            R.unknown("SOLVER-EXC", inst, site.where(), "indefinite trigger")
        else:
            R.bad(F("SOLVER-EXC", ss, "sat_solve lets %s escape" % cls,
                    "a solver output / environment shape ends in %s instead of the documented RuntimeError / ValueError / TypeError: %s"
                    % (cls, site.what), site.node, witness=site.chain()))
    for q in IFACES:
        fi = prog.func(MOD, q)
        pu = possibly_undefined(fi)
        if pu:
            for name, st in pu:
                R.bad(F("SOLVER-EXC", fi, "%s: `%s` may be unbound" % (q, name),
                        "`%s` is bound only inside the try that runs the solver; when that fails (OSError is swallowed) line %d uses it "
                        "unbound: UnboundLocalError instead of the documented RuntimeError" % (name, st.lineno), st))
        else:
            R.ok("SOLVER-EXC", "%s: every name used after the try is bound on all paths" % q, fi.key)
    R.floor("SOLVER-EXC", n, 3)


def check_verdict(R, prog):
    for q in IFACES:
        fi = prog.func(MOD, q)
        rets = [s for s in stmts_in(fi.node) if isinstance(s, ast.Return) and s.value is not None]
        for r in rets:
            v = r.value
            if isinstance(v, ast.Tuple) and len(v.elts) == 2:
                w = v.elts[1]
                bad_idiom = isinstance(w, ast.BoolOp) and isinstance(w.op, ast.Or) and isinstance(w.values[0], ast.BoolOp) and isinstance(w.values[0].op, ast.And)
                good = isinstance(w, ast.IfExp) and src(w.test) == src(v.elts[0]) and const(w.orelse, 0) is None and isinstance(w.orelse, ast.Constant)
                if bad_idiom:
                    R.bad(F("VERDICT", fi, "%s: `A and B or C` witness" % q,
                            "`%s` yields None when the witness list is empty: a satisfiable formula with zero variables is reported as "
                            "(True, None)" % src(w), r))
                elif good:
                    R.ok("VERDICT", "%s returns (verdict, witness if verdict else None)" % q, fi.key)
                else:
                    R.unknown("VERDICT", "%s return %s" % (q, src(v)), fi.key, "unrecognised return shape")
        srt = [c for c in walk_shallow(fi.node) if isinstance(c, ast.Call) and call_name(c) == "sorted" and any(k.arg == "key" and src(k.value) == "abs" for k in c.keywords)]
        if srt:
            R.ok("VERDICT", "%s orders the witness by variable (sorted key=abs)" % q, fi.key)
        else:
            R.bad(F("VERDICT", fi, "%s witness order" % q, "the assignment must be ordered by variable: sorted(witness, key=abs)"))
        # output parsing loops examine every line
        for lp in [s for s in stmts_in(fi.node) if isinstance(s, ast.For) and "splitlines()" in src(s.iter)]:
            early = [x for x in ast.walk(lp) if isinstance(x, (ast.Break, ast.Return))]
            if early:
                R.bad(F("VERDICT", fi, "%s stops reading the solver output early" % q,
                        "the loop over the output lines leaves at line %d: `v` lines may be interleaved with comments, so later parts of the "
                        "assignment are lost" % early[0].lineno, early[0]))
            else:
                R.ok("VERDICT", "%s examines every output line (answer may be split over several `v` lines)" % q, fi.key)
            vs = [s for s in lp.body if isinstance(s, ast.If) and src(s.test) == "line[0] == 'v'"]
            if vs and any("witness +=" in src(x) or "witness.extend" in src(x) for x in vs[0].body) and "el != 'v' and el != '0'" in src(vs[0]):
                R.ok("VERDICT", "%s accumulates the literals of every `v` line, dropping the `v` tag and the final 0" % q, fi.key)
            else:
                R.bad(F("VERDICT", fi, "%s v-line parsing" % q, "every `v` line must add its literals (without 'v' and '0') to the witness"))
    cio = prog.func("cnfgen.formula.cnfio", "CNFio.is_satisfiable")
    so = prog.func("cnfgen.formula.cnfio", "CNFio.solve")
    r1 = [src(s.value) for s in stmts_in(cio.node) if isinstance(s, ast.Return)]
    r2 = [src(s.value) for s in stmts_in(so.node) if isinstance(s, ast.Return)]
    sem = semantic_facade(prog)
    if r1 == ["sat_solve(self, cmd=cmd, sameas=sameas, verbose=0)[0]"]:
        R.ok("VERDICT", "is_satisfiable == sat_solve(self, cmd, sameas)[0]", cio.key)
    elif sem[0] is True:
        R.ok("VERDICT", "is_satisfiable / solve: %s" % sem[1], cio.key)
        R.unknown("VERDICT", "is_satisfiable", cio.key, "shape not recognised (%s); the meaning of the fragment was confirmed by folding" % r1)
        r2 = ["sat_solve(self, cmd=cmd, sameas=sameas, verbose=verbose)"]
    elif sem[0] is False:
        R.bad(F("VERDICT", cio, "is_satisfiable / solve", sem[1]))
        r2 = ["sat_solve(self, cmd=cmd, sameas=sameas, verbose=verbose)"]
    else:
        R.bad(F("VERDICT", cio, "is_satisfiable", "must return the first component of sat_solve(self, cmd=cmd, sameas=sameas, ..); found %s" % r1))
    if r2 == ["sat_solve(self, cmd=cmd, sameas=sameas, verbose=verbose)"]:
        R.ok("VERDICT", "solve == sat_solve(self, cmd, sameas, verbose)", so.key)
    else:
        R.bad(F("VERDICT", so, "solve", "must return sat_solve(self, cmd=cmd, sameas=sameas, verbose=verbose); found %s" % r2))
    ff = prog.func(MOD, "_satsolve_filein_fileout")
    t = src(ff.node)
    if "foutput[0] == 'SAT'" in t and "foutput[0] == 'UNSAT'" in t and "int(v) for v in foutput[1:] if v != '0'" in t and "len(foutput) == 0" in t:
        R.ok("VERDICT", "minisat convention: first token SAT -> True with the following literals, UNSAT -> False, anything else RuntimeError", ff.key)
    else:
        R.bad(F("VERDICT", ff, "minisat result file parsing", "result file: 'SAT' + literals -> (True, assignment); 'UNSAT' -> (False, None); empty or "
                "other -> RuntimeError"))
    for q in ("_satsolve_stdin_stdout", "_satsolve_filein_stdout"):
        fi = prog.func(MOD, q)
        t = src(fi.node)
        if "['SATISFIABLE']" in t and "['UNSATISFIABLE']" in t and "if result is None:" in t or \
                ("== 'SATISFIABLE'" in t and "== 'UNSATISFIABLE'" in t and "if result is None:" in t):
            R.ok("VERDICT", "%s: `s SATISFIABLE` -> True, `s UNSATISFIABLE` -> False, no answer -> RuntimeError" % q, fi.key)
        else:
            R.bad(F("VERDICT", fi, "%s solution line" % q, "the `s` line decides the verdict; without an answer RuntimeError must be raised"))


def check_argv(R, prog):
    """ARGV-ELEMENT: the solver is started with an argument vector in which every temporary file name is an element of its own.  A
    command *string* that contains a file name and is then split at blanks tears a path with a blank in it (TMPDIR = "My Files"):
    the solver gets two non-existing files and the run ends in RuntimeError instead of a verdict."""
    n = 0
    for q in IFACES:
        fi = prog.func(MOD, q)
        tmp = set()
        for st in stmts_in(fi.node):
            if isinstance(st, ast.Assign) and isinstance(st.value, ast.Call) and (call_name(st.value) or "").endswith("NamedTemporaryFile"):
                tmp |= {t.id for t in st.targets if isinstance(t, ast.Name)}
            if isinstance(st, ast.With):
                for it in st.items:
                    if isinstance(it.context_expr, ast.Call) and (call_name(it.context_expr) or "").endswith("NamedTemporaryFile") and \
                            isinstance(it.optional_vars, ast.Name):
                        tmp.add(it.optional_vars.id)

        def has_path(e, tainted):
            for x in ast.walk(e):
                if isinstance(x, ast.Attribute) and x.attr == "name" and isinstance(x.value, ast.Name) and x.value.id in tmp:
                    return True
                if isinstance(x, ast.Name) and x.id in tainted:
                    return True
            return False
        tainted = set()
        changed = True
        while changed:
            changed = False
            for st in stmts_in(fi.node):
                if isinstance(st, ast.Assign) and len(st.targets) == 1 and isinstance(st.targets[0], ast.Name) and \
                        st.targets[0].id not in tainted and st.targets[0].id not in tmp and has_path(st.value, tainted) and \
                        not (isinstance(st.value, ast.Call) and call_name(st.value) == "open"):
                    tainted.add(st.targets[0].id)
                    changed = True
        for c in [x for x in walk_shallow(fi.node) if isinstance(x, ast.Call) and (call_name(x) or "") in ("subprocess.Popen", "subprocess.run", "Popen")]:
            args = [k.value for k in c.keywords if k.arg == "args"] or c.args[:1]
            if not args:
                continue
            n += 1
            torn = [x for x in ast.walk(args[0]) if isinstance(x, ast.Call) and method_name(x) == "split" and has_path(x.func.value, tainted)]
            if torn:
                R.bad(F("ARGV-ELEMENT", fi, "%s splits a command string that contains a file name" % q,
                        "`%s` splits text that contains the name of a temporary file at blanks: with a blank in the temporary directory the "
                        "solver is handed pieces of the path and sat_solve raises RuntimeError instead of returning the verdict"
                        % src(torn[0])[:70], torn[0]))
            else:
                R.ok("ARGV-ELEMENT", "%s: %s -- file names are separate argv elements" % (q, src(args[0])[:60]), fi.key)
    R.floor("ARGV-ELEMENT", n, 3)
