"""C11 -- variable groups map indices to identifiers bijectively, with names aligned."""
import ast

from ..loader import AnalysisError, walk_shallow, FuncInfo, ClassInfo
from ..cfg import CFG
from ..astutil import src, call_name, method_name, const, is_const, stmts_in, kwarg
from ..report import Result, Finding
from . import c10

P = "C11"
VARS = "cnfgen.formula.variables"
GROUPS = ["SingletonVariableGroup", "BlockOfVariables", "WordOfIndicesVariables", "BipartiteEdgesVariables",
          "DiGraphEdgesVariables", "GraphEdgesVariables", "UnaryMappingVariables", "BinaryMappingVariables"]


def F(rule, fi, construct, msg, node=None):
    return Finding(P, rule, fi, construct, msg, node=node)


def run(prog, tier):
    R = Result(P, "DISPATCH-LITERALS: for every function that selects behaviour by comparing a string parameter with literals, each "
               "string literal passed at a resolved call site (and the parameter's default) is one of the handled literals.  "
               "LABEL-GAPFILL: in all_variable_labels every yield of a group's own names is dominated by the gap-filling loop that "
               "advances the running id to the group's first id, the id advances by the group's length, and a tail loop fills up to the "
               "declared count.  GROUP-INTERFACE: each of the 8 concrete group classes has concrete indices / to_index / "
               "_unsafe_index_to_lit / label, and to_index refuses literals outside the group before computing.  OFFSET-CONVENTION / "
               "FIRST-LAST-ID: forward and backward maps use one offset convention and hit the first / last id (polynomial check, shared "
               "with C10).  ENUM-START: serialisers number names from 1.  INDEX-ORDER: enumeration order of indices is the id order "
               "(most significant index first).  Bijectivity on all shapes (a round-trip equality) is not decided.")
    from ._shared import merge_filtered, group_semantics
    R0 = R
    confirmed = group_semantics(R0, prog, P)
    R = Result(P, "")
    check_dispatch(R, prog)
    check_gapfill(R, prog)
    check_interface(R, prog)
    R2 = Result(P, "")
    c10.first_last(R2, prog)
    for o in R2.obligations:
        o = dict(o)
        o["rule"] = "OFFSET-CONVENTION"
        R.obligations.append(o)
    for f in R2.findings:
        R.findings.append(Finding(P, "OFFSET-CONVENTION", None, f.construct, f.message, module=f.module, line=f.line))
        R.findings[-1].function, R.findings[-1].file = f.function, f.file
    R.unproven += R2.unproven
    check_enum_start(R, prog)
    check_index_order(R, prog)
    check_wildcard_none(R, prog)
    merge_filtered(R0, R, confirmed)
    R = R0
    from ._shared import check_no_shared_state
    check_no_shared_state(R, prog, P, ['cnfgen.formula'], 120)
    from ._families import borrow as _borrow
    from . import c16 as _c16
    _borrow(R, P, "GRAPH", prog, _c16.analyse, floor=100)
    _borrow(R, P, "ALLOC", prog, c10.check_alloc_guard, floor=1)
    _borrow(R, P, "ALLOC", prog, c10.check_numvar, floor=4)
    return R


# ------------------------------------------------------------------ dispatch literals
def dispatchers(prog):
    """(FuncInfo, param, handled literals, default literal) for *closed* dispatchers: functions in which a string parameter that is
    never rebound selects a branch and falling through every branch is an error --
      (a) an if/elif chain of ``p == 'lit'`` tests ending in an ``else`` that raises,
      (b) such a chain without ``else`` where a name bound in every branch (and nowhere else) is used afterwards,
      (c) a gate ``if p not in [lits]: raise``."""
    from ..astutil import names_loaded, target_names
    out = []
    for fi in prog.all_functions():
        params = set(fi.params)
        stmts = stmts_in(fi.node)
        rebound = set()
        for s in stmts:
            if isinstance(s, ast.Assign):
                for t in s.targets:
                    rebound.update(target_names(t))
            elif isinstance(s, (ast.AugAssign, ast.AnnAssign, ast.For)):
                rebound.update(target_names(s.target))
        handled = {}
        chained = {id(x.orelse[0]) for x in stmts if isinstance(x, ast.If) and len(x.orelse) == 1 and isinstance(x.orelse[0], ast.If)}
        for s in stmts:
            # (c) gate
            if isinstance(s, ast.If) and isinstance(s.test, ast.Compare) and len(s.test.ops) == 1 and isinstance(s.test.ops[0], ast.NotIn) \
                    and isinstance(s.test.left, ast.Name) and s.test.left.id in params and s.body and isinstance(s.body[0], ast.Raise):
                c = s.test.comparators[0]
                if isinstance(c, (ast.List, ast.Tuple, ast.Set)) and c.elts and all(isinstance(const(e), str) for e in c.elts):
                    handled.setdefault(s.test.left.id, set()).update(const(e) for e in c.elts)
            # (a), (b) chains
            if not isinstance(s, ast.If) or id(s) in chained:
                continue
            chain, cur = [], s
            while True:
                chain.append(cur)
                if len(cur.orelse) == 1 and isinstance(cur.orelse[0], ast.If):
                    cur = cur.orelse[0]
                else:
                    break
            tests = []
            for c in chain:
                t = c.test
                if isinstance(t, ast.Compare) and len(t.ops) == 1 and isinstance(t.ops[0], ast.Eq) and isinstance(t.left, ast.Name) \
                        and t.left.id in params and isinstance(const(t.comparators[0]), str):
                    tests.append((t.left.id, const(t.comparators[0])))
                else:
                    tests = None
                    break
            if not tests or len(tests) < 2 or len({p for p, _ in tests}) != 1:
                continue
            pname = tests[0][0]
            last_else = chain[-1].orelse
            closed = False
            if last_else and any(isinstance(x, ast.Raise) for x in last_else):
                closed = True
            elif not last_else:
                bound_each = None
                for c in chain:
                    b = set()
                    for x in c.body:
                        if isinstance(x, ast.Assign):
                            for t in x.targets:
                                b.update(target_names(t))
                    bound_each = b if bound_each is None else (bound_each & b)
                inside = {id(x) for c in chain for y in c.body for x in ast.walk(y)}
                elsewhere = set()
                used_after = set()
                seen_chain = False
                for x in stmts:
                    if x is chain[0]:
                        seen_chain = True
                        continue
                    if id(x) in inside or x in chain:
                        continue
                    if isinstance(x, ast.Assign):
                        for t in x.targets:
                            elsewhere.update(target_names(t))
                    if seen_chain:
                        hdr = x.test if isinstance(x, (ast.If, ast.While)) else (x.iter if isinstance(x, ast.For) else x)
                        if not isinstance(x, (ast.FunctionDef, ast.ClassDef, ast.Try, ast.With)):
                            used_after |= names_loaded(hdr)
                if (bound_each or set()) - elsewhere - params & used_after:
                    closed = True
            if closed and pname not in rebound:
                handled.setdefault(pname, set()).update(l for _, l in tests)
        for p, lits in handled.items():
            if p in rebound:
                continue
            a = fi.node.args
            names = [x.arg for x in a.posonlyargs + a.args]
            default = None
            if p in names:
                i = names.index(p) - (len(names) - len(a.defaults))
                if i >= 0 and isinstance(const(a.defaults[i]), str):
                    default = const(a.defaults[i])
            for kwa, d in zip(a.kwonlyargs, a.kw_defaults):
                if kwa.arg == p and d is not None and isinstance(const(d), str):
                    default = const(d)
            out.append((fi, p, lits, default))
    return out


def callee_of(prog, caller, call):
    """resolve a call to a FuncInfo (functions, constructors, uniquely named methods); None if unresolved"""
    f = call.func
    if isinstance(f, ast.Name):
        r = prog.resolve_global(caller.module, f.id)
        if isinstance(r, FuncInfo):
            return r, 0
        if isinstance(r, ClassInfo):
            init = prog.lookup_method(r, "__init__")
            return (init, 1) if init else (None, 0)
    elif isinstance(f, ast.Attribute):
        r = prog.resolve_expr(caller.module, f)
        if isinstance(r, FuncInfo):
            # Class.method(self, ...) called explicitly
            skip = 0
            if r.cls is not None and not isinstance(prog.resolve_expr(caller.module, f.value), ClassInfo):
                skip = 1
            return r, skip
        if isinstance(r, ClassInfo):
            init = prog.lookup_method(r, "__init__")
            return (init, 1) if init else (None, 0)
        cands = [m for m in prog.all_functions() if m.cls is not None and m.name == f.attr and m.parent is None]
        if isinstance(f.value, ast.Name) and f.value.id == "self" and caller.cls is not None:
            m = prog.lookup_method(caller.cls, f.attr)
            if m is None:
                # mixin: method defined in a sibling base of the concrete classes
                m = cands[0] if len(cands) == 1 else None
            return (m, 1) if m else (None, 0)
        if len(cands) == 1:
            return cands[0], 1
    return None, 0


def check_dispatch(R, prog):
    disp = dispatchers(prog)
    index = {}
    for fi, p, lits, default in disp:
        index.setdefault(fi.key, []).append((fi, p, lits, default))
        if default is not None:
            if default in lits:
                R.ok("DISPATCH-LITERALS", "%s default %s=%r is handled" % (fi.qualname, p, default), fi.key, nontrivial=False)
            else:
                R.bad(F("DISPATCH-LITERALS", fi, "%s default %s=%r" % (fi.qualname, p, default),
                        "the default value %r of parameter %s is none of the literals the function handles %s" % (default, p, sorted(lits))))
    R.count("dispatching (function, parameter) pairs", len(disp))
    nsites = 0
    for caller in prog.all_functions():
        for call in [n for n in walk_shallow(caller.node) if isinstance(n, ast.Call)]:
            callee, skip = callee_of(prog, caller, call)
            if callee is None or callee.key not in index:
                continue
            for fi, p, lits, default in index[callee.key]:
                names = [x.arg for x in fi.node.args.posonlyargs + fi.node.args.args]
                arg = None
                for k in call.keywords:
                    if k.arg == p:
                        arg = k.value
                if arg is None and p in names:
                    pos = names.index(p) - skip
                    if 0 <= pos < len(call.args) and not any(isinstance(a, ast.Starred) for a in call.args[:pos + 1]):
                        arg = call.args[pos]
                if arg is None or not isinstance(const(arg), str):
                    continue
                nsites += 1
                v = const(arg)
                inst = "%s -> %s(%s=%r)" % (caller.qualname, fi.qualname, p, v)
                if v in lits:
                    R.ok("DISPATCH-LITERALS", inst, caller.key)
                else:
                    R.bad(F("DISPATCH-LITERALS", caller, "%s(%s=%r)" % (fi.qualname, p, v),
                            "this call passes %r but %s only handles %s: the request falls through every branch" % (v, fi.qualname, sorted(lits)), call))
    extra = 0
    if nsites < 5:
        # a constructor that selects by a literal in a way the shape rule does not recognise (a table of names, a mapping): the
        # VariablesManager.new_<kind> methods that pass such a literal are folded through that constructor by GROUP-SEMANTICS
        from . import _groups_fold as gf
        vm = prog.cls(VARS, "VariablesManager")
        for kind in gf.KINDS:
            fi = vm.methods.get("new_" + kind)
            if fi is None:
                continue
            lit = [k for c in walk_shallow(fi.node) if isinstance(c, ast.Call) for k in c.keywords if isinstance(const(k.value), str) and k.arg and "type" in k.arg]
            if lit and gf.verdict(prog, kind)[0] is True:
                extra += 1
                R.unknown("DISPATCH-LITERALS", "new_%s selects the kind of index by the literal %r" % (kind, const(lit[0].value)), fi.key,
                          "shape not recognised (no comparison chain on the parameter); the meaning of the fragment was confirmed by folding: "
                          + gf.verdict(prog, kind)[1][:120])
    R.floor("DISPATCH-LITERALS", nsites + extra, 5)


# ------------------------------------------------------------------ names aligned
def semantic_all_labels(prog):
    """fold VariablesManager.all_variable_labels over stand-in group lists (groups with gaps before / between / after them, an empty
    group, a singleton group): the i-th name produced must be the name of variable i -- the group's own label inside a group, the
    default name outside"""
    import types
    from ..fold import Folder, Raised
    from ..ql import Unknown
    fi = prog.func(VARS, "VariablesManager.all_variable_labels")

    class FakeSingleton:
        def __init__(self, first, name):
            self.first, self.name = first, name

        def __len__(self):
            return 1

        def __getitem__(self, i):
            return [self.first][i]

        def label(self):
            return [self.name]

    class FakeGroup:
        def __init__(self, first, n, stem):
            self.first, self.n, self.stem = first, n, stem

        def __len__(self):
            return self.n

        def __getitem__(self, i):
            return list(range(self.first, self.first + self.n))[i]

        def label(self):
            return ["%s%d" % (self.stem, i) for i in range(1, self.n + 1)]
    cases = [
        ([], 0), ([], 3),
        ([FakeGroup(1, 2, "a")], 2), ([FakeGroup(3, 2, "a")], 6),
        ([FakeGroup(2, 2, "a"), FakeSingleton(6, "S"), FakeGroup(7, 0, "e"), FakeGroup(8, 1, "b")], 10),
        ([FakeSingleton(1, "S"), FakeSingleton(4, "T")], 4),
    ]
    for groups, n in cases:
        want = ["x%d" % i for i in range(1, n + 1)]
        for g in groups:
            for k, lab in enumerate(g.label()[:len(g)]):
                want[g.first - 1 + k] = lab
        selfobj = types.SimpleNamespace(_groups=list(groups), _formula=types.SimpleNamespace(number_of_variables=lambda n=n: n))
        f = Folder(env={})
        f.globals = {"SingletonVariableGroup": FakeSingleton}
        try:
            got = f.call_function(fi.node, [selfobj], {})
        except Raised as r:
            return False, "all_variable_labels raises %s for groups at %s in a formula with %d variables" % (r.cls, [(g.first, len(g)) for g in groups], n)
        except Unknown as e:
            return None, "cannot fold all_variable_labels: %s" % e
        if list(got or []) != want:
            return False, ("for groups (first id, size) %s in a formula with %d variables the names are %s; variable i must be named by its group or "
                           "x<i>: %s" % ([(g.first, len(g)) for g in groups], n, list(got or []), want))
    return True, "%d group layouts folded (gaps before, between and after groups, an empty group, singletons)" % len(cases)


def check_gapfill(R, prog):
    from ._shared import with_semantics
    fi = prog.func(VARS, "VariablesManager.all_variable_labels")
    with_semantics(R, P, lambda T: _shape_check_gapfill(T, prog), semantic_all_labels(prog), "all_variable_labels names variable i at position i", fi,
                   rule="LABEL-GAPFILL")


def _shape_check_gapfill(R, prog):
    fi = prog.func(VARS, "VariablesManager.all_variable_labels")
    cfg = CFG(fi.node)
    stmts = stmts_in(fi.node)
    loops = [s for s in stmts if isinstance(s, ast.For) and src(s.iter) == "self._groups"]
    if len(loops) != 1:
        raise AnalysisError("all_variable_labels: loop over self._groups not found")
    loop = loops[0]
    vg = src(loop.target)
    inner = []

    def collect(body):
        for s in body:
            inner.append(s)
            for f in ("body", "orelse"):
                collect(getattr(s, f, []) or [])
    collect(loop.body)
    # running id variable: the one compared in the while loops
    whiles = [s for s in inner if isinstance(s, ast.While)]
    counter = None
    gap = None
    for w in whiles:
        t = w.test
        if isinstance(t, ast.Compare) and len(t.ops) == 1 and isinstance(t.ops[0], ast.Lt) and isinstance(t.left, ast.Name):
            rhs = t.comparators[0]
            env = {src(s.targets[0]): src(s.value) for s in inner if isinstance(s, ast.Assign) and len(s.targets) == 1}
            r = env.get(src(rhs), src(rhs))
            if r == "%s[0]" % vg:
                counter, gap = t.left.id, w
    if gap is None:
        R.bad(F("LABEL-GAPFILL", fi, "gap-filling loop", "no loop `while <id> < <group's first id>` inside the iteration over groups: "
                "names of groups created after anonymous variables would be shifted"))
        return
    # gap loop yields a default name and advances by one
    gtxt = [src(s) for s in gap.body]
    if any(isinstance(s, ast.Expr) and isinstance(s.value, ast.Yield) and "format(%s)" % counter in src(s.value) for s in gap.body) and \
            "%s += 1" % counter in gtxt:
        R.ok("LABEL-GAPFILL", "gap loop yields the default name of the running id and advances it by one", fi.key)
    else:
        R.bad(F("LABEL-GAPFILL", fi, "gap loop body", "the gap loop must yield default_label_format.format(id) and advance the id by one", gap))
    gnode = cfg.node_of(gap)
    ys = [s for s in inner if isinstance(s, ast.Expr) and isinstance(s.value, (ast.Yield, ast.YieldFrom)) and s not in gap.body
          and vg in src(s.value)]
    if not ys:
        raise AnalysisError("all_variable_labels: no yield of group names found")
    for y in ys:
        inst = "yield of %s" % src(y.value)[:50]
        yn = cfg.node_of(y)
        # per-iteration dominance: every path from the loop header to the yield passes the gap loop
        hn = cfg.node_of(loop)
        if cfg.reaches(hn, yn, avoid=[gnode]) and not path_through_only(cfg, hn, yn, gnode):
            R.bad(F("LABEL-GAPFILL", fi, inst,
                    "this yield of a group's own name can be reached in an iteration without passing the gap-filling loop: when the "
                    "group starts after unnamed variables, its name is emitted for a lower id and all later names shift", y))
        else:
            R.ok("LABEL-GAPFILL", inst + " comes after gap filling in the same iteration", fi.key)
    # advance by the group's length after yielding its names
    adv = [s for s in inner if isinstance(s, ast.AugAssign) and src(s.target) == counter and s not in gap.body]
    good = True
    for y in ys:
        yn = cfg.node_of(y)
        follows = [a for a in adv if cfg.reaches(yn, cfg.node_of(a), avoid=[cfg.node_of(loop)])]
        ok = False
        for a in follows:
            v = src(a.value)
            if v == "len(%s)" % vg or (v == "1" and "name" in src(y.value)):
                ok = True
        good = good and ok
    if good:
        R.ok("LABEL-GAPFILL", "after a group's names the running id advances by the group's length", fi.key)
    else:
        R.bad(F("LABEL-GAPFILL", fi, "id advance", "after yielding a group's names the running id must advance by len(group)"))
    tail = [s for s in stmts if isinstance(s, ast.While) and s not in inner and isinstance(s.test, ast.Compare)
            and src(s.test.left) == counter and isinstance(s.test.ops[0], ast.LtE)]
    env = {src(s.targets[0]): src(s.value) for s in stmts if isinstance(s, ast.Assign) and len(s.targets) == 1}
    if len(tail) == 1 and env.get(src(tail[0].test.comparators[0]), "") == "self._formula.number_of_variables()" and \
            cfg.reaches(cfg.node_of(loop), cfg.node_of(tail[0])):
        R.ok("LABEL-GAPFILL", "tail loop names the remaining ids up to the declared count", fi.key)
    else:
        R.bad(F("LABEL-GAPFILL", fi, "tail loop", "after the groups the remaining ids up to number_of_variables() must get default names"))
    init = [s for s in stmts if isinstance(s, ast.Assign) and src(s.targets[0]) == counter and s not in inner]
    if len(init) == 1 and is_const(init[0].value, 1):
        R.ok("LABEL-GAPFILL", "running id starts at 1", fi.key)
    else:
        R.bad(F("LABEL-GAPFILL", fi, "running id start", "the running id must start at 1"))


def path_through_only(cfg, a, b, via):
    """no path a ->+ b avoids ``via``"""
    return not cfg.reaches(a, b, avoid=[via])


# ------------------------------------------------------------------ interface
def check_interface(R, prog):
    base = prog.cls(VARS, "BaseVariableGroup")
    for cname in GROUPS:
        ci = prog.cls(VARS, cname)
        if base not in prog.mro(ci):
            R.bad(F("GROUP-INTERFACE", None, cname, "%s is not a BaseVariableGroup" % cname))
            continue
        for m in ("indices", "to_index", "_unsafe_index_to_lit", "label", "__call__", "__contains__", "__len__"):
            fi = prog.lookup_method(ci, m)
            concrete = fi is not None and not (fi.cls is base and any(isinstance(s, ast.Raise) and "NotImplementedError" in src(s)
                                                                     for s in fi.node.body))
            if cname == "SingletonVariableGroup" and m == "_unsafe_index_to_lit":
                continue     # a singleton is called directly (__call__ returns its id)
            if concrete:
                R.ok("GROUP-INTERFACE", "%s.%s is implemented (%s)" % (cname, m, fi.cls.name), fi.key, nontrivial=fi.cls is not base)
            else:
                R.bad(F("GROUP-INTERFACE", fi, "%s.%s" % (cname, m), "%s inherits the abstract %s: the operation raises NotImplementedError" % (cname, m)))
        # to_index refuses foreign literals before computing
        fi = prog.lookup_method(ci, "to_index")
        cfg = CFG(fi.node)
        rets = [s for s in stmts_in(fi.node) if isinstance(s, ast.Return)]
        guards = []
        for s in stmts_in(fi.node):
            if isinstance(s, ast.If) and s.body and isinstance(s.body[0], ast.Raise) and "ValueError" in src(s.body[0]):
                t = src(s.test)
                if t in ("var not in self", "abs(lit) not in self", "abs(lit) != self[0]", "lit not in self"):
                    guards.append(s)
        delegates = [c for s in stmts_in(fi.node) for c in ast.walk(s) if isinstance(c, ast.Call) and method_name(c) == "to_index"
                     and src(c.func.value) in ("self.VG", "self.BG")]
        if guards and all(cfg.edge_dominates(cfg.node_of(guards[0]), False, cfg.node_of(r)) for r in rets):
            R.ok("GROUP-INTERFACE", "%s.to_index raises ValueError for a literal outside the group before computing" % cname, fi.key)
        elif delegates:
            R.ok("GROUP-INTERFACE", "%s.to_index delegates to its inner edge group (which refuses foreign literals)" % cname, fi.key)
        else:
            R.bad(F("GROUP-INTERFACE", fi, "%s.to_index foreign literal" % cname,
                    "to_index must refuse (ValueError) a literal that is not in the group before doing index arithmetic"))
    fi = prog.func(VARS, "BaseVariableGroup.__contains__")
    if any(src(s) == "return abs(%s) in self.ids" % fi.params[1] for s in stmts_in(fi.node)):
        R.ok("GROUP-INTERFACE", "membership: abs(lit) in ids (positive and negative literals alike)", fi.key)
    else:
        R.bad(F("GROUP-INTERFACE", fi, "BaseVariableGroup.__contains__", "membership must be `abs(lit) in self.ids`"))
    fi = prog.func(VARS, "BaseVariableGroup.__call__")
    txt = {src(s) for s in stmts_in(fi.node)}
    if any(t.startswith("isProjection = len(index) == 0 or None in index") for t in txt) and \
            any("self._unsafe_index_to_lit(t) for t in self.indices(*index)" in t for t in txt):
        R.ok("GROUP-INTERFACE", "group(...) = ids of indices(pattern); a full index returns the single id", fi.key)
    else:
        R.unknown("GROUP-INTERFACE", "BaseVariableGroup.__call__", fi.key, "call protocol written in an unrecognised way")


def check_enum_start(R, prog):
    n = 0
    for fi in prog.all_functions():
        for c in [x for x in walk_shallow(fi.node) if isinstance(x, ast.Call)]:
            if call_name(c) == "enumerate" and c.args and isinstance(c.args[0], ast.Call) and method_name(c.args[0]) == "all_variable_labels":
                n += 1
                st = kwarg(c, "start", 1)
                if st is not None and is_const(st, 1):
                    R.ok("ENUM-START", "%s numbers variable names from 1" % fi.qualname, fi.key)
                else:
                    R.bad(F("ENUM-START", fi, "%s enumerate start" % fi.qualname,
                            "variable names must be numbered from 1 (enumerate(..., start=1)); found %s" % src(c), c))
    # the numbering itself is compared by the folded writers (WRITER-SEMANTICS: the `varname` lines / the LaTeX literal table read back);
    # when they confirm it, a serialiser that counts in another way than enumerate(.., start=1) is no vacuous pass
    from . import _writer_fold
    sems = [_writer_fold.verdict(prog, w) for w in ("dimacs", "opb", "latex")]
    for w, v in zip(("to_dimacs_file", "to_opb_file", "_print_latex"), sems):
        if v[0] is True:
            R.ok("ENUM-START", "%s: names numbered from 1 (%s)" % (w, v[1][:80]), "cnfgen.utils")
        elif v[0] is False:
            R.bad(F("ENUM-START", None, "%s numbering of names" % w, v[1]))
    R.floor("ENUM-START", n, 1 if all(v[0] is True for v in sems) else 3)


def check_index_order(R, prog):
    # Block: indices = product over the ranges in declaration order (first index most significant, as the weights)
    fi = prog.func(VARS, "BlockOfVariables.indices")
    txt = [src(s) for s in stmts_in(fi.node)]
    ok = "return product(*x)" in txt and any(isinstance(s, ast.For) and src(s.iter) == "zip(pattern, self.ranges)" for s in stmts_in(fi.node)) \
        and "x.append(range(1, R + 1))" in txt and "x.append((i,))" in txt
    if ok:
        R.ok("INDEX-ORDER", "BlockOfVariables.indices: lexicographic product of 1..R_j in declaration order", fi.key)
    else:
        R.unknown("INDEX-ORDER", "BlockOfVariables.indices", fi.key, "unrecognised shape")
    rng = None
    for s in stmts_in(fi.node):
        if isinstance(s, ast.If) and isinstance(s.test, ast.Compare) and src(s.test) == "1 <= i <= R":
            rng = s
    if rng is not None:
        R.ok("INDEX-ORDER", "BlockOfVariables.indices refuses an index outside 1..R", fi.key)
    else:
        R.bad(F("INDEX-ORDER", fi, "BlockOfVariables.indices range test", "a fixed index must satisfy 1 <= i <= R, anything else raises ValueError"))
    # Binary: (i, b) with i outer ascending, b inner descending
    fi = prog.func(VARS, "BinaryMappingVariables.indices")
    rets = [s.value for s in stmts_in(fi.node) if isinstance(s, ast.Return)]
    ok = rets and isinstance(rets[-1], ast.GeneratorExp) and [src(g.iter) for g in rets[-1].generators] == ["I", "B"] and \
        src(rets[-1].elt) == "(i, b)"
    if ok:
        R.ok("INDEX-ORDER", "BinaryMappingVariables.indices: element-major, bits from most significant", fi.key)
    else:
        R.bad(F("INDEX-ORDER", fi, "BinaryMappingVariables.indices order", "indices must enumerate (i, b) for i in domain for b in descending bit positions"))
    cons = [src(s.test) for s in stmts_in(fi.node) if isinstance(s, ast.If) and s.body and isinstance(s.body[0], ast.Raise)]
    if "not 1 <= i <= self.domain_size" in cons and "not 0 <= b < self.bitlength" in cons:
        R.ok("INDEX-ORDER", "BinaryMappingVariables.indices refuses i outside 1..n and b outside 0..bits-1", fi.key)
    else:
        R.bad(F("INDEX-ORDER", fi, "BinaryMappingVariables.indices range tests", "expected refusals for i outside 1..domain_size and b outside 0..bitlength-1"))
    # Bipartite edges: all edges = G.edges() (left vertex, then its sorted neighbours) -- same order as the offsets
    fi = prog.func(VARS, "BipartiteEdgesVariables.indices")
    txt = [src(s) for s in stmts_in(fi.node)]
    from ..guards import constraints_when, has
    cfg = CFG(fi.node)
    for var, bound, ret in (("u", "self.G.left_order()", "return ((u, v) for v in self.G.right_neighbors(u))"),
                            ("v", "self.G.right_order()", "return ((u, v) for u in self.G.left_neighbors(v))")):
        rets = [s for s in stmts_in(fi.node) if src(s) == ret]
        guards = [s for s in stmts_in(fi.node) if isinstance(s, ast.If) and s.body and isinstance(s.body[0], ast.Raise)]
        ok = False
        for r in rets:
            for g in guards:
                c = constraints_when(g.test, False)
                if has(c, var, ">=", "", 1) and has(c, var, "<=", bound, 0) and cfg.edge_dominates(cfg.node_of(g), False, cfg.node_of(r)):
                    ok = True
        if rets and ok:
            R.ok("INDEX-ORDER", "BipartiteEdgesVariables.indices refuses a fixed %s outside 1..%s before projecting" % (var, bound), fi.key)
        elif rets:
            R.bad(F("INDEX-ORDER", fi, "BipartiteEdgesVariables.indices range test on %s" % var,
                    "a wildcard pattern with fixed %s must be refused (ValueError) unless 1 <= %s <= %s: complete bipartite graphs do "
                    "not validate the vertex themselves, so an out-of-range index is silently accepted" % (var, var, bound)))
    if "return self.G.edges()" in txt and "return ((u, v) for v in self.G.right_neighbors(u))" in txt and \
            "return ((u, v) for u in self.G.left_neighbors(v))" in txt:
        R.ok("INDEX-ORDER", "BipartiteEdgesVariables.indices: edges by left vertex then sorted right neighbour (offset order)", fi.key)
    else:
        R.unknown("INDEX-ORDER", "BipartiteEdgesVariables.indices", fi.key, "unrecognised shape")


def check_wildcard_none(R, prog):
    """WILDCARD-NONE: in the variable groups an index position is a wildcard exactly when it is None.  A name that holds an index
    pattern element (taken from `pattern[..]`, from iterating the pattern, or a parameter whose default is None) is never used as a
    bare truth value: `if i:` also treats the index 0 as `absent`, so an out-of-range 0 is silently accepted as a wildcard."""
    from ._shared import truth_tested_names
    m = prog.modules[VARS]
    n = 0
    for cname, ci in sorted(m.classes.items()):
        for mname, fi in sorted(ci.methods.items()):
            a = fi.node.args
            cands = set()
            pos = a.posonlyargs + a.args
            for arg, d in zip(pos[len(pos) - len(a.defaults):], a.defaults):
                if isinstance(d, ast.Constant) and d.value is None and arg.arg not in ("labelfmt", "label", "name", "description"):
                    cands.add(arg.arg)
            pat = {a.vararg.arg} if a.vararg else set()
            pat |= {x.arg for x in pos if x.arg == "pattern"}
            for st in stmts_in(fi.node):
                if isinstance(st, ast.Assign) and len(st.targets) == 1:
                    t, v = st.targets[0], st.value
                    if isinstance(t, ast.Name) and isinstance(v, ast.Subscript) and isinstance(v.value, ast.Name) and v.value.id in pat:
                        cands.add(t.id)
                    if isinstance(t, ast.Tuple) and isinstance(v, ast.Name) and v.id in pat:
                        cands |= {x.id for x in t.elts if isinstance(x, ast.Name)}
                if isinstance(st, ast.For) and any(isinstance(x, ast.Name) and x.id in pat for x in ast.walk(st.iter)):
                    cands |= {x.id for x in ast.walk(st.target) if isinstance(x, ast.Name)}
            if not cands:
                continue
            tested = truth_tested_names(fi.node)
            for c in sorted(cands):
                n += 1
                if c in tested:
                    R.bad(F("WILDCARD-NONE", fi, "%s.%s tests index `%s` for truth" % (cname, mname, c),
                            "`%s` is an index that may be None (wildcard); used as a truth value the index 0 counts as a wildcard too, so an "
                            "index outside the group is accepted instead of refused: test `is None`" % c, tested[c]))
                else:
                    R.ok("WILDCARD-NONE", "%s.%s: `%s` only compared with None" % (cname, mname, c), fi.key, nontrivial=False)
    # the count of index names depends on how the methods unpack their pattern; when every kind of group was folded and found to select
    # and refuse as documented (GROUP-SEMANTICS, which tries the index 0 in every position) a lower count is not a vacuous pass
    from . import _groups_fold as gf
    allok = all(gf.verdict(prog, k)[0] is True for k in gf.KINDS)
    R.floor("WILDCARD-NONE", n, 1 if allok else 10)
