"""Bounded folding of the `cli()` drivers of cnfgen / pbgen (C17 CHAIN-ORDER, C18 CONVERT) over scripted stand-ins for the parsers,
the helpers and the formula: what is compared is the orchestration -- which helper builds, in which order the transformations are
applied and with which of their own option sets, which error of which stage ends in which parser's error() (CLIError) or in
InternalBug, what is written into the header, and which renderer each mode / format calls.  Nothing of cnfgen is run."""
import ast
import types

from ..fold import Folder, Raised
from ..ql import Unknown


class Prefix:
    def __init__(self, log, p):
        self.log, self.p = log, p

    def __enter__(self):
        self.log.append(("enter", self.p))
        return None

    def __exit__(self, *a):
        self.log.append(("exit", self.p))
        return False


class Parser:
    def __init__(self, name, log):
        self.name, self.log = name, log

    def error(self, msg):
        self.log.append(("error", self.name))
        raise CLIErrorSignal(self.name)


class CLIErrorSignal(Exception):
    def __init__(self, who):
        self.who = who


class Formula:
    def __init__(self, trace):
        self.trace = trace
        self.header = {"description": "d"}
        self.calls = []

    def to_latex(self, *a, **k):
        self.calls.append(("to_latex", a, k))
        return "<latex>"

    def to_opb(self, *a, **k):
        self.calls.append(("to_opb", a, k))
        return "<opb>"

    def to_dimacs(self, *a, **k):
        self.calls.append(("to_dimacs", a, k))
        return "<dimacs>"

    def to_file(self, *a, **k):
        self.calls.append(("to_file", a, k))


class Helper:
    def __init__(self, name, log, outcome):
        self.name, self.log, self.outcome = name, log, outcome
        self.subparser = Parser("subparser of " + name, log)

    def _do(self, trace):
        if self.outcome == "ok":
            return Formula(trace)
        raise Raised(self.outcome)

    def build_formula(self, args, formula_class=None):
        self.log.append(("build", self.name, args, formula_class))
        return self._do((self.name,))

    def transform_cnf(self, F, args):
        self.log.append(("transform", self.name, F, args))
        return self._do(F.trace + (self.name,))


class _CLIError(Exception):
    pass


def _run(prog, tool, argv, mode, gen_outcome, t_outcomes, fmt, seed, has_generator=True, t_missing=None):
    mod = "cnfgen.clitools." + tool
    fi = prog.func(mod, "cli")
    m = prog.module(mod)
    log = []
    parser, t_parser = Parser("main parser", log), Parser("transformation parser", log)
    gen = Helper("G", log, gen_outcome)
    # the requested format differs from the effective one (as when the format is inferred from the name of the output file)
    args = types.SimpleNamespace(output="OUTFILE", output_format="as-requested", verbose="VERBOSE", varnames="VARNAMES")
    if has_generator:
        args.generator = gen
    if seed is not None:
        args.seed = seed
    t_args = []
    for i, oc in enumerate(t_outcomes):
        ns = types.SimpleNamespace(tag="t%d" % (i + 1))
        if t_missing != i:
            ns.transformation = Helper("T%d" % (i + 1), log, oc)
        t_args.append(ns)
    f = Folder(env={}, fuel=100000)
    f.module_functions = {}

    def raising(x):
        if isinstance(x, Raised):
            raise x
        return x
    g = {
        "sys": types.SimpleNamespace(argv=["prog", "from", "sys"]),
        "get_formula_helpers": lambda: "FH", "get_transformation_helpers": lambda: "TH",
        "setup_command_line_parsers": (lambda *a: (parser, t_parser)) if tool == "cnfgen" else (lambda *a: parser),
        "parse_command_line": (lambda av, p_, tp=None: (args, t_args)) if tool == "cnfgen" else (lambda av, p_: args),
        "msg_prefix": lambda p_="": Prefix(log, p_),
        "guess_output_format": lambda o, f_: fmt if (o, f_) == ("OUTFILE", "as-requested") else "guess_output_format called with other arguments",
        "build_latex_cmdline_description": lambda *a: "EXTRA",
        "CNF": "CNF-class", "OPB": "OPB-class",
    }
    f.globals = g
    try:
        out = ("value", f.call_function(fi.node, [argv], {"mode": mode}))
    except Raised as r:
        out = ("raises", r.cls.split("(")[0])
    except CLIErrorSignal as e:
        out = ("raises", "CLIError via " + e.who)
    return out, log, args, t_args, gen


def semantic_cli(prog, tool):
    cnt = 0
    klass = "CNF-class" if tool == "cnfgen" else "OPB-class"
    formats = ("dimacs", "opb", "latex") if tool == "cnfgen" else ("opb", "latex")
    chains = [[], ["ok"], ["ok", "ok", "ok"]] if tool == "cnfgen" else [[]]
    argv = ["prog", "-q", 3, "fam", "7"]
    # the good paths
    for chain in chains:
        for fmt in formats:
            for mode in ("formula", "string", "output"):
                for seed in (None, 0, 5):
                    what = "%s.cli(mode=%r) with %d transformations, format %s, seed %r" % (tool, mode, len(chain), fmt, seed)
                    out, log, args, t_args, gen = _run(prog, tool, list(argv), mode, "ok", chain, fmt, seed)
                    if out[0] != "value":
                        return False, "%s ends with %r" % (what, out)
                    builds = [e for e in log if e[0] == "build"]
                    trs = [e for e in log if e[0] == "transform"]
                    marker = ("enter", {"dimacs": "c ", "opb": "* ", "latex": "% "}[fmt])
                    closing = ("exit", marker[1])
                    if marker not in log or closing not in log:
                        return False, "%s: messages are not prefixed with the comment marker of the %s format" % (what, fmt)
                    inside = log[log.index(marker):len(log) - 1 - log[::-1].index(closing)]
                    if any(e[0] in ("build", "transform") and e not in inside for e in log):
                        return False, "%s: the formula is built / transformed outside the scope of the %s comment prefix" % (what, fmt)
                    if len(builds) != 1 or builds[0][2] is not args or builds[0][3] != klass:
                        return False, "%s: the formula must be built once, by args.generator, from the parsed options, with formula_class=%s" % (what, klass)
                    if [e[1] for e in trs] != ["T%d" % (i + 1) for i in range(len(chain))] or any(e[3] is not t_args[i] for i, e in enumerate(trs)):
                        return False, "%s applies the transformations %s; each of %s once, in command line order, with its own options" % (
                            what, [(e[1], getattr(e[3], "tag", "?")) for e in trs], ["T%d" % (i + 1) for i in range(len(chain))])
                    want_trace = ("G",) + tuple("T%d" % (i + 1) for i in range(len(chain)))
                    if mode == "formula":
                        produced = out[1]
                        if not isinstance(produced, Formula) or produced.trace != want_trace:
                            return False, "%s returns %r; the formula after all transformations (%s) expected" % (what, getattr(produced, "trace", produced), want_trace)
                    if mode == "formula":
                        hdr = out[1].header
                        if hdr.get("command line") != "%s -q 3 fam 7" % tool:
                            return False, "%s: header 'command line' is %r" % (what, hdr.get("command line"))
                        if (seed is not None) != ("random seed" in hdr) or (seed is not None and hdr["random seed"] != seed):
                            return False, "%s: header 'random seed' is %r" % (what, hdr.get("random seed", "<absent>"))
                    cnt += 1
    # renderers: the stand-in records calls on the final formula; expose it through a chain of length 0 where the generator's product
    # is the final one
    for fmt in formats:
        for mode in ("string", "output"):
            keep = {}

            class H(Helper):
                def build_formula(self, args, formula_class=None):
                    keep["F"] = Helper.build_formula(self, args, formula_class)
                    return keep["F"]
            mod = "cnfgen.clitools." + tool
            out, log, args, t_args, gen = _run(prog, tool, list(argv), mode, "ok", [], fmt, None)
            # re-run with the recording helper
            import types as _t
            fi = prog.func(mod, "cli")
            log2 = []
            parser, t_parser = Parser("main parser", log2), Parser("transformation parser", log2)
            gen = H("G", log2, "ok")
            args = _t.SimpleNamespace(output="OUTFILE", output_format="as-requested", verbose="VERBOSE", varnames="VARNAMES", generator=gen)
            f = Folder(env={}, fuel=100000)
            f.globals = {
                "sys": _t.SimpleNamespace(argv=["prog"]), "get_formula_helpers": lambda: "FH", "get_transformation_helpers": lambda: "TH",
                "setup_command_line_parsers": (lambda *a: (parser, t_parser)) if tool == "cnfgen" else (lambda *a: parser),
                "parse_command_line": (lambda av, p_, tp=None: (args, [])) if tool == "cnfgen" else (lambda av, p_: args),
                "msg_prefix": lambda p_="": Prefix(log2, p_), "guess_output_format": lambda o, f_: fmt,
                "build_latex_cmdline_description": lambda *a: "EXTRA", "CNF": "CNF-class", "OPB": "OPB-class"}
            what = "%s.cli(mode=%r), format %s" % (tool, mode, fmt)
            try:
                res = f.call_function(fi.node, [list(argv)], {"mode": mode})
            except Raised as r:
                return False, "%s raises %s" % (what, r.cls)
            calls = keep["F"].calls
            if mode == "string":
                want = {"dimacs": "to_dimacs", "opb": "to_opb", "latex": "to_latex"}[fmt]
                if [c[0] for c in calls] != [want] or res != "<%s>" % fmt:
                    return False, "%s calls %s and returns %r; exactly %s and its text expected" % (what, [c[0] for c in calls], res, want)
            else:
                if len(calls) != 1 or calls[0][0] != "to_file" or calls[0][1][:1] != ("OUTFILE",) or \
                        calls[0][2].get("fileformat", calls[0][1][1] if len(calls[0][1]) > 1 else None) != fmt or \
                        calls[0][2].get("export_header") != "VERBOSE" or calls[0][2].get("export_varnames") != "VARNAMES" or res is not None:
                    return False, "%s: output must be one to_file(args.output, fileformat=%r, export_header=args.verbose, export_varnames=args.varnames ..); found %r" % (what, fmt, calls)
            if ("enter", {"dimacs": "c ", "opb": "* ", "latex": "% "}[fmt]) not in log2:
                return False, "%s: messages are not prefixed with the comment marker of the %s format" % (what, fmt)
            cnt += 1
    # error conversion
    for stage in (["G"] + (["T1", "T2"] if tool == "cnfgen" else [])):
        for exc, want in (("ValueError", "CLIError via subparser of " + stage), ("CLIError", "CLIError via subparser of " + stage),
                          ("RuntimeError", "InternalBug")):
            gen_o = exc if stage == "G" else "ok"
            chain = ["ok", "ok"] if tool == "cnfgen" else []
            if stage != "G":
                chain[int(stage[1]) - 1] = exc
            out, log, *_ = _run(prog, tool, list(argv), "string", gen_o, chain, formats[-1], None)
            what = "%s.cli when %s raises %s" % (tool, "the generator" if stage == "G" else "transformation " + stage, exc)
            if out != ("raises", want):
                return False, "%s ends with %r; %s expected" % (what, out, want)
            later = [e for e in log if e[0] == "transform" and stage != "G" and int(e[1][1]) > int(stage[1])]
            if (stage == "G" and any(e[0] == "transform" for e in log)) or later:
                return False, "%s: later stages still run" % what
            cnt += 1
    out, log, *_ = _run(prog, tool, list(argv), "string", "ok", [], formats[-1], None, has_generator=False)
    if out != ("raises", "CLIError via main parser"):
        return False, "%s.cli without a formula family ends with %r; the main parser's error expected" % (tool, out)
    if tool == "cnfgen":
        out, log, *_ = _run(prog, tool, list(argv), "string", "ok", ["ok", "ok"], "dimacs", None, t_missing=1)
        if out != ("raises", "CLIError via transformation parser"):
            return False, "cnfgen.cli with a -T without transformation ends with %r; the transformation parser's error expected" % (out,)
        if any(e[0] in ("build", "transform") for e in log):
            return False, "cnfgen.cli with a -T without transformation builds the formula before refusing the command line"
    else:
        out, log, *_ = _run(prog, tool, list(argv), "string", "ok", [], "dimacs", None)
        if out != ("raises", "CLIError"):
            return False, "pbgen.cli asked for DIMACS ends with %r; CLIError expected" % (out,)
    out, log, *_ = _run(prog, tool, list(argv), "string", "ok", [], "nosuchformat", None)
    if out != ("raises", "InternalBug"):
        return False, "%s.cli with an unknown output format ends with %r; InternalBug expected" % (tool, out)
    return True, "%d scripted runs of %s.cli folded (transformation order, header, renderers, error conversion)" % (cnt + 3, tool)


_V = {}


def verdict(prog, tool):
    key = (id(prog), tool)
    if key not in _V:
        try:
            _V[key] = semantic_cli(prog, tool)
        except Unknown as e:
            _V[key] = (None, "cannot fold %s.cli: %s" % (tool, e))
    return _V[key]
