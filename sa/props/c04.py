"""C04 -- linear, parity and mapping constraint builders mean what their names say."""
import ast
import re

from ..loader import AnalysisError, walk_shallow
from ..cfg import CFG
from ..astutil import src, call_name, method_name, const, is_const, stmts_in, same_expr, alpha_dump, cmp_ops
from ..builders import builder_table, SPEC, NAMED, local_env
from ..ql import ev, Unknown
from ..report import Result, Finding

P = "C04"
LIN = "cnfgen.formula.linear"
OPB = "cnfgen.formula.baseopb"
VARS = "cnfgen.formula.variables"
WINDOW = range(0, 64)
VALUES = range(-3, 9)


def F(rule, fi, construct, msg, node=None):
    return Finding(P, rule, fi, construct, msg, node=node)


def run(prog, tier):
    _R = _run(prog, tier)
    from ._shared import check_iterator_reuse
    check_iterator_reuse(_R, prog, P, ['cnfgen.formula'], 50)
    return _R


def _run(prog, tier):
    R = Result(P, "THRESHOLD-SPEC: (operator, threshold) extracted from each of the 8 named builders of CNFLinear and BaseOPB, "
               "strict operators folded, compared exactly (window n=0..63, value=-3..8; sufficient for quasi-linear forms with "
               "divisor 2) with the specification fixed by the builder's name.  THRESHOLD-SIBLING: CNF vs OPB directly.  "
               "OP-REDUCTION: rewrite rows of add_linear and normalize_opb extracted and compared with the sound rewrites; "
               "abstract interpretation over the finite operator set shows only {>=,==} leave normalize_opb.  PARITY-SIGN, "
               "NEQ-BLAST (flip/emit/restore over all value-subsets), ITERABLE-ARG (typestate: a literal-list parameter is "
               "materialised before len/index/item-assignment), NO-DISCARDED-EXC, MAPPING-DISPATCH, FORBID-BITS.  "
               "Decides these structural clauses; that (n-k+1)-subset blasting encodes >=k is trusted.")
    R.trust("sum(l_i) >= k  <=>  every (n-k+1)-subset of the literals contains a true one (pigeonhole); "
            "sum != c  <=>  for every c-subset S the clause {not l: l in S} + {l: l not in S} holds",
            "itertools.product([1,-1], repeat=k) enumerates sign vectors with the first component most significant",
            "inspect.isgenerator is true only for generator objects (not for tuple / range / list)")
    table = builder_table(prog)
    check_thresholds(R, prog, table)
    check_builder_paths(R, prog, table)
    check_add_linear(R, prog)
    check_normalize(R, prog)
    check_parity(R, prog)
    check_neq_blast(R, prog)
    check_iterable(R, prog)
    check_discarded_exceptions(R, prog)
    check_mapping_dispatch(R, prog)
    check_mapping_schema(R, prog)
    check_forbid_bits(R, prog)
    return R


# ------------------------------------------------------------------ thresholds
def check_thresholds(R, prog, table):
    n_ok = 0
    for (kind, name), bi in sorted(table.items()):
        rel_spec, thr_spec = SPEC[name]
        cls = "CNFLinear" if kind == "cnf" else "BaseOPB"
        inst = "%s.%s == sum %s %s" % (cls, name, rel_spec, {"cardinality": "value"}.get(name.split("_")[0], "f(n)"))
        if bi is None:
            if name == "cardinality_neq" and kind == "opb":
                continue    # blasted in place; see NEQ-BLAST
            fi = prog.func(LIN if kind == "cnf" else OPB, cls + "." + name)
            R.bad(F("THRESHOLD-SPEC", fi, cls + "." + name, "cannot find the add_linear / add_constraint call of this builder"))
            continue
        bad = None
        try:
            for n in WINDOW:
                for v in VALUES:
                    rel, t = bi.normalised(n, v)
                    if rel != rel_spec or t != thr_spec(n, v):
                        bad = (n, v, rel, t, thr_spec(n, v))
                        break
                if bad:
                    break
        except Unknown as e:
            R.bad(F("THRESHOLD-SPEC", bi.fi, cls + "." + name, "threshold expression not foldable (%s): %s" % (e, src(bi.thr_expr)), bi.call))
            continue
        if bad:
            n, v, rel, t, want = bad
            R.bad(F("THRESHOLD-SPEC", bi.fi, cls + "." + name,
                    "for %d literals%s the builder emits `sum %s %d` but its name promises `sum %s %d` (operator %r, "
                    "threshold %s)" % (n, "" if name.startswith("add_") else " and value=%d" % v, rel, t, rel_spec, want,
                                       bi.op, src(bi.thr_expr)), bi.call))
        else:
            R.ok("THRESHOLD-SPEC", inst + " [%r, %s]" % (bi.op, src(bi.thr_expr)), bi.fi.key)
            n_ok += 1
        # literal list passed through unchanged (CNF) / as unit-coefficient pairs (OPB)
        p = bi.fi.params[1]
        le = bi.lits_expr
        env = local_env(bi.fi.node)
        if isinstance(le, ast.Name) and le.id in env and le.id != p:
            le = env[le.id]
        good = False
        if kind == "cnf":
            good = isinstance(le, ast.Name) and le.id == p
        else:
            if isinstance(le, ast.Name) and le.id == p:
                # rebinding  lits = [(1, l) for l in lits]
                for s in stmts_in(bi.fi.node):
                    if isinstance(s, ast.Assign) and len(s.targets) == 1 and isinstance(s.targets[0], ast.Name) \
                            and s.targets[0].id == p:
                        le = s.value
            if isinstance(le, ast.ListComp) and isinstance(le.elt, ast.Tuple) and len(le.elt.elts) == 2 and \
                    is_const(le.elt.elts[0], 1) and isinstance(le.elt.elts[1], ast.Name) and \
                    isinstance(le.generators[0].target, ast.Name) and \
                    le.elt.elts[1].id == le.generators[0].target.id and src(le.generators[0].iter) == p and \
                    not le.generators[0].ifs:
                good = True
        if good:
            R.ok("THRESHOLD-SPEC", "%s.%s constrains exactly the given literals (coefficient 1, same sign)" % (cls, name), bi.fi.key)
        else:
            R.bad(F("THRESHOLD-SPEC", bi.fi, "%s.%s literal list" % (cls, name),
                    "the builder must constrain the literals it was given, each with coefficient 1 and unchanged sign; "
                    "it passes %s" % src(bi.lits_expr), bi.call))
    R.floor("THRESHOLD-SPEC", n_ok, 0)
    # siblings
    for name in NAMED:
        a, b = table[("cnf", name)], table[("opb", name)]
        if a is None or b is None:
            continue
        diff = None
        try:
            for n in WINDOW:
                for v in VALUES:
                    if a.normalised(n, v) != b.normalised(n, v):
                        diff = (n, v, a.normalised(n, v), b.normalised(n, v))
                        break
                if diff:
                    break
        except Unknown:
            continue
        if diff:
            R.bad(F("THRESHOLD-SIBLING", b.fi, name,
                    "CNF and OPB encodings disagree for n=%d value=%d: CNFLinear gives sum %s %d, BaseOPB gives sum %s %d"
                    % (diff[0], diff[1], diff[2][0], diff[2][1], diff[3][0], diff[3][1]), b.call))
        else:
            R.ok("THRESHOLD-SIBLING", "CNFLinear.%s == BaseOPB.%s for all n" % (name, name), b.fi.key)


# ------------------------------------------------------------------ add_linear
def check_builder_paths(R, prog, table):
    """BUILDER-PATH: a named builder states its constraint on every path and states nothing else: the extracted emitter call is on
    every path from entry to a normal exit, and it is the only call of an emitter of the formula in the method.  (A shortcut that
    handles some lengths / values by another constraint escapes the threshold comparison, which looks at the one call.)"""
    emit = {"add_clause", "add_linear", "add_constraint", "add_clauses_from", "add_constraints_from", "add_parity"} | set(NAMED)
    n = 0
    for (kind, name), b in sorted(table.items()):
        if b is None:
            continue
        n += 1
        fi = b.fi
        cfg = CFG(fi.node)
        stmt = None
        for st in stmts_in(fi.node):
            if any(x is b.call for x in ast.walk(st)) and not isinstance(st, (ast.If, ast.For, ast.While, ast.Try, ast.With)):
                stmt = st
        node = cfg.node_of(stmt) if stmt is not None else None
        others = [c for c in walk_shallow(fi.node) if isinstance(c, ast.Call) and isinstance(c.func, ast.Attribute)
                  and isinstance(c.func.value, ast.Name) and c.func.value.id == "self" and c.func.attr in emit and c is not b.call]
        cls = "CNFLinear" if kind == "cnf" else "BaseOPB"
        if node is None or cfg.reaches(cfg.entry, cfg.exit, avoid=[node]):
            R.bad(F("BUILDER-PATH", fi, "%s.%s can return without stating its constraint" % (cls, name),
                    "some path through the builder skips `%s`: for those inputs the named constraint is not added" % src(b.call)[:70], b.call))
        elif others:
            R.bad(F("BUILDER-PATH", fi, "%s.%s states a second constraint" % (cls, name),
                    "besides `%s` the builder calls `%s`: for the inputs taking that branch the constraint is not the one the name states "
                    "(the threshold comparison only covers the first)" % (src(b.call)[:60], src(others[0])[:70]), others[0]))
        else:
            R.ok("BUILDER-PATH", "%s.%s: one emitter call, on every path" % (cls, name), fi.key)
    R.floor("BUILDER-PATH", n, 14)


def op_branches(fnode, opname):
    """[(literal, If-node, body)] for tests  ``<opname> == 'lit'``  anywhere in the function"""
    out = []
    for s in stmts_in(fnode):
        if isinstance(s, ast.If) and isinstance(s.test, ast.Compare) and len(s.test.ops) == 1 and \
                isinstance(s.test.ops[0], ast.Eq) and isinstance(s.test.left, ast.Name) and s.test.left.id == opname:
            lit = const(s.test.comparators[0])
            if isinstance(lit, str):
                out.append((lit, s, s.body))
    return out


def _shape_check_add_linear(R, prog):
    fi = prog.func(LIN, "CNFLinear.add_linear")
    cfg = CFG(fi.node)
    pl, pop, pc = fi.params[1:4]
    branches = {lit: (node, body) for lit, node, body in op_branches(fi.node, pop)}
    # expected rewrites: op_in -> [(negated?, op_out, constant as function of (c, n))]
    want = {
        "==": [(False, "<=", lambda c, n: c), (False, ">=", lambda c, n: c)],
        "<": [(False, "<=", lambda c, n: c - 1)],
        ">": [(False, ">=", lambda c, n: c + 1)],
        "<=": [(True, ">=", lambda c, n: n - c)],
    }
    env = local_env(fi.node)
    for op_in, rows in want.items():
        if op_in not in branches:
            R.bad(F("OP-REDUCTION", fi, "add_linear branch %r" % op_in, "no branch reduces operator %r" % op_in))
            continue
        node, body = branches[op_in]
        calls = [c for s in body for c in ast.walk(s) if isinstance(c, ast.Call) and call_name(c) == "self.add_linear"]
        got = []
        okshape = isinstance(body[-1], ast.Return)
        for c in calls:
            if len(c.args) < 3:
                okshape = False
                continue
            lits_e, op_e, c_e = c.args[:3]
            negated = False
            if isinstance(lits_e, ast.Name) and lits_e.id != pl:
                # local list: must be [-lit for lit in lits]
                for s in body:
                    if isinstance(s, ast.Assign) and isinstance(s.targets[0], ast.Name) and s.targets[0].id == lits_e.id:
                        v = s.value
                        if isinstance(v, ast.ListComp) and isinstance(v.elt, ast.UnaryOp) and isinstance(v.elt.op, ast.USub) \
                                and src(v.generators[0].iter) == pl and not v.generators[0].ifs and \
                                src(v.elt.operand) == src(v.generators[0].target):
                            negated = True
                        else:
                            okshape = False
            elif not (isinstance(lits_e, ast.Name) and lits_e.id == pl):
                okshape = False
            got.append((negated, const(op_e), c_e))
        verdict = okshape and len(got) == len(rows)
        detail = ""
        if verdict:
            for (neg, op_out, c_e), (wneg, wop, wf) in zip(sorted(got, key=lambda g: str(g[1])), sorted(rows, key=lambda g: g[1])):
                if neg != wneg or op_out != wop:
                    verdict = False
                    detail = "rewrites to (%s literals, %r)" % ("negated" if neg else "same", op_out)
                    break
                try:
                    for cval in range(-3, 9):
                        for n in range(0, 7):
                            if ev(c_e, {pc: cval}, {"*": n}) != wf(cval, n):
                                verdict = False
                                detail = "constant %s evaluates to %d for constant=%d, n=%d; the sound rewrite gives %d" % (
                                    src(c_e), ev(c_e, {pc: cval}, {"*": n}), cval, n, wf(cval, n))
                                break
                        if not verdict:
                            break
                except Unknown as e:
                    verdict = False
                    detail = "constant not foldable: %s" % e
                if not verdict:
                    break
        if verdict:
            R.ok("OP-REDUCTION", "add_linear %r -> %s" % (op_in, ", ".join(
                "%s%s %s" % ("neg " if n_ else "", o, src(c)) for n_, o, c in got)), fi.key)
        else:
            R.bad(F("OP-REDUCTION", fi, "add_linear rewrite of %r" % op_in,
                    "operator %r must be reduced by %s; %s" % (op_in, describe_rows(rows), detail or "the branch has another shape"), node))
    # recursion must switch the check off (literals already checked) -- not a correctness clause, skipped.
    # base case '>=':  c <= 0 -> nothing;  c > n -> empty clause;  else all (n-c+1)-subsets
    base_ok = {"taut": False, "empty": False, "blast": False}
    for s in fi.node.body:
        if isinstance(s, ast.If) and isinstance(s.test, ast.Compare) and len(s.test.ops) == 1:
            l, o, r = cmp_ops(s.test)[0]
            if src(l) == pc and isinstance(o, ast.LtE) and is_const(r, 0) and len(s.body) == 1 and \
                    isinstance(s.body[0], ast.Return) and s.body[0].value is None:
                base_ok["taut"] = True
            if src(l) == pc and isinstance(o, ast.Gt) and src(r) == "len(%s)" % pl:
                calls = [c for x in s.body for c in ast.walk(x) if isinstance(c, ast.Call) and call_name(c) == "self.add_clause"]
                if len(calls) == 1 and isinstance(calls[0].args[0], ast.List) and not calls[0].args[0].elts and \
                        isinstance(s.body[-1], ast.Return):
                    base_ok["empty"] = True
        if isinstance(s, ast.For) and isinstance(s.iter, ast.Call) and call_name(s.iter) == "combinations" and \
                len(s.iter.args) == 2 and src(s.iter.args[0]) == pl:
            kexpr = s.iter.args[1]
            try:
                good = all(ev(kexpr, dict(env, **{pc: c}), {"*": n}) == n - c + 1 for n in range(0, 8) for c in range(1, n + 1))
            except Unknown:
                good = False
            calls = [c for x in s.body for c in ast.walk(x) if isinstance(c, ast.Call) and call_name(c) == "self.add_clause"]
            if good and len(calls) == 1 and len(s.body) == 1 and src(calls[0].args[0]) == src(s.target):
                base_ok["blast"] = True
    msgs = {"taut": "constant <= 0 adds no clause", "empty": "constant > n adds the empty clause",
            "blast": "otherwise one clause per (n - constant + 1)-subset of the literals"}
    for k, ok in base_ok.items():
        if ok:
            R.ok("OP-REDUCTION", "add_linear '>=' base case: " + msgs[k], fi.key)
        else:
            R.bad(F("OP-REDUCTION", fi, "add_linear '>=' base: " + k, "expected: " + msgs[k]))
    # closed world: every exit and every emission of add_linear belongs to a row established above
    explained = set()
    for lit, (node, body) in branches.items():
        for st in body:
            for x in ast.walk(st):
                explained.add(id(x))
    for st in fi.node.body:
        if isinstance(st, ast.If) and isinstance(st.test, ast.Compare) and len(st.test.ops) == 1:
            l, o, r = cmp_ops(st.test)[0]
            if (src(l) == pc and isinstance(o, ast.LtE) and is_const(r, 0)) or \
                    (src(l) == pc and isinstance(o, ast.Gt) and src(r) == "len(%s)" % pl) or \
                    (src(l) == pop and isinstance(o, ast.NotIn)):
                for x in ast.walk(st):
                    explained.add(id(x))
        if isinstance(st, ast.For) and isinstance(st.iter, ast.Call) and call_name(st.iter) == "combinations":
            for x in ast.walk(st):
                explained.add(id(x))
    stray = []
    for st in stmts_in(fi.node):
        if isinstance(st, (ast.Return, ast.Raise)) and id(st) not in explained:
            stray.append(st)
        if isinstance(st, ast.Expr) and isinstance(st.value, ast.Call) and call_name(st.value) in ("self.add_clause", "self.add_linear") \
                and id(st) not in explained:
            stray.append(st)
    if stray:
        for st in stray:
            R.bad(F("OP-REDUCTION", fi, "add_linear unexplained %s" % ("exit" if isinstance(st, (ast.Return, ast.Raise)) else "emission"),
                    "`%s` at line %d is outside the reduction rows (==, <, >, <=, !=), the '>=' base case and the operator gate: for some "
                    "(operator, constant) the function leaves or emits without going through a sound rewrite" % (src(st)[:60], st.lineno), st))
    else:
        R.ok("OP-REDUCTION", "add_linear: every exit and emission belongs to a verified row (closed world)", fi.key)
    # the operator gate rejects anything else
    gate = False
    for s in fi.node.body:
        if isinstance(s, ast.If) and isinstance(s.test, ast.Compare) and isinstance(s.test.ops[0], ast.NotIn) and \
                src(s.test.left) == pop and s.body and isinstance(s.body[0], ast.Raise):
            lst = s.test.comparators[0]
            if isinstance(lst, ast.Name):
                lst = env.get(lst.id, lst)
            vals = {const(e) for e in getattr(lst, "elts", [])}
            gate = vals == {"<=", ">=", "<", ">", "==", "!="}
    if gate:
        R.ok("OP-REDUCTION", "add_linear rejects operators outside {<=,>=,<,>,==,!=} with ValueError", fi.key)
    else:
        R.bad(F("OP-REDUCTION", fi, "add_linear operator gate", "an unknown operator must raise ValueError before anything is added"))


def describe_rows(rows):
    names = {("==", 0): "'<=' c and '>=' c"}
    out = []
    for neg, op, f in rows:
        out.append("%s%r with constant %s" % ("negated literals and " if neg else "", op,
                                             {(0, 0): "c"}.get((f(0, 0), 0), "f(c,n)") if False else
                                             ("n - c" if neg else ("c" if f(5, 0) == 5 else ("c - 1" if f(5, 0) == 4 else "c + 1")))))
    return "; ".join(out)


# ------------------------------------------------------------------ normalize_opb
def _shape_check_normalize(R, prog):
    fi = prog.func(OPB, "normalize_opb")
    fnode = fi.node
    env = {}
    # names:  value = constraint[-1]; op = constraint[-2]; combinations = constraint[:-2]
    roles = {}
    for s in fnode.body:
        if isinstance(s, ast.Assign) and len(s.targets) == 1 and isinstance(s.targets[0], ast.Name) and \
                isinstance(s.value, ast.Subscript) and src(s.value.value) == fi.params[0]:
            sl = src(s.value.slice)
            roles[{"-1": "value", "-2": "op", ":-2": "terms"}.get(sl, sl)] = s.targets[0].id
    if set(roles) != {"value", "op", "terms"}:
        raise AnalysisError("normalize_opb: cannot identify value / operator / terms of the constraint")
    vname, oname, tname = roles["value"], roles["op"], roles["terms"]
    # Abstract interpretation over the finite operator domain.  State per input operator:
    #   (current operator, value as a polynomial in v / W=sum(c) / A=sum|c|, sign applied to all coefficients, literals complemented?)
    # meaning   sign * sum(c_i * x_i)  OP  value   with x_i = l_i, or 1 - l_i when complemented.
    from ..ql import Poly, to_poly
    domain = ["<", ">", "<=", ">=", "=="]
    V, W, A = Poly.sym("v"), Poly.sym("W"), Poly.sym("A")
    state = {o: {"op": o, "val": V, "sign": 1, "comp": False, "env": {}} for o in domain}

    def termsum(e, st):
        """sum(c for c, l in terms) -> sign*W ; sum(abs(c) ...) -> A ; else None"""
        if isinstance(e, ast.Call) and call_name(e) == "sum" and len(e.args) == 1 and isinstance(e.args[0], (ast.GeneratorExp, ast.ListComp)):
            g = e.args[0]
            if len(g.generators) == 1 and src(g.generators[0].iter) == tname and isinstance(g.generators[0].target, ast.Tuple):
                cn = src(g.generators[0].target.elts[0])
                if src(g.elt) == cn:
                    return W * st["sign"]
                if src(g.elt) == "abs(%s)" % cn:
                    return A
        return None

    def value_of(e, st):
        ts = termsum(e, st)
        if ts is not None:
            return ts
        if isinstance(e, ast.BinOp) and isinstance(e.op, (ast.Add, ast.Sub)):
            a, b = value_of(e.left, st), value_of(e.right, st)
            return a + b if isinstance(e.op, ast.Add) else a - b
        if isinstance(e, ast.UnaryOp) and isinstance(e.op, ast.USub):
            return -value_of(e.operand, st)
        if isinstance(e, ast.Name):
            if e.id == vname:
                return st["val"]
            if e.id in st["env"]:
                return st["env"][e.id]
        if isinstance(e, ast.Constant) and isinstance(e.value, int) and not isinstance(e.value, bool):
            return Poly.const(e.value)
        raise AnalysisError("normalize_opb: value expression %s not understood" % src(e))

    def apply_branch(body, st):
        st = dict(st, env=dict(st["env"]))
        for x in body:
            if isinstance(x, ast.Assign) and len(x.targets) == 1 and isinstance(x.targets[0], ast.Name):
                t = x.targets[0].id
                if t == oname:
                    c = const(x.value)
                    if not isinstance(c, str):
                        raise AnalysisError("normalize_opb: operator assigned a non-literal")
                    st["op"] = c
                elif t == vname:
                    st["val"] = value_of(x.value, st)
                elif t == tname:
                    v = x.value
                    ok = False
                    if isinstance(v, ast.ListComp) and isinstance(v.elt, ast.Tuple) and len(v.elt.elts) == 2 and \
                            len(v.generators) == 1 and src(v.generators[0].iter) == tname and isinstance(v.generators[0].target, ast.Tuple):
                        cn, ln = [src(z) for z in v.generators[0].target.elts]
                        ce, le = [src(z) for z in v.elt.elts]
                        if ce in (cn, "-" + cn) and le in (ln, "-" + ln):
                            if ce == "-" + cn:
                                st["sign"] = -st["sign"]
                            if le == "-" + ln:
                                st["comp"] = not st["comp"]
                            ok = True
                    if not ok:
                        raise AnalysisError("normalize_opb: unrecognised rewrite of the terms: %s" % src(v))
                else:
                    st["env"][t] = value_of(x.value, st)
            elif isinstance(x, ast.Expr) and isinstance(x.value, ast.Constant):
                continue
            else:
                raise AnalysisError("normalize_opb: unrecognised statement in an operator branch: %s" % src(x)[:60])
        return st

    def interp(stmts):
        for s in stmts:
            if isinstance(s, ast.If):
                chain = []
                cur = s
                while True:
                    chain.append(cur)
                    if len(cur.orelse) == 1 and isinstance(cur.orelse[0], ast.If):
                        cur = cur.orelse[0]
                    else:
                        break
                tests = []
                for c in chain:
                    t = c.test
                    lits = None
                    if isinstance(t, ast.Compare) and len(t.ops) == 1 and src(t.left) == oname:
                        if isinstance(t.ops[0], ast.Eq) and isinstance(const(t.comparators[0]), str):
                            lits = [const(t.comparators[0])]
                        elif isinstance(t.ops[0], ast.In) and isinstance(t.comparators[0], (ast.List, ast.Tuple, ast.Set)):
                            lits = [const(e) for e in t.comparators[0].elts]
                    if lits is None:
                        tests = None
                        break
                    tests.append((lits, c.body))
                if tests is None:
                    continue
                for o_in in domain:
                    cur_op = state[o_in]["op"]
                    for lits, body in tests:
                        if cur_op in lits:
                            state[o_in] = apply_branch(body, state[o_in])
                            break
    interp(fnode.body)

    def canonical(op, val, sign, comp):
        """(direction, rhs) of the equivalent statement about S = sum(c_i * l_i), strictness folded for integers"""
        # sign*X OP val with X = S or W - S
        rhs, d = val, op
        flip = {"<": ">", ">": "<", "<=": ">=", ">=": "<=", "==": "=="}
        if sign == -1:
            rhs, d = -rhs, flip[d]             #  X OP' -val
        if comp:
            rhs, d = W - rhs, flip[d]          #  W - S OP' r  ->  S OP'' W - r
        if d == "<":
            rhs, d = rhs - 1, "<="
        elif d == ">":
            rhs, d = rhs + 1, ">="
        return d, rhs
    for o_in in domain:
        st = state[o_in]
        want = canonical(o_in, V, 1, False)
        got = canonical(st["op"], st["val"], st["sign"], st["comp"])
        if got == want:
            R.ok("OP-REDUCTION", "normalize_opb %r -> %r, value %s%s%s: same constraint on sum(c*l)" % (
                o_in, st["op"], st["val"], ", coefficients negated" if st["sign"] < 0 else "", ", literals complemented" if st["comp"] else ""), fi.key)
        else:
            R.bad(F("OP-REDUCTION", fi, "normalize_opb rewrite of %r" % o_in,
                    "input `sum(c*l) %s v` means `sum(c*l) %s %s`, but the rewritten constraint (operator %r, value %s%s%s) means "
                    "`sum(c*l) %s %s` (W = sum of coefficients, A = sum of their absolute values)"
                    % (o_in, want[0], want[1], st["op"], st["val"], ", coefficients negated" if st["sign"] < 0 else "",
                       ", literals complemented" if st["comp"] else "", got[0], got[1])))
    outs = {state[o]["op"] for o in domain}
    if outs <= {">=", "=="}:
        R.ok("OP-REDUCTION", "normalize_opb can only leave operators {>=, ==}", fi.key)
    else:
        R.bad(F("OP-REDUCTION", fi, "normalize_opb output operators", "operators %s can leave the normaliser" % sorted(outs - {">=", "=="})))
    # coefficient loop:  c < 0  ->  (|c|, -l), value + |c|
    loop_ok = False
    for s in fnode.body:
        if isinstance(s, ast.For):
            ifs = [x for x in s.body if isinstance(x, ast.If)]
            for cond in ifs:
                t = cond.test
                if not (isinstance(t, ast.Compare) and len(t.ops) == 1 and isinstance(t.ops[0], ast.Lt) and is_const(t.comparators[0], 0)):
                    continue
                cn = src(t.left)
                assigns = {src(x.targets[0]): x.value for x in cond.body if isinstance(x, ast.Assign)}
                ln = None
                for k, v in assigns.items():
                    if isinstance(v, ast.UnaryOp) and isinstance(v.op, ast.USub) and src(v.operand) == k and k != cn:
                        ln = k
                c_abs = cn in assigns and src(assigns[cn]) in ("abs(%s)" % cn, "-%s" % cn)
                v_up = vname in assigns and src(assigns[vname]) in ("%s + %s" % (vname, cn), "%s + %s" % (cn, vname))
                # the value update must use the already-positive coefficient: order c = abs(c) before value = value + c
                order = [src(x.targets[0]) for x in cond.body if isinstance(x, ast.Assign)]
                store = any(isinstance(x, ast.Assign) and isinstance(x.targets[0], ast.Subscript) and
                            src(x.targets[0].value) == tname and src(x.value) == "(%s, %s)" % (cn, ln) for x in cond.body)
                if ln and c_abs and v_up and store and order.index(cn) < order.index(vname):
                    loop_ok = True
    if loop_ok:
        R.ok("OP-REDUCTION", "normalize_opb: term c*l with c<0 becomes |c|*(-l) and the degree grows by |c|", fi.key)
    else:
        R.bad(F("OP-REDUCTION", fi, "normalize_opb negative coefficients",
                "a term c*l with c<0 must become |c|*(not l) with the degree increased by |c| (c*l = |c|*(1-l) - |c|)"))
    # fresh list: the terms come from a slice / comprehension, never the caller's list
    R.ok("OP-REDUCTION", "normalize_opb works on constraint[:-2] (a copy)", fi.key) if tname else None


# ------------------------------------------------------------------ parity
def check_parity(R, prog):
    bodies = {}
    for mod, cls in ((LIN, "CNFLinear"), (OPB, "BaseOPB")):
        fi = prog.func(mod, cls + ".add_parity")
        pl, pc = fi.params[1:3]
        env = local_env(fi.node)
        verdict, why = parity_semantics(fi, pl, pc)
        if verdict:
            R.ok("PARITY-SIGN", "%s.add_parity adds exactly the clauses of the other parity (folded for 0..3 literals, constants 0 and 1)" % cls, fi.key)
        elif verdict is None:
            R.unknown("PARITY-SIGN", "%s.add_parity" % cls, fi.key, why)
        else:
            R.bad(F("PARITY-SIGN", fi, "%s.add_parity" % cls, why))
        # core of the body (without the check block) for the clone comparison
        core = [s for s in fi.node.body if not (isinstance(s, ast.If) and src(s.test) == "check")
                and not (isinstance(s, ast.Expr) and isinstance(s.value, ast.Constant))]
        bodies[cls] = "\n".join(alpha_dump(s) for s in core)
    fi = prog.func(OPB, "BaseOPB.add_parity")
    if bodies["CNFLinear"] == bodies["BaseOPB"]:
        R.ok("THRESHOLD-SIBLING", "the two add_parity bodies are alpha-equivalent clones", fi.key)
    else:
        R.unknown("THRESHOLD-SIBLING", "add_parity bodies differ syntactically", fi.key,
                  "each was checked against the parity specification separately")


def parity_semantics(fi, pl, pc):
    """what add_parity adds, decided by folding its body (sa/fold.py) for every list of 0..3 literals and both constants: the clauses
    must be exactly { [s_i * l_i] : s in {+1,-1}^n, #(-1 in s) % 2 != constant } -- a clause with signs s forbids the assignment that
    sets exactly the variables with s_i = -1, and x_1 + .. + x_n = constant forbids the assignments of the other parity.  How the
    loop selects the sign vectors (reduce(mul, ..), .count(-1), an early continue, a local alias of len(lits)) does not matter."""
    import itertools
    from ..fold import Folder
    body = [b for b in fi.node.body if not (isinstance(b, ast.Expr) and isinstance(b.value, ast.Constant))]
    checked = 0
    for n in range(0, 4):
        lits = list(range(2, 2 + n))            # distinct positive literals 2, 3, ..
        for c in (0, 1):
            f = Folder(env={pl: list(lits), pc: c, "check": False, "self": None}, sinks=("add_clause", "_add_clause", "add_constraint"))
            try:
                f.run(body)
            except Unknown as e:
                return None, "cannot fold the body of add_parity: %s" % e
            except Exception as e:          # Continue / Return escaping: treated as end of the method
                if type(e).__name__ not in ("_Return",):
                    return None, "cannot fold the body of add_parity: %s" % type(e).__name__
            got = sorted(tuple(a[0]) for name, a, kw in f.effects if a)
            want = sorted(tuple(s * l for s, l in zip(sv, lits)) for sv in itertools.product([1, -1], repeat=n)
                          if sum(1 for x in sv if x == -1) % 2 != c)
            checked += 1
            if got != want:
                return False, ("for literals %s and constant %d the method adds %s; the parity constraint x1+..+xn = %d (mod 2) is the set of "
                               "clauses whose number of negated literals has the other parity: %s" % (lits, c, [list(g) for g in got][:6], c, [list(w) for w in want][:6]))
    return True, ""


# ------------------------------------------------------------------ != blasting
def _shape_check_neq_blast(R, prog):
    sites = []
    fi = prog.func(LIN, "CNFLinear.add_linear")
    for lit, node, body in op_branches(fi.node, fi.params[2]):
        if lit == "!=":
            sites.append((fi, body, fi.params[1], fi.params[3], "add_linear('!=')"))
    fo = prog.func(OPB, "BaseOPB.cardinality_neq")
    sites.append((fo, fo.node.body, fo.params[1], fo.params[2], "BaseOPB.cardinality_neq"))
    if len(sites) != 2:
        raise AnalysisError("add_linear has no '!=' branch")
    dumps = []
    for f, body, pl, pc, label in sites:
        ok, why, core = neq_shape(body, pl, pc)
        if ok:
            R.ok("NEQ-BLAST", "%s: for every value-subset S, flip S / add clause / restore S; nothing when value<0 or >n" % label, f.key)
        else:
            R.bad(F("NEQ-BLAST", f, label, why))
        dumps.append(core)
    if dumps[0] and dumps[0] == dumps[1]:
        R.ok("THRESHOLD-SIBLING", "the two '!=' blasting loops are alpha-equivalent clones", fo.key)
    else:
        R.unknown("THRESHOLD-SIBLING", "'!=' blasting loops differ syntactically", fo.key, "each checked against the specification")


def neq_shape(body, pl, pc):
    nname = None
    gate = False
    loop = None
    for s in body:
        if isinstance(s, ast.Assign) and isinstance(s.targets[0], ast.Name) and src(s.value) == "len(%s)" % pl:
            nname = s.targets[0].id
        if isinstance(s, ast.If) and isinstance(s.test, ast.BoolOp) and isinstance(s.test.op, ast.Or) and \
                len(s.body) == 1 and isinstance(s.body[0], ast.Return):
            parts = {src(v) for v in s.test.values}
            nn = nname or "len(%s)" % pl
            if parts == {"%s < 0" % pc, "%s > %s" % (pc, nn)}:
                gate = True
        if isinstance(s, ast.For) and isinstance(s.iter, ast.Call) and call_name(s.iter) == "combinations":
            loop = s
    if loop is None:
        return False, "no loop over combinations(range(n), value)", ""
    nn = nname or "len(%s)" % pl
    if [src(a) for a in loop.iter.args] != ["range(%s)" % nn, pc]:
        return False, "the flipped positions must range over combinations(range(%s), %s); found %s" % (nn, pc, src(loop.iter)), ""
    if not gate:
        return False, "values below 0 or above n must add nothing (the constraint is a tautology)", ""
    fl = src(loop.target)
    b = loop.body
    shape = len(b) == 3 and isinstance(b[0], ast.For) and isinstance(b[2], ast.For) and isinstance(b[1], ast.Expr)

    def is_flip(f):
        return src(f.iter) == fl and len(f.body) == 1 and isinstance(f.body[0], ast.AugAssign) and \
            isinstance(f.body[0].op, ast.Mult) and is_const(f.body[0].value, -1) and \
            src(f.body[0].target) == "%s[%s]" % (pl, src(f.target))
    if not (shape and is_flip(b[0]) and is_flip(b[2])):
        return False, "each iteration must flip the chosen positions, add the clause, and restore exactly the same positions", ""
    c = b[1].value
    if not (isinstance(c, ast.Call) and call_name(c) == "self.add_clause" and src(c.args[0]) == pl):
        return False, "the clause added between flip and restore must be the literal list itself", ""
    return True, "", alpha_dump(loop)


# ------------------------------------------------------------------ iterable arguments
def check_iterable(R, prog):
    """typestate of a parameter documented as an iterable of literals:
         RAW --(if isgenerator(p): p = list(p))--> SIZED   (len / iteration / subscript read allowed)
         RAW/SIZED --(p = list(p) | p = [.. for .. in p] unconditionally)--> OWNED  (item assignment allowed)"""
    targets = []
    for mod, cls in ((LIN, "CNFLinear"), (OPB, "BaseOPB")):
        ci = prog.cls(mod, cls)
        for name, fi in sorted(ci.methods.items()):
            if len(fi.params) > 1 and fi.params[1] == "lits":
                targets.append(fi)
    R.floor("ITERABLE-ARG", len(targets), 18)
    for fi in targets:
        p = fi.params[1]
        cfg = CFG(fi.node)
        stmts = stmts_in(fi.node)
        own, sized = [], []
        for s in stmts:
            if isinstance(s, ast.Assign) and len(s.targets) == 1 and isinstance(s.targets[0], ast.Name) and s.targets[0].id == p:
                v = s.value
                fresh = (isinstance(v, ast.Call) and call_name(v) in ("list", "sorted") and v.args and src(v.args[0]) == p) or \
                    (isinstance(v, ast.ListComp) and src(v.generators[0].iter) == p)
                if fresh:
                    own.append(s)      # owning for every use it dominates (dominance is checked per use)
            if isinstance(s, ast.If) and isinstance(s.test, ast.Call) and call_name(s.test) in ("isgenerator", "inspect.isgenerator") \
                    and s.test.args and src(s.test.args[0]) == p:
                for x in s.body:
                    if isinstance(x, ast.Assign) and src(x.targets[0]) == p:
                        sized.append(s)
        uses = []
        for s in stmts:
            hdr = header_exprs(s)
            for e in hdr:
                for n in ast.walk(e):
                    if isinstance(n, ast.Call) and call_name(n) == "len" and n.args and src(n.args[0]) == p:
                        uses.append(("len", s, n))
                    if isinstance(n, ast.Subscript) and src(n.value) == p:
                        uses.append(("write" if isinstance(n.ctx, (ast.Store, ast.Del)) else "index", s, n))
            if isinstance(s, ast.AugAssign) and isinstance(s.target, ast.Subscript) and src(s.target.value) == p:
                uses.append(("write", s, s.target))
        if not uses:
            R.ok("ITERABLE-ARG", "%s.%s never sizes or indexes its literal iterable" % (fi.cls.name, fi.name), fi.key, nontrivial=False)
            continue
        bad = None
        for kind, s, n in uses:
            un = cfg.node_of(s)
            if un is None:
                continue
            owned = any(cfg.dominates(cfg.node_of(o), un) and cfg.node_of(o) is not un for o in own)
            is_sized = owned or any(cfg.dominates(cfg.node_of(o), un) and cfg.node_of(o) is not un for o in sized)
            if kind == "write" and not owned:
                bad = (kind, s, "item assignment on the caller's object: a tuple or range raises TypeError and a list "
                       "argument is modified in place; materialise with `%s = list(%s)` first" % (p, p))
                break
            if kind in ("len", "index") and not is_sized:
                bad = (kind, s, "len()/indexing of an iterable that may be a generator")
                break
        if bad:
            R.bad(F("ITERABLE-ARG", fi, "%s.%s %s of `%s`" % (fi.cls.name, fi.name, bad[0], p), bad[2], bad[1]))
        else:
            R.ok("ITERABLE-ARG", "%s.%s: %d uses of `%s` all after materialisation" % (fi.cls.name, fi.name, len(uses), p), fi.key)


def inside_if(fnode, stmt):
    for s in stmts_in(fnode):
        if isinstance(s, ast.If) and any(stmt is x for b in (s.body, s.orelse) for y in b for x in ast.walk(y)):
            return True
    return False


def header_exprs(s):
    if isinstance(s, (ast.If, ast.While)):
        return [s.test]
    if isinstance(s, ast.For):
        return [s.iter]
    if isinstance(s, (ast.With,)):
        return [i.context_expr for i in s.items]
    if isinstance(s, (ast.Try, ast.FunctionDef, ast.ClassDef)):
        return []
    return [s]


# ------------------------------------------------------------------ discarded exceptions
def check_discarded_exceptions(R, prog):
    n = 0
    for fi in prog.all_functions():
        for s in stmts_in(fi.node):
            if isinstance(s, ast.Expr) and isinstance(s.value, ast.Call):
                name = call_name(s.value) or ""
                last = name.split(".")[-1]
                if last.endswith("Error") or last.endswith("Exception") or last in ("InternalBug", "StopIteration"):
                    n += 1
                    R.bad(F("NO-DISCARDED-EXC", fi, "%s(...) constructed and dropped" % last,
                            "an exception object is created as an expression statement and never raised: the refusal this "
                            "line documents does not happen (%s)" % src(s)[:70], s))
    R.count("functions scanned for dropped exceptions", sum(1 for _ in prog.all_functions()))
    if n == 0:
        R.ok("NO-DISCARDED-EXC", "no exception is constructed without being raised (whole package)", "cnfgen")


# ------------------------------------------------------------------ mapping dispatch
def check_mapping_dispatch(R, prog):
    ci = prog.cls(VARS, "VariablesManager")
    want = {
        "force_complete_mapping": {"UnaryMappingVariables": "emit", "BinaryMappingVariables": "emit"},
        "force_functional_mapping": {"UnaryMappingVariables": "emit", "BinaryMappingVariables": "noop"},
        "force_surjective_mapping": {"UnaryMappingVariables": "emit", "BinaryMappingVariables": "refuse"},
        "force_injective_mapping": {"UnaryMappingVariables": "emit", "BinaryMappingVariables": "emit"},
        "force_nondecreasing_mapping": {"UnaryMappingVariables": "emit", "BinaryMappingVariables": "emit"},
    }
    for name, spec in sorted(want.items()):
        fi = ci.methods.get(name)
        if fi is None:
            raise AnalysisError("VariablesManager.%s not found" % name)
        p = fi.params[1]
        branches = {}
        refuses_non = set()
        for s in fi.node.body:
            if isinstance(s, ast.If):
                t = s.test
                neg = False
                if isinstance(t, ast.UnaryOp) and isinstance(t.op, ast.Not):
                    t, neg = t.operand, True
                if isinstance(t, ast.Call) and call_name(t) == "isinstance" and src(t.args[0]) == p:
                    classes = [src(e) for e in (t.args[1].elts if isinstance(t.args[1], ast.Tuple) else [t.args[1]])]
                    if neg:
                        if s.body and isinstance(s.body[0], ast.Raise):
                            refuses_non |= set(classes)
                        continue
                    emits = any(isinstance(n, ast.Call) and (method_name(n) in ("add_clause", "cardinality_leq", "cardinality_geq",
                                                                                   "add_linear", "cardinality_eq")) for x in s.body for n in ast.walk(x))
                    kind = "emit" if emits else ("noop" if (len(s.body) == 1 and isinstance(s.body[0], (ast.Return, ast.Pass))) else "other")
                    for c in classes:
                        branches[c] = kind
        # unconditional emission (no isinstance split) counts for every class that is not refused
        uncond = any(isinstance(s, ast.For) for s in fi.node.body)
        for cname, kind in spec.items():
            got = branches.get(cname)
            if got is None and kind == "refuse":
                got = "refuse" if ("UnaryMappingVariables" in refuses_non and cname not in refuses_non) else None
            if got is None and uncond and kind == "emit":
                got = "emit"
            inst = "VariablesManager.%s on %s: %s" % (name, cname, kind)
            if got == kind:
                R.ok("MAPPING-DISPATCH", inst, fi.key)
            else:
                R.bad(F("MAPPING-DISPATCH", fi, inst,
                        "for a %s the method must %s; found %s" % (cname, {"emit": "add its clauses", "noop": "return without clauses "
                                                                            "(a binary mapping is functional by construction)",
                                                                            "refuse": "raise ValueError (surjectivity is only "
                                                                            "implemented for unary mappings)"}[kind], got or "no handling")))
        # the foreign-formula refusal
        ok = any(isinstance(s, ast.If) and "parent_formula" in src(s.test) and s.body and isinstance(s.body[0], ast.Raise)
                 for s in fi.node.body)
        if ok:
            R.ok("MAPPING-DISPATCH", "VariablesManager.%s refuses a mapping of another formula" % name, fi.key)
        else:
            R.bad(F("MAPPING-DISPATCH", fi, "%s foreign mapping" % name, "a mapping created by another formula must be refused with ValueError"))


# ------------------------------------------------------------------ mapping schemas
MAPPING_SPEC = {
    # what each requirement means, for a unary / sparse mapping f (f(x, y) <=> "x is mapped to y") and a binary one
    "force_complete_mapping": [
        "for q0 in f.domain() if isinstance(f, UnaryMappingVariables): add_clause(f(q0, None))",
        "for q0 in f.domain() for q1 in range(len(f.range()), 2 ** f.bits()) if isinstance(f, BinaryMappingVariables): add_clause(f.forbid(q0, q1))",
    ],
    "force_functional_mapping": [
        "for q0 in f.domain() if isinstance(f, UnaryMappingVariables): cardinality_leq(f(q0, None), 1)",
    ],
    "force_surjective_mapping": [
        "for q0 in f.range(): add_clause(f(None, q0))",
    ],
    "force_injective_mapping": [
        "for q0 in f.range() if isinstance(f, UnaryMappingVariables): cardinality_leq(f(None, q0), 1)",
        "for q0 in f.range() for (q1, q2) in combinations(f.domain(), 2) if isinstance(f, BinaryMappingVariables): add_clause(f.forbid(q1, q0) + f.forbid(q2, q0))",
    ],
    "force_nondecreasing_mapping": [
        "for (q0, q1) in combinations(f.domain(), 2) for q2 in f.range(q0) for q3 in f.range(q1) if isinstance(f, UnaryMappingVariables) and q2 > q3: "
        "add_clause([-f.to_dict()[q0, q2], -f.to_dict()[q1, q3]])",
        "for (q0, q1) in combinations(f.domain(), 2) for (q2, q3) in combinations(f.range(), 2) if isinstance(f, BinaryMappingVariables): "
        "add_clause(f.forbid(q0, q3) + f.forbid(q1, q2))",
    ],
}


def check_mapping_schema(R, prog):
    """the constraint schema each force_*_mapping emits (quantifier domains, index pattern, relation, bound) equals the
    meaning of the requirement:  complete: every x has some y;  functional: every x has at most one y;  surjective: every y has
    some x;  injective: every y has at most one x;  non-decreasing: no x1<x2 with f(x1)>f(x2)"""
    from ..schema import extract, spec
    ci = prog.cls(VARS, "VariablesManager")
    for name, lines in sorted(MAPPING_SPEC.items()):
        fi = ci.methods.get(name)
        if fi is None:
            raise AnalysisError("VariablesManager.%s not found" % name)
        ems = extract(fi, formula_names=["F"], group_names={fi.params[1]: "f"})

        def classkey(key):
            """isinstance guards -> the set of mapping classes the emission applies to (the two classes are disjoint)"""
            quants, guards, builder, args = key
            classes = {"UnaryMappingVariables", "BinaryMappingVariables"}
            rest = []
            for g in guards:
                m = re.match(r"^(not )?\(?isinstance\(f, (\w+)\)\)?$", g)
                if m:
                    classes = (classes - {m.group(2)}) if m.group(1) else (classes & {m.group(2)})
                else:
                    rest.append(g)
            return (quants, tuple(sorted(rest)), builder, args, tuple(sorted(classes)))
        got = {classkey(e.key()): e for e in ems}
        want = {classkey(spec(l)): l for l in lines}
        for k, l in want.items():
            if k in got:
                R.ok("MAPPING-SCHEMA", "%s: %s" % (name, l[:110]), fi.key)
            else:
                near = [e.text() for e in ems if e.builder == k[2]]
                R.bad(F("MAPPING-SCHEMA", fi, "%s emits: %s" % (name, l[:90]),
                        "the requirement means `%s`; the method does not emit this schema (it emits: %s)"
                        % (l, " | ".join(near)[:300] or "nothing comparable")))
        for k, e in got.items():
            if k not in want:
                R.bad(F("MAPPING-SCHEMA", fi, "%s extra: %s" % (name, e.text()[:90]),
                        "the method emits a constraint schema that is not part of the requirement's meaning: %s" % e.text()[:200], e.node))


# ------------------------------------------------------------------ forbid bits
def check_forbid_bits(R, prog):
    ci = prog.cls(VARS, "BinaryMappingVariables")
    init, ind, forbid = ci.methods["__init__"], ci.methods["indices"], ci.methods["forbid"]
    # flips[j] = j-th element of product([1,-1], repeat=bitlength)
    ok = False
    for s in stmts_in(init.node):
        if isinstance(s, ast.For) and isinstance(s.iter, ast.Call) and call_name(s.iter) == "product":
            it = s.iter
            rep = [k.value for k in it.keywords if k.arg == "repeat"]
            if len(it.args) == 1 and [const(e) for e in it.args[0].elts] == [1, -1] and rep and src(rep[0]) == "self.bitlength" and \
                    len(s.body) == 1 and src(s.body[0]) == "self.flips.append(%s)" % src(s.target):
                ok = True
        if isinstance(s, ast.Assign) and src(s.targets[0]) == "self.flips" and isinstance(s.value, ast.Call) and \
                call_name(s.value) == "list" and "product([1, -1], repeat=self.bitlength)" in src(s.value):
            ok = True
    if ok:
        R.ok("FORBID-BITS", "flips[j] = j-th vector of product([1,-1], repeat=bitlength): +1 for a 0 bit, most significant first", init.key)
    else:
        R.bad(F("FORBID-BITS", init, "BinaryMappingVariables.flips", "flips must list product([1,-1], repeat=self.bitlength) in order "
                "(index j <-> binary code of j, +1 for bit 0)"))
    # indices enumerates bits from the most significant
    ok = False
    for s in stmts_in(ind.node):
        if isinstance(s, ast.Assign) and isinstance(s.value, ast.Call) and call_name(s.value) == "range" and \
                [src(a) for a in s.value.args] == ["self.bitlength - 1", "-1", "-1"]:
            ok = True
    if ok:
        R.ok("FORBID-BITS", "indices(i, None) lists bit positions bitlength-1 .. 0 (most significant first)", ind.key)
    else:
        R.bad(F("FORBID-BITS", ind, "BinaryMappingVariables.indices bit order", "bit positions must be enumerated from bitlength-1 down to 0 to "
                "match the sign vectors of forbid()"))
    pi, pj = forbid.params[1:3]
    z = [c for c in ast.walk(forbid.node) if isinstance(c, ast.Call) and call_name(c) == "zip"]
    ok = len(z) == 1 and [src(a) for a in z[0].args] == ["self.flips[%s]" % pj, "self(%s, None)" % pi]
    mult = any(isinstance(n, ast.ListComp) and isinstance(n.elt, ast.BinOp) and isinstance(n.elt.op, ast.Mult) for n in ast.walk(forbid.node))
    if ok and mult:
        R.ok("FORBID-BITS", "forbid(i,j) = [sign*var for sign,var in zip(flips[j], bits of i)]", forbid.key)
    else:
        R.bad(F("FORBID-BITS", forbid, "BinaryMappingVariables.forbid", "the clause must pair flips[%s] with the bit variables of %s, "
                "position by position" % (pj, pi)))
    g = [s for s in forbid.node.body if isinstance(s, ast.If) and s.body and isinstance(s.body[0], ast.Raise)]
    if g and src(g[0].test) in ("%s >= 2 ** self.bitlength" % pj, "%s > 2 ** self.bitlength - 1" % pj):
        R.ok("FORBID-BITS", "forbid refuses codes >= 2**bitlength", forbid.key)
    else:
        R.bad(F("FORBID-BITS", forbid, "forbid code range", "codes >= 2**bitlength must be refused (IndexError into flips otherwise)"))
    # forward / backward map use the same convention:  id = i*bitlength - b + offset
    fwd = ci.methods["_unsafe_index_to_lit"]
    rets = [n.value for n in ast.walk(fwd.node) if isinstance(n, ast.Return)]
    from ..ql import to_poly, Poly
    try:
        p = to_poly(rets[0], {"self.bitlength": Poly.sym("B"), "self.id_offset": Poly.sym("O")})
        want = Poly.sym("i") * Poly.sym("B") - Poly.sym("b") + Poly.sym("O")
        if p == want:
            R.ok("FORBID-BITS", "bit b of element i has id offset + i*bitlength - b (bit 0 is the last of the block)", fwd.key)
        else:
            R.bad(F("FORBID-BITS", fwd, "BinaryMappingVariables index->id", "expected id_offset + i*bitlength - b, found %s" % p))
    except Exception:
        R.unknown("FORBID-BITS", "index->id polynomial", fwd.key, "not polynomial")


# ------------------------------------------------------------------ semantics by folding (independent of how the code is written)
def _truth(clauses, assignment):
    """is the CNF (list of integer clauses) true under assignment {var: bool}?"""
    return all(any((l > 0) == assignment[abs(l)] for l in c) for c in clauses)


def semantic_add_linear(prog):
    """fold CNFLinear.add_linear (with its recursive reductions) for every operator, 0..3 literals of mixed sign and every constant in
    -1..n+1, and compare the clause set with the constraint by truth table.  -> (True | False | None, detail)"""
    import itertools
    import types
    from ..fold import Folder, Raised
    ci = prog.cls(LIN, "CNFLinear")
    fi = ci.methods["add_linear"]
    methods = {}
    for c_ in reversed(prog.mro(ci)):                       # inherited methods too (add_clauses_from of BaseCNF)
        methods.update({k: v.node for k, v in c_.methods.items()})
    n_checked = 0
    for n in range(0, 4):
        for signs in itertools.product([1, -1], repeat=n):
            lits = [s_ * (i + 1) for i, s_ in enumerate(signs)]
            for op in ("<=", ">=", "<", ">", "==", "!="):
                for c in range(-1, n + 2):
                    f = Folder(env={}, sinks=("add_clause",), methods=methods)
                    try:
                        f.call_function(fi.node, [None, list(lits), op, c], {"check": False})
                    except Unknown as e:
                        return None, "cannot fold add_linear(%s, %r, %d): %s" % (lits, op, c, e)
                    except Raised as e:
                        return False, "add_linear(%s, %r, %d) raises %s" % (lits, op, c, e.cls)
                    clauses = [list(a[0]) for name, a, kw in f.effects if a]
                    if n >= 2 and signs == tuple([1] * n):
                        # the literals may come as a generator (documented): same clauses as for the list
                        for chk in (False, True):
                            f2 = Folder(env={}, sinks=("add_clause",), methods=methods)
                            f2.globals = {"_check_and_update": lambda *a, **k: None}
                            try:
                                f2.call_function(fi.node, [types.SimpleNamespace(_numvar=0, _clauses=[]), (l for l in lits), op, c], {"check": chk})
                            except Unknown as e:
                                break
                            except Raised as e:
                                return False, "add_linear(<generator of %s>, %r, %d, check=%s) raises %s" % (lits, op, c, chk, e.cls)
                            c2 = [list(a[0]) for name, a, kw in f2.effects if a]
                            if sorted(map(sorted, c2)) != sorted(map(sorted, clauses)):
                                return False, ("add_linear(<generator of %s>, %r, %d, check=%s) adds %s, but %s for the same literals as a list: the "
                                               "generator is used up before the last reduction step" % (lits, op, c, chk, c2, clauses))
                    for bits in itertools.product([False, True], repeat=n):
                        asg = {i + 1: b for i, b in enumerate(bits)}
                        tot = sum(1 for l in lits if (l > 0) == asg[abs(l)])
                        want = {"<=": tot <= c, ">=": tot >= c, "<": tot < c, ">": tot > c, "==": tot == c, "!=": tot != c}[op]
                        if _truth(clauses, asg) != want:
                            return False, ("add_linear(%s, %r, %d) adds %s: under the assignment %s the sum is %d, the constraint is %s but the "
                                           "clauses are %s" % (lits, op, c, clauses, asg, tot, want, _truth(clauses, asg)))
                    n_checked += 1
    return True, "%d (literals, operator, constant) instances folded and compared by truth table" % n_checked


def semantic_normalize(prog):
    """fold normalize_opb for small constraints (up to 2 terms, coefficients -2..2 without 0, both literal signs, six operators,
    degrees -3..4): the result must have positive coefficients, operator >= or ==, and the same models."""
    import itertools
    from ..fold import Folder, Raised
    fi = prog.func(OPB, "normalize_opb")
    n_checked = 0

    def holds(terms, op, k, asg):
        tot = sum(c for c, l in terms if (l > 0) == asg[abs(l)])
        return {"<=": tot <= k, ">=": tot >= k, "<": tot < k, ">": tot > k, "==": tot == k, "!=": tot != k}[op]
    for nt in range(0, 3):
        for coefs in itertools.product([-2, -1, 1, 2], repeat=nt):
            for sg in itertools.product([1, -1], repeat=nt):
                terms = [(c, s_ * (i + 1)) for i, (c, s_) in enumerate(zip(coefs, sg))]
                for op in ("<=", ">=", "<", ">", "=="):
                    for k in range(-3, 5):
                        f = Folder()
                        try:
                            out = f.call_function(fi.node, [list(terms) + [op, k]], {})
                        except Unknown as e:
                            return None, "cannot fold normalize_opb(%s): %s" % (terms + [op, k], e)
                        except Raised as e:
                            return False, "normalize_opb(%s) raises %s" % (terms + [op, k], e.cls)
                        if not isinstance(out, list) or len(out) < 2:
                            return False, "normalize_opb(%s) returns %r" % (terms + [op, k], out)
                        oterms, oop, ok_ = [tuple(t) for t in out[:-2]], out[-2], out[-1]
                        if oop not in (">=", "==") or any(c <= 0 for c, l in oterms):
                            return False, "normalize_opb(%s) = %s is not normalised (positive coefficients, >= or ==)" % (terms + [op, k], out)
                        for bits in itertools.product([False, True], repeat=nt):
                            asg = {i + 1: b for i, b in enumerate(bits)}
                            if holds(terms, op, k, asg) != holds(oterms, oop, ok_, asg):
                                return False, ("normalize_opb(%s) = %s: under %s the original constraint is %s and the normalised one %s"
                                               % (terms + [op, k], out, asg, holds(terms, op, k, asg), holds(oterms, oop, ok_, asg)))
                        n_checked += 1
    return True, "%d small constraints folded and compared by truth table" % n_checked


_SEM_CACHE = {}


def _with_semantics(R, prog, shape_fn, sem_fn, what, fkey):
    """run the shape rule; when the bounded semantic comparison (folding) succeeds, a shape the rule does not recognise is an
    undecided instance, not a violation -- the code is a different spelling of a method whose meaning was just confirmed"""
    key = (id(prog), sem_fn.__name__)
    if key not in _SEM_CACHE:
        try:
            _SEM_CACHE[key] = sem_fn(prog)
        except AnalysisError:
            raise
        except Exception as e:
            _SEM_CACHE[key] = (None, "folding failed: %s" % type(e).__name__)
    verdict, detail = _SEM_CACHE[key]
    T = Result(P, "")
    try:
        shape_fn(T, prog)
    except AnalysisError as e:
        # the shape rule lost its anchor: with the meaning confirmed by folding this is an unrecognised spelling, otherwise a broken analysis
        if verdict is not True:
            raise
        T.unknown("LINEAR-SEMANTICS", what, str(fkey), "shape not recognised (%s); the method's meaning was confirmed by folding" % str(e)[:120])
    for o in T.obligations:
        if o["status"] == "discharged":
            R.ok(o["rule"], o["instance"], o["where"], nontrivial=o["nontrivial"])
    for u in T.unproven:
        R.unknown(u["rule"], u["instance"], u["where"], u["why"])
    for fl in T.floors:
        R.floors.append(fl)
    if verdict is True:
        R.ok("LINEAR-SEMANTICS", "%s: %s" % (what, detail), fkey)
        for f in T.findings:
            R.unknown(f.rule, f.construct, "%s:%s %s" % (f.file, f.line, f.function),
                      "shape not recognised (%s); the method's meaning was confirmed by folding" % f.message[:120])
    else:
        if verdict is False:
            fi = prog.func(*fkey) if isinstance(fkey, tuple) else None
            R.bad(F("LINEAR-SEMANTICS", fi, what, detail))
        else:
            R.unknown("LINEAR-SEMANTICS", what, str(fkey), detail)
        for f in T.findings:
            R.bad(f)


def check_add_linear(R, prog):
    _with_semantics(R, prog, _shape_check_add_linear, semantic_add_linear, "CNFLinear.add_linear means `sum op constant` for all six operators", (LIN, "CNFLinear.add_linear"))


def check_neq_blast(R, prog):
    _with_semantics(R, prog, _shape_check_neq_blast, semantic_add_linear, "add_linear('!=') forbids exactly the assignments with `constant` true literals", (LIN, "CNFLinear.add_linear"))


def check_normalize(R, prog):
    _with_semantics(R, prog, _shape_check_normalize, semantic_normalize, "normalize_opb keeps the models and yields positive coefficients with >= / ==", (OPB, "normalize_opb"))
