"""Bounded folding of the solver bridge (cnfgen/utils/solver.py) over a stand-in operating system: a fake file table behind
tempfile.NamedTemporaryFile / open / os.unlink and a scripted subprocess.Popen.  No process is started, no file is created, nothing of
cnfgen is run: the functions' syntax trees are folded by sa/fold.py.

Documented behaviour compared (C20): the verdict read from the solver's answer, RuntimeError for every unusable answer and for a
solver that cannot be started (never OSError), the formula handed over as its DIMACS text, the command line split into words and
completed with the file names, every temporary file removed on every path.
"""
import ast
import types

from ..fold import Folder, Raised
from ..ql import Unknown

MOD = "cnfgen.utils.solver"
DIMACS = "p cnf 3 2\n1 -2 0\n3 0\n"


class FakeOS:
    def __init__(self, script):
        self.files = {}          # name -> content (bytes or str)
        self.created = []
        self.unlinked = []
        self.script = script     # dict: start_error, result_file, stdout, installed
        self.procs = []
        self.counter = 0
        self.bad = None

    # tempfile
    def NamedTemporaryFile(self, *a, **k):
        if k.get("delete", True):
            self.bad = "NamedTemporaryFile without delete=False: the file vanishes when closed, before the solver reads it"
        self.counter += 1
        name = "/tmp/fake dir/f %d" % self.counter           # (a path with blanks: it must stay one word of the command)
        self.files[name] = b""
        self.created.append(name)
        return FakeFile(self, name, "wb")

    def open(self, name, mode="r", *a, **k):
        if name not in self.files:
            raise FileNotFoundError
        return FakeFile(self, name, mode)

    def unlink(self, name):
        if name not in self.files:
            raise FileNotFoundError
        del self.files[name]
        self.unlinked.append(name)

    remove = unlink

    # subprocess
    def Popen(self, args=None, *a, **k):
        if args is None and a:
            args = a[0]
        if not isinstance(args, list) or not all(isinstance(x, str) for x in args) or not args:
            self.bad = "subprocess.Popen is given %r, not a list of words" % (args,)
        if k.get("shell"):
            self.bad = "subprocess.Popen(shell=True): the command line is interpreted by a shell"
        self.procs.append(list(args) if isinstance(args, list) else args)
        self.snapshot = {x: self.files[x] for x in (args if isinstance(args, list) else []) if x in self.files}
        inst = self.script.get("installed")
        if self.script.get("start_error") or (inst is not None and args and args[0] not in inst):
            raise OSError
        return FakeProc(self, list(args))


class FakeFile:
    def __init__(self, os_, name, mode):
        self.os, self.name, self.mode, self.closed = os_, name, mode, False

    def write(self, data):
        if "b" in self.mode and not isinstance(data, bytes):
            raise TypeError
        cur = self.os.files.get(self.name, b"")
        self.os.files[self.name] = (cur if isinstance(cur, type(data)) else type(data)()) + data
        return len(data)

    def read(self):
        data = self.os.files[self.name]
        if "b" not in self.mode and isinstance(data, bytes):
            return data.decode("ascii")
        return data

    def flush(self):
        pass

    def close(self):
        self.closed = True

    def __enter__(self):
        return self

    def __exit__(self, *a):
        self.closed = True
        return False


class FakeProc:
    def __init__(self, os_, args):
        self.os, self.args, self.stdin_data = os_, args, None
        self.returncode = 0

    def communicate(self, input=None, timeout=None):
        self.stdin_data = input
        if self.os.script.get("communicate_error"):
            raise OSError
        self.os.last = self
        rf = self.os.script.get("result_file")
        if rf is not None and self.args[-1] in self.os.files:
            self.os.files[self.args[-1]] = rf.encode("ascii")
        return (self.os.script.get("stdout", "").encode("ascii"), b"")

    def wait(self, timeout=None):
        return 0


class FakeF:
    def to_dimacs(self, *a, **k):
        return DIMACS


STDOUT_SCRIPTS = [
    ("c solver banner\ns SATISFIABLE\nv 1 -2\nv 3 0\n", (True, [1, -2, 3])),
    ("s SATISFIABLE\nv -3 2 0\n\nv -1 0\n", (True, [-1, 2, -3])),
    ("c x\ns UNSATISFIABLE\n", (False, None)),
    ("v 1 -2\nc statistics in between\nv 3 0\nc more\ns SATISFIABLE\n", (True, [1, -2, 3])),
    ("s SATISFIABLE\nv 9 10 0\n", (True, [9, 10])),
    ("s SATISFIABLE\nv -20 1 0\nv 30 0\n", (True, [1, -20, 30])),
    ("s SATISFIABLE\nv 1 -2 0 \n", (True, [1, -2])),
    ("s SATISFIABLE\n", (True, [])),
    ("s SATISFIABLE\nv 0\n", (True, [])),
    ("s UNSATISFIABLE\nv 1 0\n", (False, None)),
    ("", "RuntimeError"),
    ("s UNKNOWN\n", "RuntimeError"),
    ("s\n", "RuntimeError"),
    ("garbage without verdict\nv 1 0\n", "RuntimeError"),
]
FILE_SCRIPTS = [
    ("SAT\n1 -2 3 0\n", (True, [1, -2, 3])),
    ("SAT\n-3 2 -1 0\n", (True, [-1, 2, -3])),
    ("SAT\n-10 20 0\n", (True, [-10, 20])),
    ("UNSAT\n", (False, None)),
    ("SAT\n0\n", (True, [])),
    ("SAT\n", (True, [])),
    ("", "RuntimeError"),
    ("INDET\n", "RuntimeError"),
]


def _fold(prog, name, args, kw, script):
    fi = prog.func(MOD, name)
    m = prog.module(MOD)
    fos = FakeOS(script)
    f = Folder(env={}, fuel=100000)
    f.module_functions = {n.name: n for n in m.tree.body if isinstance(n, ast.FunctionDef)}
    table = None
    for n in m.tree.body:
        if isinstance(n, ast.Assign) and len(n.targets) == 1 and isinstance(n.targets[0], ast.Name) and n.targets[0].id == "_SATSOLVER_INTERFACE":
            table = n.value
    printed = []
    g = {"tempfile": types.SimpleNamespace(NamedTemporaryFile=fos.NamedTemporaryFile),
         "subprocess": types.SimpleNamespace(Popen=fos.Popen, PIPE=-1, DEVNULL=-3, STDOUT=-2),
         "os": types.SimpleNamespace(unlink=fos.unlink, remove=fos.remove),
         "open": fos.open, "sys": types.SimpleNamespace(stderr="<stderr>", stdout="<stdout>"),
         "print": lambda *a, **k: printed.append((a, k.get("file"))), "BaseCNF": FakeF}
    f.globals = g
    if table is not None:
        g["_SATSOLVER_INTERFACE"] = f.ev(table)
    try:
        out = ("value", f.call_function(fi.node, args, kw))
    except Raised as r:
        out = ("raises", r.cls.split("(")[0])
    return out, fos, printed


def _norm(v):
    if isinstance(v, tuple) and len(v) == 2:
        return (v[0], list(v[1]) if isinstance(v[1], (list, tuple)) else v[1])
    return v


def semantic_interface(prog, name):
    kind = {"_satsolve_filein_fileout": "ff", "_satsolve_stdin_stdout": "ss", "_satsolve_filein_stdout": "fs"}[name]
    cnt = 0
    scripts = [({"result_file": rf, "stdout": "banner\n"}, want) for rf, want in FILE_SCRIPTS] if kind == "ff" else \
        [({"stdout": so}, want) for so, want in STDOUT_SCRIPTS]
    scripts.append(({"start_error": True, "stdout": "", "result_file": None}, "RuntimeError"))
    scripts.append(({"communicate_error": True, "stdout": "", "result_file": None}, "RuntimeError"))
    for cmd in ("solver", "solver -opt  --two"):
        for verbose in (0, 2):
            for script, want in scripts:
                what = "%s(F, %r, verbose=%d) when the solver %s" % (name, cmd, verbose, "cannot be started" if script.get("start_error") else
                                                                     "answers %r" % (script.get("result_file") if kind == "ff" else script.get("stdout")))
                out, fos, printed = _fold(prog, name, [FakeF(), cmd], {"verbose": verbose}, script)
                if fos.bad:
                    return False, "%s: %s" % (what, fos.bad)
                if fos.files:
                    return False, "%s leaves the temporary file(s) %s behind" % (what, sorted(fos.files))
                if isinstance(want, str):
                    if out != ("raises", want):
                        return False, "%s ends with %r; %s expected" % (what, out, want)
                else:
                    if out[0] != "value" or _norm(out[1]) != _norm(want):
                        return False, "%s ends with %r; %r expected" % (what, out, want)
                nfiles = {"ff": 2, "ss": 0, "fs": 1}[kind]
                if len(fos.created) != nfiles:
                    return False, "%s creates %d temporary files; %d expected" % (what, len(fos.created), nfiles)
                if len(fos.procs) != 1 or fos.procs[0] != cmd.split() + fos.created:
                    return False, "%s starts %r; the words of the command followed by the file names %s expected" % (what, fos.procs, fos.created)
                if kind in ("ff", "fs"):
                    snap = getattr(fos, "snapshot", {})
                    if snap.get(fos.created[0]) != DIMACS.encode("ascii"):
                        return False, "%s: when the solver starts, its input file holds %r, not the DIMACS text of the formula" % (what, snap.get(fos.created[0]))
                if not script.get("start_error") and not script.get("communicate_error"):
                    if kind == "ss":
                        if getattr(fos, "last", None) is None or fos.last.stdin_data != DIMACS.encode("ascii"):
                            return False, "%s does not send the DIMACS text of the formula to the solver's standard input" % what
                if any(ch not in ("<stderr>",) for _, ch in printed):
                    return False, "%s prints diagnostics to standard output" % what
                cnt += 1
    return True, "%d (command, verbosity, solver answer) instances folded over a stand-in file table and process" % cnt


def semantic_sat_solve(prog):
    """dispatch: TypeError for a non-formula, ValueError for an unknown `sameas`, RuntimeError for an unsupported command without
    `sameas` and when nothing usable is installed; otherwise the interface of the solver named (or of `sameas`) is run on the command"""
    table = None
    m = prog.module(MOD)
    for n in m.tree.body:
        if isinstance(n, ast.Assign) and len(n.targets) == 1 and isinstance(n.targets[0], ast.Name) and n.targets[0].id == "_SATSOLVER_INTERFACE":
            table = {ast.literal_eval(k): v.id for k, v in zip(n.value.keys, n.value.values) if isinstance(v, ast.Name)}
    if not table:
        return None, "interface table not found"
    cnt = 0
    answer = {"stdout": "s SATISFIABLE\nv 1 0\n", "result_file": "SAT\n1 0\n"}
    cases = [
        (["notaformula", None, None], {}, ("raises", "TypeError")),
        ([FakeF(), "minisat", "nosuchsolver"], {}, ("raises", "ValueError")),
        ([FakeF(), None, "nosuchsolver"], {}, ("raises", "ValueError")),
        ([FakeF(), "  ", "nosuchsolver"], {"installed": []}, ("raises", "ValueError")),
        ([FakeF(), "", "nosuchsolver"], {}, ("raises", "ValueError")),
        ([FakeF(), "mysolver -x", None], {"installed": ["mysolver"]}, ("raises", "RuntimeError")),
        ([FakeF(), "minisat", None], {"installed": []}, ("raises", "RuntimeError")),
        ([FakeF(), None, None], {"installed": []}, ("raises", "RuntimeError")),
        ([FakeF(), "  ", None], {"installed": []}, ("raises", "RuntimeError")),
    ]
    for solver in sorted(table):
        cases.append(([FakeF(), solver + " -v", None], {"installed": [solver]}, ("runs", table[solver], [solver, "-v"])))
        cases.append(([FakeF(), "other --flag", solver], {"installed": ["other"]}, ("runs", table[solver], ["other", "--flag"])))
        cases.append(([FakeF(), None, None], {"installed": [solver]}, ("runs", table[solver], [solver])))
        other = [s_ for s_ in sorted(table) if table[s_] != table[solver]][0]
        # without a command the supported solvers are tried, each through its own convention: `sameas` describes a command, there is none
        cases.append(([FakeF(), None, other], {"installed": [solver]}, ("runs", table[solver], [solver])))
        cases.append(([FakeF(), " ", other], {"installed": [solver]}, ("runs", table[solver], [solver])))
    for args, script, want in cases:
        sc = dict(answer, **script)
        what = "sat_solve(F, cmd=%r, sameas=%r) with %s installed" % (args[1], args[2], script.get("installed", "every solver"))
        out, fos, _ = _fold(prog, "sat_solve", args, {}, sc)
        if fos.files:
            return False, "%s leaves the temporary file(s) %s behind" % (what, sorted(fos.files))
        if want[0] == "raises":
            if out != want:
                return False, "%s ends with %r; %s expected" % (what, out, want[1])
        else:
            if out[0] != "value" or _norm(out[1]) != (True, [1]):
                return False, "%s ends with %r; the verdict (True, [1]) of the solver's answer expected" % (what, out)
            runs = [p for p in fos.procs if not (len(p) == 2 and p[1] == "--help")]
            nfiles = {"_satsolve_filein_fileout": 2, "_satsolve_stdin_stdout": 0, "_satsolve_filein_stdout": 1}[want[1]]
            if len(runs) != 1 or runs[0][:len(want[2])] != want[2] or len(runs[0]) != len(want[2]) + nfiles or len(fos.created) != nfiles:
                return False, "%s runs %r with %d temporary files; the convention of %s (%d files) on the words %s expected" % (
                    what, runs, len(fos.created), want[1], nfiles, want[2])
        cnt += 1
    return True, "%d (command, sameas, installed solvers) instances folded" % cnt


_V = {}


def verdict(prog, name):
    key = (id(prog), name)
    if key not in _V:
        try:
            _V[key] = semantic_sat_solve(prog) if name == "sat_solve" else semantic_interface(prog, name)
        except Unknown as e:
            _V[key] = (None, "cannot fold %s: %s" % (name, e))
    return _V[key]
