"""C05 -- substitution, lifting and compression compose the formula with the gadget."""
import ast

from ..loader import AnalysisError, walk_shallow
from ..cfg import CFG
from ..astutil import src, call_name, method_name, const, is_const, stmts_in, kwarg
from ..builders import builder_table, local_env
from ..litarith import Ctx, sym_eval, prove_between, range_box, nonneg
from ..ql import Poly, Unknown, ev
from ..report import Result, Finding

P = "C05"
MOD = "cnfgen.transformations.substitutions"
HELP = "cnfgen.clihelpers.transformation_helpers"

# documented number of variables of the result, as a polynomial in N (variables of the input), k (arity), R (right side)
N, K, RR = Poly.sym("N"), Poly.sym("k"), Poly.sym("R")
DECLARED = {
    "XorSubstitution": K * N, "OrSubstitution": K * N, "MajoritySubstitution": K * N, "AllEqualSubstitution": K * N,
    "ExactlyOneSubstitution": K * N, "LinearSubstitution": K * N, "IfThenElseSubstitution": N * 3,
    "FormulaLifting": K * N * 2, "VariableCompression": RR, "FlipPolarity": N,
}
GADGET = {"XorSubstitution": "xorify", "OrSubstitution": "orify", "MajoritySubstitution": "majorify",
          "AllEqualSubstitution": "aesubst", "ExactlyOneSubstitution": "oneify", "LinearSubstitution": "linear",
          "IfThenElseSubstitution": "ite", "FormulaLifting": "lift", "FlipPolarity": "subst"}
NEG = {"==": "!=", "!=": "==", "<": ">=", ">=": "<", ">": "<=", "<=": ">"}


def F(rule, fi, construct, msg, node=None):
    return Finding(P, rule, fi, construct, msg, node=node)


def run(prog, tier):
    R = Result(P, "DECLARED-COUNT: the variables a transformation allocates explicitly (new_block / new_variable per original "
               "variable, update_variable_number) form a polynomial that equals the documented count (k*N, 3N, 2kN, R, N) and the "
               "allocation happens on every path before clauses are added.  LAYOUT-BOUNDS: for both sign cases of the literal, every "
               "variable a gadget closure mentions lies in [1, allocated] and the blocks of consecutive original variables are disjoint "
               "(multi-affine corner evaluation, coefficient-wise proof, concrete witness on failure).  SIGN-EQUIV: ite / lift apply "
               "the sign to the value variable only, flip is -lit.  NEGOP-TABLE: the negated operator of LinearSubstitution is the "
               "logical negation for all six operators.  GADGET-COMPLEMENT: the builders used for the positive and the negative literal "
               "are complementary (thresholds from the C04 table; parity constant follows the sign; exactly-one vs its != blasting).  "
               "YCARD: the lifting selector constraints range exactly over the Y block of each variable.  APPLY-SUBST: one gadget CNF "
               "per literal occurrence, indexed by the signed literal, distributed by cartesian product.  CLI-NAME-TABLE.  Does not "
               "decide that a gadget CNF computes the named Boolean function on all assignments.")
    R.trust("the OR of CNFs distributes into the cartesian product of their clauses",
            "VariablesManager.new_block(k) allocates k consecutive identifiers, new_variable one (C10 ALLOC-GUARD)")
    T = Result(P, "")
    shape_rules(T, prog)
    check_composition(R, prog, T)
    check_cli_names(R, prog)
    # the gadget CNFs come from add_linear / add_parity / the majority builders: their meaning is decided by C04's rules
    from ._families import borrow
    from . import c04
    borrow(R, P, "MECHANISM", prog, c04.check_add_linear, floor=4)
    borrow(R, P, "MECHANISM", prog, c04.check_neq_blast, floor=1)
    borrow(R, P, "MECHANISM", prog, c04.check_parity, floor=1)
    borrow(R, P, "MECHANISM", prog, c04.check_thresholds, builder_table(prog), floor=8)
    return R


def shape_rules(R, prog):
    table = builder_table(prog)
    for name in sorted(DECLARED):
        fi = prog.func(MOD, name)
        alloc = check_declared(R, prog, fi, name)
        if name in GADGET and alloc is not None:
            check_layout(R, prog, fi, name, alloc)
    check_negop(R, prog)
    check_gadget_closures(R, prog)
    check_complement(R, prog, table)
    check_ycard(R, prog)
    check_apply(R, prog)
    check_wrappers(R, prog)


def check_composition(R, prog, T):
    """COMPOSITION: every transformation, folded on small inputs over a stand-in formula class with semantic builders, composes the
    input with its gadget (truth-table comparison, sa/props/_c05_fold.py).  A shape finding inside a transformation whose composition
    was confirmed is recorded as undecided shape, not reported; a refuted composition is a finding of its own."""
    from . import _c05_fold as cf
    verdicts = {}
    for name in cf.NAMES:
        fi = prog.func(MOD, name)
        v = cf.verdict(prog, name)
        verdicts[name] = v
        if v[0] is True:
            R.ok("COMPOSITION", "%s: %s" % (name, v[1]), fi.key)
        elif v[0] is False:
            R.bad(F("COMPOSITION", fi, "%s composes F with its gadget" % name, v[1]))
        else:
            R.unknown("COMPOSITION", name, fi.key, v[1])
    R.floor("COMPOSITION", sum(1 for v in verdicts.values() if v[0] is not None), 12)
    for o in T.obligations:
        if o["status"] == "discharged":
            R.ok(o["rule"], o["instance"], o["where"], nontrivial=o["nontrivial"])
    for u in T.unproven:
        R.unknown(u["rule"], u["instance"], u["where"], u["why"])
    R.floors.extend(T.floors)
    for t in T.trusted:
        R.trust(t)
    everything = all(v[0] is True for v in verdicts.values())
    for f in T.findings:
        top = (f.function or "").split(".")[0]
        confirmed = verdicts.get(top, (None,))[0] is True or (top == "apply_substitution" and everything)
        if confirmed:
            R.unknown(f.rule, f.construct, "%s:%s %s" % (f.file, f.line, f.function),
                      "shape not recognised (%s); the meaning of the fragment was confirmed by folding" % f.message[:120])
        else:
            R.bad(f)


# ------------------------------------------------------------------ allocation
def result_name(fi):
    for s in fi.node.body:
        if isinstance(s, ast.Assign) and isinstance(s.targets[0], ast.Name) and isinstance(s.value, ast.Call) and \
                call_name(s.value) == "CNF" and not s.value.args:
            return s.targets[0].id, s
    return None, None


def check_declared(R, prog, fi, name):
    """-> allocated count polynomial (None if not established)"""
    out, ctor = result_name(fi)
    fpar = fi.params[0]
    if out is None:
        R.bad(F("DECLARED-COUNT", fi, "%s result" % name, "the transformation must build its result as a fresh CNF()"))
        return None
    cfg = CFG(fi.node)
    alloc = Poly.const(0)
    alloc_nodes = []
    for s in fi.node.body:
        if isinstance(s, ast.For) and src(s.iter) == "%s.all_variable_labels()" % fpar:
            per = Poly.const(0)
            for x in s.body:
                for c in [n for n in ast.walk(x) if isinstance(n, ast.Call)]:
                    if call_name(c) == out + ".new_block" and len(c.args) == 1:
                        try:
                            per = per + sym_eval(c.args[0], Ctx(env={fi.params[1] if len(fi.params) > 1 else "k": K}))
                        except Unknown:
                            per = None
                            break
                    elif call_name(c) == out + ".new_variable":
                        per = per + 1
                if per is None:
                    break
            if per is None:
                R.unknown("DECLARED-COUNT", name, fi.key, "block size not polynomial")
                return None
            if not per.is_zero():
                alloc = alloc + per * N
                alloc_nodes.append(s)
        if isinstance(s, ast.Expr) and isinstance(s.value, ast.Call) and call_name(s.value) == out + ".update_variable_number":
            a = s.value.args[0]
            env = local_env(fi.node)
            txt = src(env.get(src(a), a)) if isinstance(a, ast.Name) else src(a)
            if txt in ("B.right_order()",):
                alloc = alloc + RR
                alloc_nodes.append(s)
            elif txt in ("%s.number_of_variables()" % fpar,):
                alloc = alloc + N
                alloc_nodes.append(s)
            else:
                R.unknown("DECLARED-COUNT", name, fi.key, "update_variable_number(%s) not understood" % txt)
    want = DECLARED[name]
    inst = "%s allocates %s variables (documented: %s)" % (name, alloc, want)
    adds = [s for s in fi.node.body if any(isinstance(c, ast.Call) and call_name(c) in (out + ".add_clauses_from", out + ".add_clause",
                                                                                        out + ".add_linear") for c in ast.walk(s))]
    if alloc == want and alloc_nodes:
        late = [a for a in adds for n in alloc_nodes if not cfg.dominates(cfg.node_of(n), cfg.node_of(a))]
        if late:
            R.bad(F("DECLARED-COUNT", fi, "%s allocation order" % name, "variables must be allocated before clauses are added", late[0]))
        else:
            R.ok("DECLARED-COUNT", inst, fi.key)
        return alloc
    R.bad(F("DECLARED-COUNT", fi, "%s variable count" % name,
            "the documentation promises %s variables; the explicit allocation (new_block / new_variable per original variable, "
            "update_variable_number) amounts to %s%s" % (want, alloc, "" if alloc_nodes else
                                                         ": nothing is allocated, the count is whatever the clauses happen to mention, so "
                                                         "unused variables (and all variable names) are lost")))
    return alloc if alloc_nodes else None


# ------------------------------------------------------------------ layout
def closure(prog, fi, name):
    q = "%s.<locals>.%s" % (fi.qualname, name)
    return prog.find_func(MOD, q)


def literal_exprs(cl, ctx_env):
    """(expr, box) pairs for every variable expression the closure builds: elements of list comprehensions over ranges and
    elements of list displays in return statements"""
    out = []
    env = local_env(cl.node)
    for s in stmts_in(cl.node):
        vals = []
        if isinstance(s, ast.Assign) and len(s.targets) == 1:
            vals = [s.value]
        elif isinstance(s, ast.Return) and s.value is not None:
            vals = [s.value]
        for v in vals:
            for n in ast.walk(v):
                if isinstance(n, ast.ListComp) and len(n.generators) == 1 and isinstance(n.generators[0].iter, ast.Call) and \
                        call_name(n.generators[0].iter) == "range" and isinstance(n.generators[0].target, ast.Name):
                    elts = n.elt.elts if isinstance(n.elt, (ast.List, ast.Tuple)) else [n.elt]
                    for e in elts:
                        out.append((e, n.generators[0], s))
                elif isinstance(n, ast.List) and isinstance(s, ast.Return) and n.elts and \
                        all(not isinstance(x, (ast.List, ast.ListComp, ast.Name)) or isinstance(x, ast.Name) for x in n.elts):
                    # names bound by a comprehension over an already-built literal list (``for v in nvars``) stand for
                    # members of that list, which are checked where the list is built
                    bound = set()
                    for c in ast.walk(v):
                        if isinstance(c, (ast.ListComp, ast.GeneratorExp)):
                            for g in c.generators:
                                if not (isinstance(g.iter, ast.Call) and call_name(g.iter) == "range"):
                                    bound |= {t.id for t in ast.walk(g.target) if isinstance(t, ast.Name)}
                    for e in n.elts:
                        if isinstance(e, (ast.List, ast.Tuple)):
                            continue
                        if {t.id for t in ast.walk(e) if isinstance(t, ast.Name)} & bound:
                            continue
                        if isinstance(e, ast.Name) and isinstance(env.get(e.id), (ast.ListComp, ast.List)):
                            continue      # a whole literal list, e.g. [nvars]
                        out.append((e, None, s))
    # de-duplicate (an element of a display inside a comprehension was already taken with its box)
    seen, res = set(), []
    boxed = {id(e) for e, g, s in out if g is not None}
    for e, g, s in out:
        if g is None and id(e) in boxed:
            continue
        if id(e) in seen:
            continue
        seen.add(id(e))
        res.append((e, g, s))
    return res, env


def check_layout(R, prog, fi, name, alloc):
    cl = closure(prog, fi, GADGET[name])
    if cl is None:
        raise AnalysisError("%s: gadget closure %s not found" % (name, GADGET[name]))
    lit = cl.params[0]
    kname = fi.params[1] if len(fi.params) > 1 else None
    outer = local_env(fi.node)
    items, env = literal_exprs(cl, {})
    if name == "FlipPolarity":
        rets = [s.value for s in stmts_in(cl.node) if isinstance(s, ast.Return)]
        if len(rets) == 1 and src(rets[0]) == "[[-%s]]" % lit:
            R.ok("SIGN-EQUIV", "FlipPolarity: literal l becomes the unit CNF [[-l]]", cl.key)
        else:
            R.bad(F("SIGN-EQUIV", cl, "FlipPolarity gadget", "flipping must map literal l to [[-l]]; found %s" % [src(r) for r in rets]))
        return
    if not items:
        R.unknown("LAYOUT-BOUNDS", name, cl.key, "no literal expressions recognised in the gadget")
        return
    base_env = {}
    for k, v in outer.items():
        if src(v) == "%s.number_of_variables()" % fi.params[0]:
            base_env[k] = N
    if kname:
        base_env[kname] = K
    lower = {"N": 1, "k": 1, "a": 1}
    per_case = {}
    worst = None
    for sgn in (1, -1):
        polys = []
        for e, gen, st in items:
            ctx = Ctx(lit, sgn, dict(env))
            ctx.env.update(base_env)
            box = {"a": (Poly.const(1), N)}
            try:
                if gen is not None:
                    lo, hi = range_box(gen.iter, ctx)
                    box[gen.target.id] = (lo, hi)
                p = sym_eval(e, ctx)
            except Unknown as u:
                R.unknown("LAYOUT-BOUNDS", "%s: %s" % (name, src(e)), cl.key, str(u))
                polys.append(None)
                continue
            polys.append((p, box, e, st))
        per_case[sgn] = polys
    # bounds: the variable of each literal expression is within [1, alloc]
    var_polys = []
    for sgn in (1, -1):
        for item in per_case[sgn]:
            if item is None:
                continue
            p, box, e, st = item
            inst = "%s.%s: |%s| in [1, %s] for a %s literal" % (name, GADGET[name], src(e), alloc, "positive" if sgn > 0 else "negative")
            ok, why = prove_between(p, box, lower, 1, alloc)
            if ok is not True:
                ok2, why2 = prove_between(-p, box, lower, 1, alloc)
                if ok2 is True:
                    ok, why = True, None
                elif ok is False and ok2 is False:
                    ok = False
                else:
                    ok = None if ok is not False or ok2 is None else False
            if ok is True:
                R.ok("LAYOUT-BOUNDS", inst, cl.key)
                if sgn == 1:
                    var_polys.append((p if why is None and prove_between(p, box, lower, 1, alloc)[0] is True else -p, box, e, st))
            elif ok is False:
                R.bad(F("LAYOUT-BOUNDS", cl, "%s variable range of %s" % (name, src(e)),
                        "the gadget for a %s literal mentions variable %s = %s which leaves the %s variables the transformation "
                        "allocates (%s)" % ("positive" if sgn > 0 else "negative", src(e), p, alloc, why), st))
            else:
                R.unknown("LAYOUT-BOUNDS", inst, cl.key, str(why))
    # disjoint blocks: for comprehension-defined blocks, max over the index at variable a  <  min at variable a+1
    for item in var_polys:
        p, box, e, st = item
        idx = [s for s in box if s != "a"]
        if not idx or "a" not in p.symbols():
            continue
        i = idx[0]
        hi_a = p.subs({i: box[i][1]})
        lo_next = p.subs({i: box[i][0], "a": Poly.sym("a") + 1})
        d = lo_next - hi_a - 1
        if nonneg(d, lower):
            R.ok("LAYOUT-BOUNDS", "%s: block of variable a ends before the block of a+1 starts (%s)" % (name, src(e)), cl.key)
        else:
            R.bad(F("LAYOUT-BOUNDS", cl, "%s blocks overlap (%s)" % (name, src(e)),
                    "the new variables of consecutive original variables overlap: last of a is %s, first of a+1 is %s" % (hi_a, lo_next), st))
    # sign handling of explicit displays (ite, lift): selectors equal in both cases, value variables negated
    if name in ("IfThenElseSubstitution", "FormulaLifting"):
        flips = same = 0
        bad = None
        # group the positions by the clause (inner list display) they belong to
        parent = {}
        for st in stmts_in(cl.node):
            for lst in [x for x in ast.walk(st) if isinstance(x, ast.List)]:
                for el in lst.elts:
                    parent[id(el)] = id(lst)
        per_clause = {}
        for a, b in zip(per_case[1], per_case[-1]):
            if a is None or b is None:
                continue
            pc = per_clause.setdefault(parent.get(id(a[2])), [0, 0, a])
            if a[0] == b[0]:
                same += 1
                pc[0] += 1
            elif (a[0] + b[0]).is_zero():
                flips += 1
                pc[1] += 1
            else:
                bad = (a, b)
        for cid, (sm, fl, a) in per_clause.items():
            if bad is None and (sm != 1 or fl != 1):
                R.bad(F("SIGN-EQUIV", cl, "%s clause shape near %s" % (name, src(a[2])),
                        "every clause of this gadget is `selector -> value`: exactly one selector literal that ignores the sign and one "
                        "value literal negated with it; this clause has %d sign-independent and %d negated positions" % (sm, fl), a[3]))
                bad = "reported"
        if bad == "reported":
            pass
        elif bad:
            R.bad(F("SIGN-EQUIV", cl, "%s sign handling of %s" % (name, src(bad[0][2])),
                    "for the positive literal this position is %s, for the negative one %s: neither the same selector nor the negated "
                    "value variable" % (bad[0][0], bad[1][0]), bad[0][3]))
        elif flips >= 1 and same >= 1:
            R.ok("SIGN-EQUIV", "%s: %d selector positions independent of the sign, %d value positions negated with it" % (name, same, flips), cl.key)
        else:
            R.bad(F("SIGN-EQUIV", cl, "%s polarity" % name, "the gadget must negate exactly its value variables with the literal's sign "
                    "(%d positions flip, %d stay)" % (flips, same)))


# ------------------------------------------------------------------ negation table / complements
def check_negop(R, prog):
    fi = prog.func(MOD, "LinearSubstitution")
    env = local_env(fi.node)
    lst = env.get("opchoices")
    if not isinstance(lst, ast.List):
        raise AnalysisError("LinearSubstitution: operator list not found")
    ops = [const(e) for e in lst.elts]
    neg = env.get("negop")
    idx = env.get("i")
    if neg is None or idx is None or src(idx) != "opchoices.index(%s)" % fi.params[2]:
        R.unknown("NEGOP-TABLE", "LinearSubstitution", fi.key, "negated operator computed in an unrecognised way")
        return
    if not (isinstance(neg, ast.Subscript) and src(neg.value) == "opchoices"):
        R.unknown("NEGOP-TABLE", "LinearSubstitution", fi.key, "negated operator not a table lookup")
        return
    for j, op in enumerate(ops):
        try:
            k = ev(neg.slice, {"i": j})
            got = ops[k]
        except (Unknown, IndexError):
            got = None
        if got == NEG.get(op):
            R.ok("NEGOP-TABLE", "not (sum %s C)  ==  sum %s C" % (op, got), fi.key)
        else:
            R.bad(F("NEGOP-TABLE", fi, "negation of %r" % op, "the negative literal must use the logical negation %r of operator %r; the table "
                    "gives %r" % (NEG.get(op), op, got)))
    if sorted(ops) != sorted(NEG):
        R.bad(F("NEGOP-TABLE", fi, "operator list", "the six operators ==, !=, <, <=, >, >= must be accepted; found %s" % ops))
    cl = closure(prog, fi, "linear")
    calls = [c for c in ast.walk(cl.node) if isinstance(c, ast.Call) and method_name(c) == "add_linear"]
    pos = [c for c in calls if src(c.args[1]) == fi.params[2]]
    ngs = [c for c in calls if src(c.args[1]) == "negop"]
    ok = len(pos) == 1 and len(ngs) == 1 and all(src(c.args[2]) == fi.params[3] and src(c.args[0]) == "nvars" for c in calls)
    branch = [s for s in stmts_in(cl.node) if isinstance(s, ast.If)]
    if ok and branch and src(branch[0].test) == "%s > 0" % cl.params[0] and any(pos[0] is c for x in branch[0].body for c in ast.walk(x)):
        R.ok("GADGET-COMPLEMENT", "linear: positive literal -> (op, C), negative literal -> (negop, C) on the same block", cl.key)
    else:
        R.bad(F("GADGET-COMPLEMENT", cl, "linear gadget", "positive literal must add `block op C`, negative literal `block negop C`"))


def check_complement(R, prog, table):
    # majority: loose majority vs strict minority must be complementary ( >= t  vs  <= t-1 )
    a, b = table[("cnf", "add_loose_majority")], table[("cnf", "add_strict_minority")]
    good = True
    try:
        for n in range(0, 40):
            ra, ta = a.normalised(n, 0)
            rb, tb = b.normalised(n, 0)
            if not (ra == ">=" and rb == "<=" and tb == ta - 1):
                good = False
    except Exception:
        good = False
    for tname, cname in (("MajoritySubstitution", "majorify"), ("VariableCompression", "applymaj")):
        fi = prog.func(MOD, tname)
        cl = closure(prog, fi, cname)
        pos = neg = None
        for s in stmts_in(cl.node):
            if isinstance(s, ast.If) and src(s.test) == "%s > 0" % cl.params[0]:
                pos = [method_name(c) for x in s.body for c in ast.walk(x) if isinstance(c, ast.Call) and method_name(c).startswith("add_")]
                neg = [method_name(c) for x in s.orelse for c in ast.walk(x) if isinstance(c, ast.Call) and method_name(c).startswith("add_")]
        if pos == ["add_loose_majority"] and neg == ["add_strict_minority"] and good:
            R.ok("GADGET-COMPLEMENT", "%s: positive -> loose majority (>= ceil(n/2)), negative -> strict minority (<= ceil(n/2)-1)" % cname, cl.key)
        elif pos == ["add_strict_majority"] and neg == ["add_loose_minority"]:
            R.ok("GADGET-COMPLEMENT", "%s: positive -> strict majority, negative -> loose minority" % cname, cl.key)
        else:
            R.bad(F("GADGET-COMPLEMENT", cl, "%s builders" % cname, "the builders for the positive and the negative literal must be complementary "
                    "(loose majority / strict minority); found %s / %s" % (pos, neg)))
    # xor: parity constant follows the sign
    for tname, cname in (("XorSubstitution", "xorify"), ("VariableCompression", "applyxor")):
        fi = prog.func(MOD, tname)
        cl = closure(prog, fi, cname)
        env = local_env(cl.node)
        calls = [c for c in ast.walk(cl.node) if isinstance(c, ast.Call) and method_name(c) == "add_parity"]
        ok = False
        if len(calls) == 1 and len(calls[0].args) >= 2:
            pe = calls[0].args[1]
            try:
                vals = [sym_eval(pe, Ctx(cl.params[0], s, dict(env))).as_const() for s in (1, -1)]
                ok = vals == [1, 0]
            except Unknown as u:
                R.unknown("GADGET-COMPLEMENT", "%s parity constant" % cname, cl.key, str(u))
                continue
        if ok:
            R.ok("GADGET-COMPLEMENT", "%s: positive literal -> parity 1, negative literal -> parity 0 on the same block" % cname, cl.key)
        else:
            R.bad(F("GADGET-COMPLEMENT", cl, "%s parity constant" % cname, "x = XOR(block): the positive literal needs parity 1, the negative parity 0"))
    # or
    fi = prog.func(MOD, "OrSubstitution")
    cl = closure(prog, fi, "orify")
    rets = {}
    for s in stmts_in(cl.node):
        if isinstance(s, ast.If) and src(s.test) == "%s > 0" % cl.params[0]:
            rets["pos"] = [src(x.value) for x in s.body if isinstance(x, ast.Return)]
            rets["neg"] = [src(x.value) for x in s.orelse if isinstance(x, ast.Return)]
    if rets.get("pos") == ["[nvars]"] and rets.get("neg") in (["[[-nvar] for nvar in nvars]"], ["[[-v] for v in nvars]"]):
        R.ok("GADGET-COMPLEMENT", "orify: positive -> one clause over the block, negative -> every block variable false", cl.key)
    else:
        R.bad(F("GADGET-COMPLEMENT", cl, "orify", "x = OR(block): positive literal is the clause of the block, negative literal the unit clauses "
                "-v for every v; found %s" % rets))
    # exactly one
    fi = prog.func(MOD, "ExactlyOneSubstitution")
    cl = closure(prog, fi, "oneify")
    pos = neg = False
    for s in stmts_in(cl.node):
        if isinstance(s, ast.If) and src(s.test) == "%s > 0" % cl.params[0]:
            pos = any(isinstance(c, ast.Call) and method_name(c) == "add_linear" and src(c.args[1]) == "'=='" and is_const(c.args[2], 1)
                      and src(c.args[0]) == "nvars" for x in s.body for c in ast.walk(x))
            for x in s.orelse:
                if isinstance(x, ast.For) and src(x.iter) in ("range(len(nvars))", "range(k)"):
                    body = [src(y) for y in x.body]
                    i = src(x.target)
                    neg = body == ["nvars[%s] *= -1" % i, "temp.add_clause(nvars)", "nvars[%s] *= -1" % i]
                if isinstance(x, ast.Expr) and isinstance(x.value, ast.Call) and method_name(x.value) == "add_linear" and \
                        src(x.value.args[1]) == "'!='" and is_const(x.value.args[2], 1):
                    neg = True
    if pos and neg:
        R.ok("GADGET-COMPLEMENT", "oneify: positive -> sum == 1, negative -> sum != 1 (one clause per variable with that variable negated)", cl.key)
    else:
        R.bad(F("GADGET-COMPLEMENT", cl, "oneify", "x = (sum == 1): positive literal `sum == 1`, negative literal the != 1 blasting"))
    # all equal
    fi = prog.func(MOD, "AllEqualSubstitution")
    cl = closure(prog, fi, "aesubst")
    lp = cl.params[0]
    negations = {"%s *= -1" % lp, "%s = -%s" % (lp, lp), "%s = %s * -1" % (lp, lp), "%s = -1 * %s" % (lp, lp)}
    ok_inv = any(isinstance(s, ast.If) and src(s.test) == fi.params[2] and len(s.body) == 1 and src(s.body[0]) in negations and not s.orelse
                 for s in stmts_in(cl.node))
    eq_ok = nae_ok = False
    for s in stmts_in(cl.node):
        if isinstance(s, ast.If) and src(s.test) == "%s > 0" % cl.params[0]:
            txt = [src(x) for x in s.body]
            eq_ok = "clauses.append([nvars[0], -nvars[-1]])" in txt and \
                "clauses.extend([[-nvars[i - 1], nvars[i]] for i in range(1, len(nvars))])" in txt
            nae_ok = [src(x) for x in s.orelse] == ["clauses = [nvars, [-v for v in nvars]]"]
    if ok_inv and eq_ok and nae_ok:
        R.ok("GADGET-COMPLEMENT", "aesubst: all-equal = cycle of implications v1->v2->..->vk->v1; not-all-equal = (some true) and (some false); "
                                  "`invert` swaps the two", cl.key)
    else:
        R.bad(F("GADGET-COMPLEMENT", cl, "aesubst", "all-equal must be the implication cycle over the block, its negation the two clauses "
                "(block) and (negated block), and invert must swap them"))
    fi2 = prog.func(MOD, "NotAllEqualSubstitution")
    calls = [c for c in ast.walk(fi2.node) if isinstance(c, ast.Call) and call_name(c) == "AllEqualSubstitution"]
    if len(calls) == 1 and [src(a) for a in calls[0].args] == fi2.params[:2] and any(k.arg == "invert" and is_const(k.value, True) for k in calls[0].keywords):
        R.ok("GADGET-COMPLEMENT", "NotAllEqualSubstitution == AllEqualSubstitution(F, k, invert=True)", fi2.key)
    else:
        R.bad(F("GADGET-COMPLEMENT", fi2, "NotAllEqualSubstitution", "must be AllEqualSubstitution(F, k, invert=True)"))


# ------------------------------------------------------------------ lifting selectors
def check_ycard(R, prog):
    fi = prog.func(MOD, "FormulaLifting")
    out, _ = result_name(fi)
    kname = fi.params[1]
    env = local_env(fi.node)
    loop = None
    for s in fi.node.body:
        if isinstance(s, ast.For) and isinstance(s.iter, ast.Call) and call_name(s.iter) == "range" and len(s.iter.args) == 3:
            loop = s
    if loop is None:
        R.bad(F("YCARD", fi, "selector loop", "no loop adding the `exactly one selector` constraints"))
        return
    ctx = Ctx(env={kname: K})
    for k, v in env.items():
        if src(v) == "%s.number_of_variables()" % out:
            ctx.env[k] = K * N * 2
    try:
        start, stop, step = [sym_eval(a, ctx) for a in loop.iter.args]
    except Unknown as e:
        R.unknown("YCARD", "FormulaLifting", fi.key, str(e))
        return
    # layout of the closure: Yoff(a) = (a-1)*2k + k  (taken from the closure itself)
    cl = closure(prog, fi, "lift")
    cenv = local_env(cl.node)
    c2 = Ctx(cl.params[0], 1, dict(cenv))
    c2.env[kname] = K
    try:
        yoff = sym_eval(cenv["Yoff"], c2)
        xoff = sym_eval(cenv["Xoff"], c2)
    except (Unknown, KeyError) as e:
        R.unknown("YCARD", "FormulaLifting", fi.key, "Yoff/Xoff: %s" % e)
        return
    first = yoff.subs({"a": Poly.const(1)}) + 1
    stride = yoff.subs({"a": Poly.sym("a") + 1}) - yoff
    last = yoff.subs({"a": N}) + 1
    lower = {"N": 1, "k": 1}
    ok_first = start == first
    ok_step = step == stride
    ok_stop = nonneg(stop - last - 1, lower) and nonneg(last + step - stop, lower)
    witness = None
    if not ok_stop:
        for kv in (1, 2, 3):
            for nv in (1, 2, 3):
                val = {"k": kv, "N": nv}
                if not (last.eval(val) < stop.eval(val) <= last.eval(val) + step.eval(val)):
                    witness = (kv, nv, stop.eval(val), last.eval(val))
                    break
            if witness:
                break
    if ok_first and ok_step and ok_stop:
        R.ok("YCARD", "selector constraints start at Y-block 1 (%s), advance by the stride %s and cover all N blocks (stop %s)" % (start, step, stop), fi.key)
    else:
        R.bad(F("YCARD", fi, "selector loop range",
                "the `exactly one selector` constraints must start at %s, advance by %s and stop in (%s, %s]; the loop is range(%s, %s, %s)%s"
                % (first, stride, last, last + stride, start, stop, step,
                   (": for k=%d, N=%d the range stops at %d and misses the last selector block starting at %d" % witness) if witness else ""), loop))
    calls = [c for x in loop.body for c in ast.walk(x) if isinstance(c, ast.Call) and method_name(c) == "add_linear"]
    y = src(loop.target)
    good = len(calls) == 1 and src(calls[0].args[0]) in ("[%s + i for i in range(%s)]" % (y, kname),) and \
        src(calls[0].args[1]) == "'=='" and is_const(calls[0].args[2], 1)
    if good:
        R.ok("YCARD", "each selector constraint is `exactly one` over the k selectors of the block", fi.key)
    else:
        R.bad(F("YCARD", fi, "selector constraint", "each block needs add_linear([y+i for i in range(k)], '==', 1)", loop))
    # gadget uses selector i with value i:  [-(Yoff+i), sign*(Xoff+i)] for i in 1..k ; X block before Y block
    if (yoff - xoff) == K:
        R.ok("YCARD", "variable a owns X block (a-1)*2k+1.. and Y block (a-1)*2k+k+1.. (Yoff - Xoff = k)", cl.key)
    else:
        R.bad(F("YCARD", cl, "lift offsets", "the selector block must follow the value block of the same variable: Yoff - Xoff = k; found %s" % (yoff - xoff)))


# ------------------------------------------------------------------ distribution
def check_apply(R, prog):
    fi = prog.func(MOD, "apply_substitution")
    fpar, spar = fi.params[:2]
    txt = [src(s) for s in stmts_in(fi.node)]
    nname = None
    for s in fi.node.body:
        if isinstance(s, ast.Assign) and src(s.value) == "%s.number_of_variables()" % fpar:
            nname = src(s.targets[0])
    tab = None
    for s in fi.node.body:
        if isinstance(s, ast.Assign) and nname and src(s.value) in ("[None] * (2 * %s + 1)" % nname,):
            tab = src(s.targets[0])
    fill = False
    for s in fi.node.body:
        if isinstance(s, ast.For) and nname and src(s.iter) == "range(1, %s + 1)" % nname and tab:
            i = src(s.target)
            body = [src(x) for x in s.body]
            fill = "%s[%s] = %s(%s)" % (tab, i, spar, i) in body and "%s[-%s] = %s(-%s)" % (tab, i, spar, i) in body
    if fill:
        R.ok("APPLY-SUBST", "gadget table: entry l = subst(l) for every literal l in +-1..+-N (signed key)", fi.key)
    else:
        R.bad(F("APPLY-SUBST", fi, "gadget table", "the table must hold subst(i) at i and subst(-i) at -i for i in 1..N"))
    loop = None
    for s in fi.node.body:
        if isinstance(s, ast.For) and src(s.iter) == fpar:
            loop = s
    ok = False
    if loop is not None and tab:
        c = src(loop.target)
        body = [src(x) for x in loop.body]
        dom = [b for b in body if b.startswith("domains = [")]
        ok = dom == ["domains = [%s[lit] for lit in %s]" % (tab, c)] and any("product(*domains)" in b for b in body) and \
            any(b.startswith("yield from") for b in body)
        flat = any("[lit for clause in clause_tuple for lit in clause]" in b for b in body)
        ok = ok and flat
    if ok:
        R.ok("APPLY-SUBST", "each clause: one gadget CNF per literal occurrence (no filter), cartesian product, literals concatenated", fi.key)
    else:
        R.bad(F("APPLY-SUBST", fi, "clause distribution",
                "every literal occurrence of every clause must contribute its own gadget CNF, looked up by the signed literal, and the "
                "result must be the cartesian product with the chosen clauses concatenated; no literal may be dropped or merged", loop))
    # polarity must never be forgotten here: abs() has no business in the distribution
    if any(isinstance(c, ast.Call) and call_name(c) == "abs" for c in ast.walk(fi.node)):
        R.bad(F("APPLY-SUBST", fi, "abs() in apply_substitution",
                "the distribution identifies literals up to sign (abs): opposite literals of one variable are two different occurrences "
                "with different gadgets"))
    else:
        R.ok("APPLY-SUBST", "literals are never compared or keyed up to sign in the distribution", fi.key)
    # every transformation feeds the result of apply_substitution(F, <its gadget>) into the new formula
    n = 0
    for name, g in sorted(GADGET.items()):
        t = prog.func(MOD, name)
        out, _ = result_name(t)
        calls = [c for c in walk_shallow(t.node) if isinstance(c, ast.Call) and call_name(c) == "apply_substitution"]
        good = len(calls) == 1 and [src(a) for a in calls[0].args] == [t.params[0], g]
        parent = [c for c in walk_shallow(t.node) if isinstance(c, ast.Call) and call_name(c) == "%s.add_clauses_from" % out and calls
                  and c.args and c.args[0] is calls[0]]
        n += 1
        if good and parent:
            R.ok("APPLY-SUBST", "%s adds apply_substitution(F, %s) to its result" % (name, g), t.key)
        else:
            R.bad(F("APPLY-SUBST", t, "%s uses its gadget" % name, "the result must receive apply_substitution(%s, %s)" % (t.params[0], g)))
    t = prog.func(MOD, "VariableCompression")
    out, _ = result_name(t)
    pairs = {}
    for s in stmts_in(t.node):
        if isinstance(s, ast.If) and isinstance(s.test, ast.Compare) and src(s.test.left) == t.params[2]:
            for c in [x for y in s.body for x in ast.walk(y) if isinstance(x, ast.Call) and call_name(x) == "apply_substitution"]:
                pairs[const(s.test.comparators[0])] = src(c.args[1])
    if pairs == {"xor": "applyxor", "maj": "applymaj"}:
        R.ok("APPLY-SUBST", "VariableCompression: 'xor' -> applyxor, 'maj' -> applymaj", t.key)
    else:
        R.bad(F("APPLY-SUBST", t, "VariableCompression function dispatch", "'xor' must use applyxor and 'maj' applymaj; found %s" % pairs))
    for cname in ("applyxor", "applymaj"):
        cl = closure(prog, t, cname)
        env = local_env(cl.node)
        if src(env.get("nvars", ast.Constant(0))) == "B.right_neighbors(abs(%s))" % cl.params[0]:
            R.ok("LAYOUT-BOUNDS", "%s: variable a is replaced by the right neighbours of a in B (within 1..R by the graph invariant, C16)" % cname, cl.key)
        else:
            R.bad(F("LAYOUT-BOUNDS", cl, "%s block" % cname, "the block of variable a must be B.right_neighbors(a)"))
    g = [s for s in t.node.body if isinstance(s, ast.If) and "left_order()" in src(s.test) and s.body and isinstance(s.body[0], ast.Raise)]
    if g and src(g[0].test) in ("B.left_order() != F.number_of_variables()", "F.number_of_variables() != B.left_order()"):
        R.ok("LAYOUT-BOUNDS", "VariableCompression refuses a graph whose left side is not the variable set of F", t.key)
    else:
        R.bad(F("LAYOUT-BOUNDS", t, "VariableCompression size test", "the left side of the graph must have exactly F.number_of_variables() vertices"))


def check_wrappers(R, prog):
    want = {"AtLeastKSubstitution": ">=", "AtMostKSubstitution": "<=", "ExactlyKSubstitution": "==", "AnythingButKSubstitution": "!="}
    for name, op in sorted(want.items()):
        fi = prog.func(MOD, name)
        calls = [c for c in walk_shallow(fi.node) if isinstance(c, ast.Call) and call_name(c) == "LinearSubstitution"]
        if len(calls) == 1 and [src(a) for a in calls[0].args] == [fi.params[0], fi.params[1], repr(op), fi.params[2]]:
            R.ok("CLI-NAME-TABLE", "%s == LinearSubstitution(F, N, %r, k)" % (name, op), fi.key)
        else:
            R.bad(F("CLI-NAME-TABLE", fi, name, "must be LinearSubstitution(%s, %s, %r, %s)" % (fi.params[0], fi.params[1], op, fi.params[2])))


def check_cli_names(R, prog):
    want = {"xor": ("XorSubstitution", ["F", "args.N"]), "or": ("OrSubstitution", ["F", "args.N"]), "maj": ("MajoritySubstitution", ["F", "args.N"]),
            "eq": ("AllEqualSubstitution", ["F", "args.N"]), "neq": ("NotAllEqualSubstitution", ["F", "args.N"]),
            "one": ("ExactlyOneSubstitution", ["F", "args.N"]), "atleast": ("AtLeastKSubstitution", ["F", "args.N", "args.K"]),
            "atmost": ("AtMostKSubstitution", ["F", "args.N", "args.K"]), "exact": ("ExactlyKSubstitution", ["F", "args.N", "args.K"]),
            "anybut": ("AnythingButKSubstitution", ["F", "args.N", "args.K"]), "ite": ("IfThenElseSubstitution", ["F"]),
            "lift": ("FormulaLifting", ["F", "args.k"]), "flip": ("FlipPolarity", ["F"]),
            "xorcomp": ("VariableCompression", ["F", "B", "function='xor'"]), "majcomp": ("VariableCompression", ["F", "B", "function='maj'"]),
            "shuffle": ("Shuffle", None), "none": (None, None)}
    m = prog.module(HELP)
    base = prog.cls(HELP, "TransformationHelper")
    seen = {}
    for ci in prog.subclasses(base):
        nm = const(ci.attrs.get("name")) if "name" in ci.attrs else None
        seen[nm] = ci
    for nm, (fn, args) in sorted(want.items()):
        ci = seen.get(nm)
        if ci is None:
            R.bad(F("CLI-NAME-TABLE", None, "-T %s" % nm, "no transformation helper is registered under the name %r" % nm))
            continue
        fi = ci.methods.get("transform_cnf")
        rets = [s.value for s in stmts_in(fi.node) if isinstance(s, ast.Return) and s.value is not None]
        if fn is None:
            ok = len(rets) == 1 and src(rets[0]) == fi.params[0]
        else:
            ok = len(rets) == 1 and isinstance(rets[0], ast.Call) and call_name(rets[0]) == fn
            if ok and args is not None:
                got = [src(a) for a in rets[0].args] + ["%s=%s" % (k.arg, src(k.value)) for k in rets[0].keywords]
                ok = got == args
        if ok:
            R.ok("CLI-NAME-TABLE", "-T %s -> %s" % (nm, fn or "identity"), fi.key)
        else:
            R.bad(F("CLI-NAME-TABLE", fi, "-T %s" % nm, "the helper named %r must return %s(%s); found %s" % (
                nm, fn or "its input", ", ".join(args or ["..."]), [src(r) for r in rets])))
    extra = set(seen) - set(want)
    for nm in sorted(x for x in extra if x is not None):
        R.unknown("CLI-NAME-TABLE", "-T %s" % nm, seen[nm].key, "helper not in the documented table")


# ------------------------------------------------------------------ gadget closures: sign on every path, no stale captured value
def gadget_closures(prog):
    """(outer function, closure) for every closure handed to apply_substitution in the transformations module"""
    out = []
    m = prog.modules[MOD]
    for q, fi in sorted(m.functions.items()):
        if "<locals>" in q:
            continue
        for c in [x for x in walk_shallow(fi.node) if isinstance(x, ast.Call) and call_name(x) == "apply_substitution" and len(x.args) >= 2]:
            if isinstance(c.args[1], ast.Name):
                cl = closure(prog, fi, c.args[1].id)
                if cl is not None and (fi, cl) not in out:
                    out.append((fi, cl))
    return out


def check_gadget_closures(R, prog):
    pairs = gadget_closures(prog)
    ns = 0
    for fi, cl in pairs:
        lit = cl.params[0] if cl.params else None
        # SIGN-PATH: a gadget that distinguishes the sign of its literal does so on every path to a return
        cfg = CFG(cl.node)
        sign_nodes = []
        for st in stmts_in(cl.node):
            tests = [st.test] if isinstance(st, ast.If) else []
            if not isinstance(st, (ast.If, ast.For, ast.While, ast.Try, ast.With, ast.FunctionDef)):
                # `f(a if lit > 0 else b)`: a conditional expression inside a simple statement distinguishes the sign where that statement runs
                tests += [x.test for x in ast.walk(st) if isinstance(x, ast.IfExp)]
            for test in tests:
                for t in ast.walk(test):
                    if isinstance(t, ast.Compare) and len(t.ops) == 1 and isinstance(t.ops[0], (ast.Gt, ast.Lt, ast.GtE, ast.LtE)) and \
                            {src(t.left), src(t.comparators[0])} == {lit, "0"}:
                        sign_nodes.append(cfg.node_of(st))
        sign_nodes = [n for n in sign_nodes if n is not None]
        if sign_nodes:
            ns += 1
            if cfg.reaches(cfg.entry, cfg.exit, avoid=sign_nodes):
                R.bad(F("SIGN-PATH", cl, "%s returns without looking at the sign" % cl.qualname.split(".")[-1],
                        "the gadget tests the sign of `%s`, but some path reaches a return before / around that test: on that path the "
                        "positive and the negative literal get the same clauses, so x and not x are both true (or both false) there" % lit))
            else:
                R.ok("SIGN-PATH", "%s: every path to a return passes the test on the sign of `%s`" % (cl.qualname.split(".")[-1], lit), cl.key)
        # CAPTURE-STALE: a value derived from a captured name before that name is rebound
        check_stale(R, fi, cl)
    R.floor("SIGN-PATH closures", ns, 6)


def check_stale(R, fi, cl):
    bound_in_cl = set(cl.params)
    for n in ast.walk(cl.node):
        if isinstance(n, ast.Name) and isinstance(n.ctx, ast.Store):
            bound_in_cl.add(n.id)
    free = {n.id for n in ast.walk(cl.node) if isinstance(n, ast.Name) and isinstance(n.ctx, ast.Load)} - bound_in_cl
    stmts = [s for s in stmts_in(fi.node)]
    defs = {}
    for s_ in stmts:
        if isinstance(s_, ast.Assign):
            for t in s_.targets:
                for nm in ast.walk(t):
                    if isinstance(nm, ast.Name) and isinstance(nm.ctx, ast.Store):
                        defs.setdefault(nm.id, []).append(s_)
        elif isinstance(s_, ast.AugAssign) and isinstance(s_.target, ast.Name):
            defs.setdefault(s_.target.id, []).append(s_)
    captured = sorted(x for x in free if x in fi.params or x in defs)
    cfg = CFG(fi.node)

    def depends(expr_stmt, x, seen=()):
        for nm in ast.walk(expr_stmt.value):
            if isinstance(nm, ast.Name) and isinstance(nm.ctx, ast.Load):
                if nm.id == x:
                    return True
                if nm.id not in seen and len(defs.get(nm.id, [])) == 1 and nm.id not in fi.params and \
                        isinstance(defs[nm.id][0], ast.Assign) and depends(defs[nm.id][0], x, seen + (nm.id,)):
                    return True
        return False
    bad = False
    for x in captured:
        rebinds = defs.get(x, []) if x in fi.params else defs.get(x, [])[1:]
        for rb in rebinds:
            for y in captured:
                if y == x:
                    continue
                for d in defs.get(y, []):
                    if d is rb or not isinstance(d, ast.Assign) or not depends(d, x):
                        continue
                    dn, rn = cfg.node_of(d), cfg.node_of(rb)
                    later = [d2 for d2 in defs.get(y, []) if d2 is not d and cfg.node_of(d2) is not None and rn is not None
                             and cfg.reaches(rn, cfg.node_of(d2))]
                    if dn is not None and rn is not None and dn is not rn and cfg.reaches(dn, rn) and not later:
                        bad = True
                        R.bad(F("CAPTURE-STALE", fi, "%s: `%s` derived from `%s` before `%s` is rewritten" % (fi.qualname, y, x, x),
                                "`%s` (line %d) is computed from `%s`, then `%s` is rebound (line %d) and the gadget `%s` uses both: the "
                                "derived value belongs to the old `%s` (e.g. the negated operator of an operator that was replaced afterwards)"
                                % (y, d.lineno, x, x, rb.lineno, cl.qualname.split(".")[-1], x), rb))
    if not bad:
        R.ok("CAPTURE-STALE", "%s: the %d names captured by %s are consistent (none rebound after a value was derived from it)"
             % (fi.qualname, len(captured), cl.qualname.split(".")[-1]), fi.key, nontrivial=bool(captured))
