"""C12 -- OPB and LaTeX renderings denote the formula held in memory."""
import ast

from ..loader import AnalysisError, walk_shallow
from ..cfg import CFG
from ..astutil import src, call_name, method_name, const, is_const, stmts_in, kwarg
from ..writers import writes_in, single_line_names, sanitising_rebinds, shield_verdict
from ..report import Result, Finding

P = "C12"
OPBW = "cnfgen.utils.opb"
LATEX = "cnfgen.utils.latexoutput"
CNFIO = "cnfgen.formula.cnfio"
OPBIO = "cnfgen.formula.opbio"


def F(rule, fi, construct, msg, node=None):
    return Finding(P, rule, fi, construct, msg, node=node)


def run(prog, tier):
    _R = _run(prog, tier)
    # the names shown next to the literals are the names of those variables: all_variable_labels (C11, folded)
    from . import c11 as _c11
    from ._families import borrow as _b
    _b(_R, P, 'NAMES', prog, _c11.check_gapfill, floor=1)
    return _R


def _run(prog, tier):
    R = Result(P, "COUNT-PROVENANCE: the `#variable= #constraint=` line states number_of_variables() and len() of the formula whose rows are "
               "written.  ONE-ROW-PER-CLAUSE: in both branches of the OPB writer each row writes its terms in order and then its relation "
               "and degree exactly once, unconditionally; in the LaTeX row loop every path calls the row writer exactly once with row i, "
               "and with first=True right after a page split.  SIGN-BRANCH: a non-negative literal prints x<l>, a negative one ~x<-l>; "
               "the CNF branch prints coefficient +1 and `>= 1` (as BaseOPB.add_clause stores it).  OP-TABLE: stored operators {>=, ==} are "
               "exactly what the OPB and LaTeX writers distinguish.  COMMENT-SHIELD: every other line of the OPB file is one `*` comment "
               "line.  LITERAL-TABLE: LaTeX text of +v has no overline, of -v has one, rows join the table entries of their literals in "
               "order.  EMPTY-DISTINCT: empty clause and empty formula render as different symbols.  FORMAT-SELECT: explicit request "
               "wins, then the file extension table, and to_file dispatches each format to its writer.  Fidelity as judged by a third-"
               "party OPB reader and LaTeX alignment are not decided.")
    R.trust("'{:+}'.format(c) prints the sign and magnitude of integer c; str.splitlines() removes line boundaries")
    check_opb(R, prog)
    check_latex(R, prog)
    check_format_select(R, prog)
    check_find_sentinel(R, prog)
    from .c06 import check_write_through
    check_write_through(R, prog, P, [("cnfgen.formula.cnfio", "CNFio", ("to_opb", "to_latex", "to_file")),
                                     ("cnfgen.formula.opbio", "OPBio", ("to_opb", "to_latex", "to_file"))])
    return R


def _shape_opb(R, prog):
    w = prog.func(OPBW, "to_opb_file")
    fpar = w.params[0]
    stmts = stmts_in(w.node)
    cfg = CFG(w.node)
    env = {src(s.targets[0]): src(s.value) for s in stmts if isinstance(s, ast.Assign) and len(s.targets) == 1}
    ws = writes_in(w.node)
    spec = [(s, e) for s, e in ws if isinstance(e, ast.Call) and method_name(e) == "format" and "#variable=" in str(const(e.func.value))]
    if len(spec) != 1:
        raise AnalysisError("to_opb_file: the `#variable= #constraint=` line was not found")
    s_spec, e_spec = spec[0]
    tmpl = const(e_spec.func.value)
    kw = {k.arg: env.get(src(k.value), src(k.value)) for k in e_spec.keywords}
    pos = [env.get(src(a), src(a)) for a in e_spec.args]
    want_n = "%s.number_of_variables()" % fpar
    want_m = ["len(%s)" % fpar, "%s.number_of_clauses()" % fpar, "%s.number_of_constraints()" % fpar]
    okc = False
    if tmpl.startswith("* #variable= {n} #constraint= {m}") and kw.get("n") == want_n and kw.get("m") in want_m:
        okc = True
    if tmpl.startswith("* #variable= {} #constraint= {}") and pos[:1] == [want_n] and pos[1:2] and pos[1] in want_m:
        okc = True
    if tmpl.startswith("* #variable= {0} #constraint= {1}") and pos[:1] == [want_n] and pos[1:2] and pos[1] in want_m:
        okc = True
    if okc:
        R.ok("COUNT-PROVENANCE", "spec line = (number_of_variables(), len()) of the formula being written", w.key)
    else:
        R.bad(F("COUNT-PROVENANCE", w, "OPB spec line", "`* #variable= <n> #constraint= <m>` must state number_of_variables() and the number of rows "
                "of the formula written; found template %r with %s %s" % (tmpl, kw, pos), s_spec))
    # the two branches
    branches = {}
    for s in stmts:
        if isinstance(s, ast.If) and isinstance(s.test, ast.Call) and call_name(s.test) == "isinstance" and src(s.test.args[0]) == fpar:
            chain = [s]
            while len(chain[-1].orelse) == 1 and isinstance(chain[-1].orelse[0], ast.If):
                chain.append(chain[-1].orelse[0])
            for c in chain:
                branches[src(c.test.args[1])] = c.body
    for cls in ("BaseCNF", "BaseOPB"):
        if cls not in branches:
            R.bad(F("ONE-ROW-PER-CLAUSE", w, "branch for %s" % cls, "to_opb_file has no branch for %s formulas" % cls))
    # ---- CNF branch
    if "BaseCNF" in branches:
        body = branches["BaseCNF"]
        loop = [s for s in body if isinstance(s, ast.For) and src(s.iter) == fpar]
        ok_row = ok_sign = False
        if len(loop) == 1:
            lp = loop[0]
            c = src(lp.target)
            if len(lp.body) == 2 and isinstance(lp.body[0], ast.For) and src(lp.body[0].iter) == c and \
                    isinstance(lp.body[1], ast.Expr) and isinstance(lp.body[1].value, ast.Call) and method_name(lp.body[1].value) == "write" and \
                    const(lp.body[1].value.args[0]) == ">= 1\n":
                ok_row = True
                lit = src(lp.body[0].target)
                ok_sign = sign_branch(lp.body[0].body, lit, coeff="+1")
        if ok_row:
            R.ok("ONE-ROW-PER-CLAUSE", "CNF branch: per clause its terms in order, then `>= 1` once, unconditionally", w.key)
        else:
            R.bad(F("ONE-ROW-PER-CLAUSE", w, "CNF branch row", "every clause (the empty one too) must produce its terms followed by exactly one "
                    "`>= 1` line: the spec line counts it", loop[0] if loop else None))
        if ok_sign:
            R.ok("SIGN-BRANCH", "CNF branch: lit >= 0 -> `+1 x<lit>`, else `+1 ~x<-lit>`", w.key)
        else:
            R.bad(F("SIGN-BRANCH", w, "CNF branch literal text", "a positive literal l must print `+1 x<l> ` and a negative one `+1 ~x<-l> `"))
    # ---- OPB branch
    if "BaseOPB" in branches:
        body = branches["BaseOPB"]
        loop = [s for s in body if isinstance(s, ast.For) and src(s.iter) == fpar]
        ok_row = ok_sign = ok_op = False
        if len(loop) == 1:
            lp = loop[0]
            row = src(lp.target)
            lenv = {src(s.targets[0]): s.value for s in lp.body if isinstance(s, ast.Assign) and len(s.targets) == 1}
            inner = [s for s in lp.body if isinstance(s, ast.For)]
            last = lp.body[-1]
            opv = lenv.get("op")
            if isinstance(opv, ast.IfExp) and src(opv.test) in ("%s[-2] == '>='" % row,) and const(opv.body) == ">=" and const(opv.orelse) == "=":
                ok_op = True
            if len(inner) == 1 and src(inner[0].iter) == "%s[:-2]" % row and isinstance(last, ast.Expr) and isinstance(last.value, ast.Call) \
                    and method_name(last.value) == "write":
                a = last.value.args[0]
                vals = [src(lenv.get(src(x), x)) if isinstance(x, ast.Name) and src(x) in lenv and src(x) != "op" else src(x) for x in getattr(a, "args", [])]
                if isinstance(a, ast.Call) and method_name(a) == "format" and const(a.func.value) == "{} {}\n" and vals == ["op", "%s[-1]" % row]:
                    ok_row = True
                tg = inner[0].target
                if isinstance(tg, ast.Tuple) and len(tg.elts) == 2:
                    cn, ln = src(tg.elts[0]), src(tg.elts[1])
                    ok_sign = sign_branch(inner[0].body, ln, coeff=None, cname=cn)
        if ok_row:
            R.ok("ONE-ROW-PER-CLAUSE", "OPB branch: per constraint its terms lin[:-2] in order, then relation and degree lin[-1] once", w.key)
        else:
            R.bad(F("ONE-ROW-PER-CLAUSE", w, "OPB branch row", "every constraint must print all its (coefficient, literal) terms and then `<op> <degree>` once"))
        if ok_sign:
            R.ok("SIGN-BRANCH", "OPB branch: l >= 0 -> `{:+} x<l>` with its coefficient, else `{:+} ~x<-l>`", w.key)
        else:
            R.bad(F("SIGN-BRANCH", w, "OPB branch literal text", "a term (c, l) must print `<+c> x<l>` for l > 0 and `<+c> ~x<-l>` for l < 0"))
        if ok_op:
            R.ok("OP-TABLE", "OPB writer: stored '>=' prints '>=', the only other stored operator '==' prints '='", w.key)
        else:
            R.bad(F("OP-TABLE", w, "OPB operator text", "stored operators are '>=' and '=='; they must print as '>=' and '='"))
    # sibling: BaseOPB.add_clause stores coefficient 1 and '>=' 1
    ac = prog.func("cnfgen.formula.baseopb", "BaseOPB.add_clause")
    if any("[(1, l) for l in %s] + ['>=', 1]" % ac.params[1] in src(s) for s in stmts_in(ac.node)):
        R.ok("SIGN-BRANCH", "sibling agreement: BaseOPB.add_clause stores (1, l).. '>=' 1, the CNF branch of the writer prints +1 .. >= 1", ac.key)
    else:
        R.bad(F("SIGN-BRANCH", ac, "BaseOPB.add_clause", "a clause is the constraint sum of its literals with coefficient 1 >= 1"))
    # comment shield: every write that is neither the spec line nor inside the row loops
    row_nodes = set()
    for b in branches.values():
        for s in b:
            for x in ast.walk(s):
                row_nodes.add(id(x))
    safe = single_line_names(w.node)
    rebinds = sanitising_rebinds(w.node)
    n = 0
    for s, e in ws:
        if s is s_spec or id(s) in row_nodes:
            continue
        n += 1
        sn = cfg.node_of(s)
        local_safe = set(safe)
        for name, sts in rebinds.items():
            if any(cfg.dominates(cfg.node_of(rb), sn) for rb in sts):
                local_safe.add(name)
        ok, why = shield_verdict(e, "* ", local_safe)
        inst = "write(%s)" % src(e)[:60]
        if ok is True:
            R.ok("COMMENT-SHIELD", inst + " is one `*` comment line", w.key)
        elif ok is False:
            R.bad(F("COMMENT-SHIELD", w, "non-constraint line: %s" % src(e)[:50],
                    "a line of the OPB file that is not a constraint is not guaranteed to be a `*` comment: %s" % why, s))
        else:
            R.bad(F("COMMENT-SHIELD", w, "non-constraint line: %s" % src(e)[:50],
                    "cannot establish that this write produces `*` comment lines only (%s): text that may contain line breaks must be split "
                    "and every piece prefixed with the marker" % why, s))
    R.floor("COMMENT-SHIELD", n, 3)
    ok, why = shield_verdict(ast.Constant(value=tmpl.replace("{n}", "0").replace("{m}", "0").replace("{}", "0").replace("{0}", "0").replace("{1}", "0")), "* ", set())
    if ok:
        R.ok("COMMENT-SHIELD", "the spec line itself is a `*` line", w.key)


def check_opb(R, prog):
    from ._shared import with_semantics
    from . import _writer_fold
    w = prog.func("cnfgen.utils.opb", "to_opb_file")
    try:
        with_semantics(R, P, lambda T: _shape_opb(T, prog), _writer_fold.verdict(prog, "opb"),
                       "to_opb_file writes `*` comments and one line per constraint with the stored coefficients, literals, relation and degree", w,
                       rule="WRITER-SEMANTICS", scope=lambda f: (f.function or "").startswith("to_opb_file"))
    except AnalysisError as e:
        if _writer_fold.verdict(prog, "opb")[0] is not True:
            raise
        R.ok("WRITER-SEMANTICS", "to_opb_file: %s" % _writer_fold.verdict(prog, "opb")[1], w.key)
        R.unknown("WRITER-SEMANTICS", "to_opb_file shape", w.key, "shape not recognised (%s); the meaning of the fragment was confirmed by folding" % str(e)[:120])


def sign_branch(body, lit, coeff, cname=None):
    """if lit >= 0: write('<c> x{} '.format(lit)) else: write('<c> ~x{} '.format(-lit))"""
    if len(body) != 1 or not isinstance(body[0], ast.If) or not body[0].orelse:
        return False
    t = body[0]
    if src(t.test) not in ("%s >= 0" % lit, "%s > 0" % lit):
        return False

    def wr(stmts):
        if len(stmts) != 1 or not isinstance(stmts[0], ast.Expr) or not isinstance(stmts[0].value, ast.Call) or method_name(stmts[0].value) != "write":
            return None
        a = stmts[0].value.args[0]
        if isinstance(a, ast.Call) and method_name(a) == "format":
            return const(a.func.value), [src(x) for x in a.args]
        return None
    p, n = wr(t.body), wr(t.orelse)
    if p is None or n is None:
        return False
    if coeff is not None:
        return p == ("%s x{} " % coeff, [lit]) and n == ("%s ~x{} " % coeff, ["-" + lit])
    return p == ("{:+} x{} ", [cname, lit]) and n == ("{:+} ~x{} ", [cname, "-" + lit])


def _shape_latex(R, prog):
    pl = prog.func(LATEX, "_print_latex")
    fpar = pl.params[0]
    stmts = stmts_in(pl.node)
    # literal table
    loop = [s for s in pl.node.body if isinstance(s, ast.For) and isinstance(s.iter, ast.Call) and call_name(s.iter) == "enumerate"]
    ok_tab = False
    if loop:
        lp = loop[0]
        vid, name = [src(x) for x in lp.target.elts]
        txt = [src(s) for s in lp.body]
        posok = any(t.startswith("littext[%s] = " % vid) and "overline" not in t and name in t for t in txt)
        negs = [s for s in ast.walk(lp) if isinstance(s, ast.Assign) and src(s.targets[0]) == "littext[-%s]" % vid]
        negok = len(negs) >= 1 and all("overline" in src(s.value) for s in negs)
        ok_tab = posok and negok
    if ok_tab:
        R.ok("LITERAL-TABLE", "LaTeX: text of +v is its name, text of -v carries \\overline, keyed by the signed identifier", pl.key)
    else:
        R.bad(F("LITERAL-TABLE", pl, "literal table", "littext[v] must be the plain name and littext[-v] the overlined name for every variable v"))
    wc = prog.find_func(LATEX, "_print_latex.<locals>.write_clause")
    wk = prog.find_func(LATEX, "_print_latex.<locals>.write_constraint")
    if wc is None or wk is None:
        raise AnalysisError("_print_latex: row writers not found")
    c = wc.params[0]
    joins = [n for n in ast.walk(wc.node) if isinstance(n, ast.Call) and method_name(n) == "join" and const(n.func.value) == " \\lor "]
    if joins and all(src(j.args[0]) == "(littext[lit] for lit in %s)" % c or src(j.args[0]) == "littext[lit] for lit in %s" % c for j in joins):
        R.ok("LITERAL-TABLE", "a clause row joins littext[lit] for its literals, in order, with \\lor", wc.key)
    else:
        R.bad(F("LITERAL-TABLE", wc, "clause row", "a clause row must show exactly littext[lit] for each literal of the clause, in order"))
    empt = [s for s in stmts_in(wc.node) if isinstance(s, ast.If) and src(s.test) == "len(%s) == 0" % c]
    sq = empt and any(isinstance(x, ast.Call) and method_name(x) == "write" and const(x.args[0]) == "\\square" for y in empt[0].body for x in ast.walk(y))
    top = [s for s in stmts if isinstance(s, ast.If) and src(s.test) == "len(%s) == 0" % fpar]
    tp = top and any(isinstance(x, ast.Call) and method_name(x) == "write" and "\\top" in str(const(x.args[0])) for y in top[0].body for x in ast.walk(y))
    if sq and tp:
        R.ok("EMPTY-DISTINCT", "empty clause -> \\square, empty formula -> \\top", pl.key)
    else:
        R.bad(F("EMPTY-DISTINCT", pl, "empty clause / empty formula", "the empty clause must render as \\square and the empty formula as \\top (two "
                "different symbols)"))
    # constraint row
    txt = [src(s) for s in stmts_in(wk.node)]
    k = wk.params[0]
    okk = "lin = %s[:-2]" % k in txt and "value = %s[-1]" % k in txt and \
        any(t == "op = '\\\\geq' if %s[-2] == '>=' else '='" % k for t in txt) and "ct = str(c) if c > 1 else ''" in txt and "lt = littext[l]" in txt \
        and "text.append(ct + lt)" in txt and "text = ' + '.join(text)" in txt and \
        any("'{} {} {}'.format(text, op, value)" in t for t in txt)
    if okk:
        R.ok("OP-TABLE", "LaTeX constraint row: coefficients above 1 shown, littext[l], '\\geq' for '>=' else '=', then the degree", wk.key)
    else:
        R.bad(F("OP-TABLE", wk, "constraint row", "a constraint row must show each term (coefficient if > 1, literal text), the relation "
                "(\\geq for '>=', = for '==') and the degree"))
    # row loop: exactly one row writer call per path; first=True right after a page split
    rows = [s for s in stmts if isinstance(s, ast.For) and src(s.iter) == "range(len(%s))" % fpar]
    if not rows:
        R.bad(F("ONE-ROW-PER-CLAUSE", pl, "row loop", "no loop over range(len(F))"))
        return
    lp = rows[0]
    i = src(lp.target)

    def paths(body):
        """list of paths; a path = list of simple statements in execution order (ifs expanded)"""
        res = [[]]
        for s in body:
            if isinstance(s, ast.If):
                a = paths(s.body)
                b = paths(s.orelse) if s.orelse else [[]]
                res = [p + q for p in res for q in (a + b)]
            else:
                res = [p + [s] for p in res]
        return res
    bad = None
    npaths = 0
    for path in paths(lp.body):
        npaths += 1
        calls = [x.value for x in path if isinstance(x, ast.Expr) and isinstance(x.value, ast.Call) and call_name(x.value) in ("writef", "write_clause", "write_constraint")]
        if len(calls) != 1 or src(calls[0].args[0]) != "%s[%s]" % (fpar, i):
            bad = "a path through the row loop calls the row writer %d times (row %s must be written exactly once)" % (len(calls), i)
            break
        splits = any(isinstance(x, ast.Expr) and isinstance(x.value, ast.Call) and method_name(x.value) == "write" and
                     "\\begin{align}" in str(const(x.value.args[0])) for x in path)
        first = src(calls[0].args[1]) if len(calls[0].args) > 1 else ""
        if splits and first != "True" and "split_every" not in first:
            bad = ("after a page split (`\\end{align}\\pagebreak \\begin{align}`) the row writer is called with first=%s: the first row of "
                   "the new page then starts with a row separator, i.e. an extra empty row" % first)
            break
        if not splits and first not in ("%s == 0" % i, "0 == %s" % i):
            bad = "without a page split the row writer must be told `first` exactly for row 0 (found %s)" % first
            break
    if bad:
        R.bad(F("ONE-ROW-PER-CLAUSE", pl, "LaTeX row loop", bad, lp))
    else:
        R.ok("ONE-ROW-PER-CLAUSE", "LaTeX: on each of the %d paths of the row loop row i is written once; first=True for row 0 and after a split" % npaths, pl.key)
    sel = [s for s in stmts if isinstance(s, ast.If) and src(s.test) == "isinstance(%s, BaseCNF)" % fpar]
    if sel and "writef = write_clause" in [src(x) for x in sel[0].body] and "writef = write_constraint" in [src(x) for x in sel[0].orelse]:
        R.ok("ONE-ROW-PER-CLAUSE", "row writer: clauses for CNF formulas, constraints otherwise", pl.key)
    else:
        R.bad(F("ONE-ROW-PER-CLAUSE", pl, "row writer selection", "CNF formulas must use write_clause, pseudo-Boolean ones write_constraint"))
    doc = prog.func(LATEX, "to_latex_document")
    calls = [c for c in walk_shallow(doc.node) if isinstance(c, ast.Call) and call_name(c) == "_print_latex"]
    if len(calls) == 1 and src(calls[0].args[0]) == doc.params[0] and any(k.arg == "split_every" for k in calls[0].keywords):
        R.ok("ONE-ROW-PER-CLAUSE", "the document form prints the same rows with a page split every clauses_per_page rows", doc.key)
    else:
        R.bad(F("ONE-ROW-PER-CLAUSE", doc, "to_latex_document rows", "the document must call _print_latex on the formula itself"))


def check_latex(R, prog):
    from ._shared import with_semantics
    from . import _writer_fold
    pl = prog.func(LATEX, "_print_latex")
    sem = _writer_fold.verdict(prog, "latex")
    try:
        with_semantics(R, P, lambda T: _shape_latex(T, prog), sem, "_print_latex shows one row per constraint with its literals, relation and degree", pl,
                       rule="WRITER-SEMANTICS", scope=lambda f: (f.function or "").startswith("_print_latex"))
    except AnalysisError as e:
        if sem[0] is not True:
            raise
        R.ok("WRITER-SEMANTICS", "_print_latex: %s" % sem[1], pl.key)
        R.unknown("WRITER-SEMANTICS", "_print_latex shape", pl.key, "shape not recognised (%s); the meaning of the fragment was confirmed by folding" % str(e)[:120])


def semantic_guess_format(prog):
    """fold guess_output_format for file names / file objects with every relevant extension and every request"""
    import types
    from ..fold import Folder, Raised
    from ..ql import Unknown
    g = prog.func(CNFIO, "guess_output_format")
    cases = []
    for name, ext in (("f.tex", "latex"), ("f.opb", "opb"), ("f.cnf", "dimacs"), ("f", "dimacs"), ("dir.tex/f", "dimacs"), ("a.b.opb", "opb"), ("f.txt", "dimacs")):
        cases.append((name, None, ext))
        cases.append((types.SimpleNamespace(name=name), None, ext))
        for req in ("latex", "dimacs", "opb"):
            cases.append((name, req, req))
    cases.append((types.SimpleNamespace(), None, "dimacs"))          # a stream without a name
    cases += [("f.tex", "pdf", ValueError), ("f", "", ValueError), ("f.opb", "LaTeX", ValueError)]
    for name, req, want in cases:
        f = Folder()
        shown = name if isinstance(name, str) else "<file object %s>" % vars(name)
        try:
            got = f.call_function(g.node, [name, req], {})
        except Raised as r:
            got = ValueError if r.cls == "ValueError" else r.cls
        except Unknown as e:
            return None, "cannot fold guess_output_format(%s, %r): %s" % (shown, req, e)
        if got != want:
            return False, "guess_output_format(%s, %r) gives %r; documented: %s" % (shown, req, got, "ValueError" if want is ValueError else want)
    return True, "%d (file name / object, request) cases folded: explicit request wins, .tex -> latex, .opb -> opb, else dimacs, unknown request -> ValueError" % len(cases)


def check_format_select(R, prog):
    from ._shared import with_semantics
    g = prog.func(CNFIO, "guess_output_format")
    with_semantics(R, P, lambda T: _shape_format_select(T, prog), semantic_guess_format(prog), "guess_output_format", g, rule="FORMAT-SELECT")


def _shape_format_select(R, prog):
    g = prog.func(CNFIO, "guess_output_format")
    req = g.params[1]
    stmts = stmts_in(g.node)
    explicit = [s for s in g.node.body if isinstance(s, ast.If) and isinstance(s.test, ast.Compare) and src(s.test.left) == req and
                isinstance(s.test.ops[0], ast.In)]
    ok1 = explicit and sorted(const(e) for e in explicit[0].test.comparators[0].elts) == ["dimacs", "latex", "opb"] and \
        [src(x) for x in explicit[0].body] == ["return %s" % req]
    if ok1:
        R.ok("FORMAT-SELECT", "an explicit request among latex/dimacs/opb is returned unchanged", g.key)
    else:
        R.bad(F("FORMAT-SELECT", g, "explicit request", "an explicit format request (latex, dimacs, opb) must win over the file name"))
    table = {}
    for s in stmts:
        if isinstance(s, ast.If) and isinstance(s.test, ast.Compare) and src(s.test.left) == "ext":
            cur = s
            while True:
                rets = [x for x in cur.body if isinstance(x, ast.Return)]
                if rets:
                    table[const(cur.test.comparators[0])] = const(rets[0].value)
                if len(cur.orelse) == 1 and isinstance(cur.orelse[0], ast.If):
                    cur = cur.orelse[0]
                else:
                    for x in cur.orelse:
                        if isinstance(x, ast.Return):
                            table[None] = const(x.value)
                    break
    if table == {"tex": "latex", "opb": "opb", None: "dimacs"}:
        R.ok("FORMAT-SELECT", "without a request: .tex -> latex, .opb -> opb, anything else -> dimacs", g.key)
    else:
        R.bad(F("FORMAT-SELECT", g, "extension table", "expected .tex -> latex, .opb -> opb, otherwise dimacs; found %s" % table))
    if any(isinstance(s, ast.Raise) and "ValueError" in src(s) for s in g.node.body):
        R.ok("FORMAT-SELECT", "any other request raises ValueError", g.key)
    else:
        R.bad(F("FORMAT-SELECT", g, "unknown request", "an unknown format request must raise ValueError"))
    # dispatch in to_file
    for mod, cls, want in ((CNFIO, "CNFio", {"latex": "to_latex_document", "opb": "to_opb_file", None: "to_dimacs_file"}),
                           (OPBIO, "OPBio", {"latex": "to_latex_document", None: "to_opb_file"})):
        tf = prog.func(mod, cls + ".to_file")
        got = {}
        for s in tf.node.body:
            if isinstance(s, ast.If) and isinstance(s.test, ast.Compare) and src(s.test.left) == "fileformat":
                cur = s
                while True:
                    calls = [call_name(x.value) for x in cur.body if isinstance(x, ast.Expr) and isinstance(x.value, ast.Call)]
                    got[const(cur.test.comparators[0])] = calls[0] if calls else None
                    if len(cur.orelse) == 1 and isinstance(cur.orelse[0], ast.If):
                        cur = cur.orelse[0]
                    else:
                        calls = [call_name(x.value) for x in cur.orelse if isinstance(x, ast.Expr) and isinstance(x.value, ast.Call)]
                        got[None] = calls[0] if calls else None
                        break
        first = [s for s in tf.node.body if isinstance(s, ast.Assign) and src(s.targets[0]) == "fileformat"]
        ok = got == want and first and src(first[0].value) == "guess_output_format(%s, fileformat)" % tf.params[1]
        if ok:
            R.ok("FORMAT-SELECT", "%s.to_file: %s" % (cls, ", ".join("%s -> %s" % (k or "otherwise", v) for k, v in want.items())), tf.key)
        else:
            R.bad(F("FORMAT-SELECT", tf, "%s.to_file dispatch" % cls, "each selected format must go to its own writer; found %s" % got))
    # the tools only offer formats the selector handles
    for mod in ("cnfgen.clitools.cnfgen", "cnfgen.clitools.pbgen"):
        fi = prog.func(mod, "setup_command_line_parsers")
        for c in [x for x in walk_shallow(fi.node) if isinstance(x, ast.Call) and method_name(x) == "add_argument"]:
            ch = kwarg(c, "choices")
            if ch is not None and any(const(a) == "--output-format" for a in c.args):
                vals = {const(e) for e in ch.elts}
                if vals <= {"latex", "dimacs", "opb"}:
                    R.ok("FORMAT-SELECT", "%s offers formats %s, all handled" % (mod.split(".")[-1], sorted(vals)), fi.key)
                else:
                    R.bad(F("FORMAT-SELECT", fi, "%s --output-format choices" % mod, "offered formats %s are not all handled by guess_output_format" % sorted(vals)))


def check_find_sentinel(R, prog):
    """FIND-SENTINEL: `str.find` answers -1 for `not found`, and `min(.., default=-1)` does the same for an empty list.  Such a value is
    never used as an index or a slice bound unless a test on it (`> 0`, `>= 0`, `!= -1`, `== -1`, a filter comprehension) decides the
    path: `name[:-1]` silently drops the last character (the negation bar of a one-letter variable name ends up over nothing)."""
    from ..cfg import CFG
    n = 0
    for mod in ("cnfgen.utils.latexoutput", "cnfgen.utils.opb"):
        for q, fi in sorted(prog.modules[mod].functions.items()):
            stmts = stmts_in(fi.node)
            cfg = CFG(fi.node)
            maybe_neg = {}
            for st in stmts:
                if isinstance(st, ast.Assign) and len(st.targets) == 1 and isinstance(st.targets[0], ast.Name):
                    v = st.value
                    if isinstance(v, ast.Call) and method_name(v) in ("find", "rfind"):
                        maybe_neg[st.targets[0].id] = st
                    if isinstance(v, ast.Call) and call_name(v) in ("min", "max"):
                        d = [k.value for k in v.keywords if k.arg == "default"]
                        if d and isinstance(d[0], ast.UnaryOp) and isinstance(d[0].op, ast.USub):
                            maybe_neg[st.targets[0].id] = st
            for name, dst in sorted(maybe_neg.items()):
                uses = []
                for st in stmts:
                    for x in ast.walk(st):
                        if isinstance(x, ast.Subscript):
                            sl = x.slice
                            parts = [sl.lower, sl.upper] if isinstance(sl, ast.Slice) else [sl]
                            if any(isinstance(p_, ast.Name) and p_.id == name for p_ in parts if p_ is not None):
                                uses.append((st, x))
                for st, x in uses:
                    n += 1
                    sn = cfg.node_of(st)
                    guarded = False
                    for g in [s_ for s_ in stmts if isinstance(s_, ast.If)]:
                        if any(isinstance(c, ast.Compare) and isinstance(c.left, ast.Name) and c.left.id == name for c in ast.walk(g.test)):
                            gn = cfg.node_of(g)
                            if gn is not None and sn is not None and (cfg.edge_dominates(gn, True, sn) or cfg.edge_dominates(gn, False, sn)):
                                guarded = True
                    if guarded:
                        R.ok("FIND-SENTINEL", "%s: `%s` used in %s under a test on it" % (q, name, src(x)[:40]), fi.key)
                    else:
                        R.bad(F("FIND-SENTINEL", fi, "%s: `%s` may be -1 in %s" % (q, name, src(x)[:40]),
                                "`%s` (line %d) is -1 when nothing is found, and `%s` uses it without a test: a slice with -1 drops the last "
                                "character instead of meaning `not found`" % (name, dst.lineno, src(x)[:50]), x))
    R.count("find/min-default results used as index", n)
    if not n:
        R.ok("FIND-SENTINEL", "no result of str.find / min(default=-k) is used as an index or slice bound in the LaTeX / OPB writers", "cnfgen.utils", nontrivial=False)
