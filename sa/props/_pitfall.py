"""Shared rule: the literal-shifting closure of PitfallFormula (used by C03 SIGN-EQUIV / COPY-RANGE and by
C10 as the justification of the one arithmetic literal site in the families)."""
import ast

from ..loader import AnalysisError
from ..astutil import src, stmts_in, call_name
from ..litarith import Ctx, sym_eval, prove_between
from ..ql import Poly, Unknown
from ..builders import local_env

MOD = "cnfgen.families.pitfall"


def analyse_shift(prog):
    """-> dict(fi, sign_equiv: bool|None, sign_detail, range: bool|None, range_detail, polys)"""
    import re
    parent = prog.func(MOD, "PitfallFormula")
    fi = prog.find_func(MOD, "PitfallFormula.<locals>.shift_edgelit")
    if fi is not None:
        params = fi.params
        if len(params) != 2:
            raise AnalysisError("shift_edgelit is expected to take (copy index, literal)")
        jp, lp = params
        rets = [s.value for s in stmts_in(fi.node) if isinstance(s, ast.Return) and s.value is not None]
        if len(rets) != 1:
            raise AnalysisError("shift_edgelit: expected a single return expression")
        env = dict(local_env(fi.node))
    else:
        # the renaming written in line:  [E(lit) for lit in <clause of the template>]  with E looking at the sign of lit
        cand = []
        for n in ast.walk(parent.node):
            if isinstance(n, ast.ListComp) and len(n.generators) == 1 and isinstance(n.generators[0].target, ast.Name):
                v = n.generators[0].target.id
                if any(isinstance(x, ast.Compare) and v in (src(x.left), src(x.comparators[0])) for x in ast.walk(n.elt)) or \
                        any(isinstance(x, ast.Call) and call_name(x) == "abs" and x.args and src(x.args[0]) == v for x in ast.walk(n.elt)):
                    cand.append((n.elt, v))
        if len(cand) != 1:
            raise AnalysisError("PitfallFormula: the renaming of template literals (closure shift_edgelit or an in-line comprehension) not found")
        rets, lp = [cand[0][0]], cand[0][1]
        env = dict(local_env(parent.node))
        fi = parent
    out = {"fi": fi, "polys": {}}
    polys = {}
    try:
        for s in (1, -1):
            ctx = Ctx(lp, s, env)
            for x in ast.walk(parent.node):
                if isinstance(x, ast.Subscript) and re.fullmatch(r"\w+\[\w+\]\[0\]", src(x)):
                    ctx.env[src(x)] = Poly.sym("X0")        # first identifier of the copy's edge group
            polys[s] = sym_eval(rets[0], ctx)
    except Unknown as e:
        out.update(sign_equiv=None, sign_detail=str(e), range=None, range_detail=str(e))
        return out
    out["polys"] = {s: repr(p) for s, p in polys.items()}
    if (polys[-1] + polys[1]).is_zero():
        out.update(sign_equiv=True, sign_detail="f(-a) = -(f(a)) = -(%s)" % polys[1])
    else:
        out.update(sign_equiv=False,
                   sign_detail="for a literal +a of the template the copy uses %s, for -a it uses %s which is not its "
                               "negation -(%s): negative literals of the template are renamed to another variable"
                               % (polys[1], polys[-1], polys[1]))
    # range: the variable of the image of +-a, a in [1, nx], lies in the id range [X0, X0 + nx - 1] of copy j
    box = {"a": (Poly.const(1), Poly.sym("nx"))}
    res = []
    for s in (1, -1):
        var = polys[s] * s         # variable of the image literal (sign s on the way in)
        ok, why = prove_between(var, box, {"nx": 1, "X0": 1}, Poly.sym("X0"), Poly.sym("X0") + Poly.sym("nx") - 1)
        res.append((s, ok, why))
    if all(ok for _, ok, _ in res):
        out.update(range=True, range_detail="image of +-[1,nx] stays in [X0, X0+nx-1]")
    elif any(ok is False for _, ok, _ in res):
        s, _, why = [r for r in res if r[1] is False][0]
        out.update(range=False, range_detail="image of a %s template literal leaves the id range of its own copy: %s"
                                             % ("positive" if s > 0 else "negative", why))
    else:
        out.update(range=None, range_detail="; ".join(str(w) for _, _, w in res))
    # nx is the variable count of the template built on the same graph as the copies
    same_graph = False
    tgraph = None
    for st in stmts_in(parent.node):
        if isinstance(st, ast.Assign) and isinstance(st.value, ast.Call) and call_name(st.value) == "TseitinFormula" and st.value.args:
            tgraph = src(st.value.args[0])
    for c in [n for st in stmts_in(parent.node) for n in ast.walk(st) if isinstance(n, ast.Call)]:
        if (call_name(c) or "").endswith(".new_graph_edges") and c.args and tgraph and src(c.args[0]) == tgraph:
            same_graph = True
    out["same_graph"] = same_graph
    return out
