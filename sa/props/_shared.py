"""Rules shared by several properties."""
import ast

from ..loader import AnalysisError, walk_shallow
from ..astutil import src, call_name, method_name
from ..report import Finding

MUTATORS = ("append", "extend", "insert", "pop", "remove", "sort", "add", "update", "setdefault", "clear", "popitem", "discard", "reverse")
MEMO = ("lru_cache", "cache", "functools.lru_cache", "functools.cache", "cached_property", "functools.cached_property")


def check_no_shared_state(R, prog, P, prefixes, floor_functions):
    """NO-SHARED-STATE: in the modules that build formulas / graphs nothing survives from one construction to the next: no function
    writes a module-level container or rebinds a module-level name (`global`), no function or method is memoised (lru_cache / cache),
    no mutable default argument is changed in place.  A table filled by the first object and reused by the second carries the first
    object's identifiers / rows into the second."""
    nfun = 0
    found = False
    for mname, m in sorted(prog.modules.items()):
        if not any(mname == p or mname.startswith(p + ".") for p in prefixes):
            continue
        tree = m.tree if hasattr(m, "tree") else None
        containers = {}
        body = tree.body if tree is not None else []
        for s in body:
            if isinstance(s, ast.Assign) and len(s.targets) == 1 and isinstance(s.targets[0], ast.Name):
                v = s.value
                if isinstance(v, (ast.Dict, ast.List, ast.Set, ast.DictComp, ast.ListComp, ast.SetComp)) or \
                        (isinstance(v, ast.Call) and (call_name(v) or "").split(".")[-1] in ("dict", "list", "set", "defaultdict", "OrderedDict", "Counter", "deque")):
                    containers[s.targets[0].id] = s
        for q, fi in sorted(m.functions.items()):
            nfun += 1
            # memoisation
            for d in getattr(fi.node, "decorator_list", []):
                dn = call_name(d) if isinstance(d, ast.Call) else src(d)
                if (dn or "") in MEMO:
                    found = True
                    R.bad(Finding(P, "NO-SHARED-STATE", fi, "%s is memoised" % q,
                                  "`@%s`: every caller gets the same object back; these functions return mutable formulas / graphs / index "
                                  "tables, so a change made through one result shows in all later ones" % src(d), node=d))
            local = set(fi.params)
            globs = set()
            for n in walk_shallow(fi.node):
                if isinstance(n, ast.Global):
                    globs |= set(n.names)
                if isinstance(n, ast.Name) and isinstance(n.ctx, ast.Store):
                    local.add(n.id)
            local -= globs
            for n in walk_shallow(fi.node):
                tgt = None
                if isinstance(n, ast.Call) and isinstance(n.func, ast.Attribute) and n.func.attr in MUTATORS:
                    b = n.func.value
                    while isinstance(b, ast.Subscript):
                        b = b.value
                    if isinstance(b, ast.Name):
                        tgt = (b.id, n)
                elif isinstance(n, ast.Subscript) and isinstance(n.ctx, (ast.Store, ast.Del)):
                    b = n.value
                    while isinstance(b, ast.Subscript):
                        b = b.value
                    if isinstance(b, ast.Name):
                        tgt = (b.id, n)
                elif isinstance(n, ast.Name) and isinstance(n.ctx, ast.Store) and n.id in globs:
                    tgt = (n.id, n)
                if tgt and tgt[0] not in local and (tgt[0] in containers or tgt[0] in globs):
                    found = True
                    R.bad(Finding(P, "NO-SHARED-STATE", fi, "%s writes module-level `%s`" % (q, tgt[0]),
                                  "`%s` changes the module-level object `%s`: what one call stores there is seen by every later formula / graph "
                                  "built in the same process (stale identifiers, rows or tables)" % (src(tgt[1])[:60], tgt[0]), node=tgt[1]))
            # mutable default changed in place
            a = fi.node.args
            defaults = list(zip([x.arg for x in (a.posonlyargs + a.args)][-len(a.defaults):] if a.defaults else [], a.defaults)) + \
                [(k.arg, d) for k, d in zip(a.kwonlyargs, a.kw_defaults) if d is not None]
            for name, d in defaults:
                if isinstance(d, (ast.List, ast.Dict, ast.Set)):
                    rebound = any(isinstance(x, ast.Name) and x.id == name and isinstance(x.ctx, ast.Store) for x in walk_shallow(fi.node))
                    for n in walk_shallow(fi.node):
                        hit = (isinstance(n, ast.Call) and isinstance(n.func, ast.Attribute) and n.func.attr in MUTATORS
                               and isinstance(n.func.value, ast.Name) and n.func.value.id == name) or \
                              (isinstance(n, ast.Subscript) and isinstance(n.ctx, ast.Store) and isinstance(n.value, ast.Name) and n.value.id == name)
                        if hit and not rebound:
                            found = True
                            R.bad(Finding(P, "NO-SHARED-STATE", fi, "%s changes its mutable default `%s`" % (q, name),
                                          "`%s` mutates the default value of `%s`, which is one object shared by all calls" % (src(n)[:60], name), node=n))
    if nfun < floor_functions:
        raise AnalysisError("NO-SHARED-STATE examined %d functions (< %d)" % (nfun, floor_functions))
    if not found:
        R.ok("NO-SHARED-STATE", "%d functions of %s: no module-level container written, nothing memoised, no mutable default changed"
             % (nfun, ", ".join(prefixes)), prefixes[0])
    return nfun


def truth_tested_names(fnode):
    """{name: node} for bare names used as a truth value (if / while / conditional expression / assert, through and / or / not)"""
    out = {}

    def operands(t):
        if isinstance(t, ast.BoolOp):
            for v in t.values:
                yield from operands(v)
        elif isinstance(t, ast.UnaryOp) and isinstance(t.op, ast.Not):
            yield from operands(t.operand)
        else:
            yield t
    for n in walk_shallow(fnode):
        tests = []
        if isinstance(n, (ast.If, ast.While, ast.IfExp, ast.Assert)):
            tests.append(n.test)
        elif isinstance(n, ast.comprehension):
            tests += n.ifs
        for t in tests:
            for o in operands(t):
                if isinstance(o, ast.Name):
                    out.setdefault(o.id, o)
    return out


def with_semantics(R, P, shape_fn, verdict, what, fi, rule="SEMANTICS", scope=None):
    """run a shape rule on a scratch result; ``verdict`` = (True | False | None, detail) from a bounded semantic comparison (folding of
    the pure fragment).  True: what the shape rule could not recognise is an undecided instance, not a violation.  False: the semantic
    mismatch is the finding (and the shape findings stay).  None: the shape rule decides alone."""
    from ..report import Result
    T = Result(P, "")
    shape_fn(T)
    ok, detail = verdict
    for o in T.obligations:
        if o["status"] == "discharged":
            R.ok(o["rule"], o["instance"], o["where"], nontrivial=o["nontrivial"])
    for u in T.unproven:
        R.unknown(u["rule"], u["instance"], u["where"], u["why"])
    R.floors.extend(T.floors)
    for t in T.trusted:
        R.trust(t)
    if ok is True:
        R.ok(rule, "%s: %s" % (what, detail), fi.key if fi is not None else "")
        for f in T.findings:
            if scope is not None and not scope(f):
                R.bad(f)                          # a finding about another function than the one that was folded
                continue
            R.unknown(f.rule, f.construct, "%s:%s %s" % (f.file, f.line, f.function),
                      "shape not recognised (%s); the meaning of the fragment was confirmed by folding" % f.message[:120])
    else:
        if ok is False:
            R.bad(Finding(P, rule, fi, what, detail))
        else:
            R.unknown(rule, what, fi.key if fi is not None else "", detail)
        for f in T.findings:
            R.bad(f)


def merge_filtered(R, T, confirmed):
    """copy the outcome of the scratch result T into R; a finding for which ``confirmed(finding)`` gives a detail text (the meaning of
    the function it is about was confirmed by folding) is recorded as an undecided shape instead of being reported"""
    for o in T.obligations:
        if o["status"] == "discharged":
            R.ok(o["rule"], o["instance"], o["where"], nontrivial=o["nontrivial"])
    for u in T.unproven:
        R.unknown(u["rule"], u["instance"], u["where"], u["why"])
    R.floors.extend(T.floors)
    for t in T.trusted:
        R.trust(t)
    for k, v in getattr(T, "analysed", {}).items() if isinstance(getattr(T, "analysed", None), dict) else []:
        R.analysed[k] = v
    n = 0
    for f in T.findings:
        why = confirmed(f)
        if why:
            n += 1
            R.unknown(f.rule, f.construct, "%s:%s %s" % (f.file, f.line, f.function),
                      "shape not recognised (%s); the meaning of the fragment was confirmed by folding: %s" % (f.message[:100], str(why)[:120]))
        else:
            R.bad(f)
    return n


def group_semantics(R, prog, P):
    """GROUP-SEMANTICS: every kind of variable group, created by folding VariablesManager.new_* on small instances through the object
    model (sa/objfold.py, sa/props/_groups_fold.py), has the documented identifiers, index order, inverse maps, labels and pattern
    selection.  -> confirmed(finding) for merge_filtered"""
    from . import _groups_fold as gf
    ci = prog.cls(gf.MOD, "VariablesManager")
    for kind in gf.KINDS:
        v = gf.verdict(prog, kind)
        fi = ci.methods.get("new_" + kind)
        if v[0] is True:
            R.ok("GROUP-SEMANTICS", "new_%s: %s" % (kind, v[1]), fi.key if fi else "")
        elif v[0] is False:
            from ..report import Finding
            R.bad(Finding(P, "GROUP-SEMANTICS", fi, "new_%s groups behave as documented" % kind, v[1]))
        else:
            R.unknown("GROUP-SEMANTICS", "new_%s" % kind, fi.key if fi else "", v[1])

    def confirmed(f):
        if (f.module or "") != gf.MOD or not f.function:
            return None
        v = gf.verdict_for(prog, f.function)
        return v[1] if v[0] is True else None
    return confirmed
