"""Rules shared by several properties."""
import ast

from ..loader import AnalysisError, walk_shallow
from ..astutil import src, call_name, method_name
from ..report import Finding

MUTATORS = ("append", "extend", "insert", "pop", "remove", "sort", "add", "update", "setdefault", "clear", "popitem", "discard", "reverse")
MEMO = ("lru_cache", "cache", "functools.lru_cache", "functools.cache", "cached_property", "functools.cached_property")


def check_no_shared_state(R, prog, P, prefixes, floor_functions):
    """NO-SHARED-STATE: in the modules that build formulas / graphs nothing survives from one construction to the next: no function
    writes a module-level container or rebinds a module-level name (`global`), no function or method is memoised (lru_cache / cache),
    no mutable default argument is changed in place.  A table filled by the first object and reused by the second carries the first
    object's identifiers / rows into the second."""
    nfun = 0
    found = False
    for mname, m in sorted(prog.modules.items()):
        if not any(mname == p or mname.startswith(p + ".") for p in prefixes):
            continue
        tree = m.tree if hasattr(m, "tree") else None
        containers = {}
        body = tree.body if tree is not None else []
        for s in body:
            if isinstance(s, ast.Assign) and len(s.targets) == 1 and isinstance(s.targets[0], ast.Name):
                v = s.value
                if isinstance(v, (ast.Dict, ast.List, ast.Set, ast.DictComp, ast.ListComp, ast.SetComp)) or \
                        (isinstance(v, ast.Call) and (call_name(v) or "").split(".")[-1] in ("dict", "list", "set", "defaultdict", "OrderedDict", "Counter", "deque")):
                    containers[s.targets[0].id] = s
        for q, fi in sorted(m.functions.items()):
            nfun += 1
            # memoisation
            for d in getattr(fi.node, "decorator_list", []):
                dn = call_name(d) if isinstance(d, ast.Call) else src(d)
                if (dn or "") in MEMO:
                    found = True
                    R.bad(Finding(P, "NO-SHARED-STATE", fi, "%s is memoised" % q,
                                  "`@%s`: every caller gets the same object back; these functions return mutable formulas / graphs / index "
                                  "tables, so a change made through one result shows in all later ones" % src(d), node=d))
            local = set(fi.params)
            globs = set()
            for n in walk_shallow(fi.node):
                if isinstance(n, ast.Global):
                    globs |= set(n.names)
                if isinstance(n, ast.Name) and isinstance(n.ctx, ast.Store):
                    local.add(n.id)
            local -= globs
            for n in walk_shallow(fi.node):
                tgt = None
                if isinstance(n, ast.Call) and isinstance(n.func, ast.Attribute) and n.func.attr in MUTATORS:
                    b = n.func.value
                    while isinstance(b, ast.Subscript):
                        b = b.value
                    if isinstance(b, ast.Name):
                        tgt = (b.id, n)
                elif isinstance(n, ast.Subscript) and isinstance(n.ctx, (ast.Store, ast.Del)):
                    b = n.value
                    while isinstance(b, ast.Subscript):
                        b = b.value
                    if isinstance(b, ast.Name):
                        tgt = (b.id, n)
                elif isinstance(n, ast.Name) and isinstance(n.ctx, ast.Store) and n.id in globs:
                    tgt = (n.id, n)
                if tgt and tgt[0] not in local and (tgt[0] in containers or tgt[0] in globs):
                    found = True
                    R.bad(Finding(P, "NO-SHARED-STATE", fi, "%s writes module-level `%s`" % (q, tgt[0]),
                                  "`%s` changes the module-level object `%s`: what one call stores there is seen by every later formula / graph "
                                  "built in the same process (stale identifiers, rows or tables)" % (src(tgt[1])[:60], tgt[0]), node=tgt[1]))
            # mutable default changed in place
            a = fi.node.args
            defaults = list(zip([x.arg for x in (a.posonlyargs + a.args)][-len(a.defaults):] if a.defaults else [], a.defaults)) + \
                [(k.arg, d) for k, d in zip(a.kwonlyargs, a.kw_defaults) if d is not None]
            for name, d in defaults:
                if isinstance(d, (ast.List, ast.Dict, ast.Set)):
                    rebound = any(isinstance(x, ast.Name) and x.id == name and isinstance(x.ctx, ast.Store) for x in walk_shallow(fi.node))
                    for n in walk_shallow(fi.node):
                        hit = (isinstance(n, ast.Call) and isinstance(n.func, ast.Attribute) and n.func.attr in MUTATORS
                               and isinstance(n.func.value, ast.Name) and n.func.value.id == name) or \
                              (isinstance(n, ast.Subscript) and isinstance(n.ctx, ast.Store) and isinstance(n.value, ast.Name) and n.value.id == name)
                        if hit and not rebound:
                            found = True
                            R.bad(Finding(P, "NO-SHARED-STATE", fi, "%s changes its mutable default `%s`" % (q, name),
                                          "`%s` mutates the default value of `%s`, which is one object shared by all calls" % (src(n)[:60], name), node=n))
    if nfun < floor_functions:
        raise AnalysisError("NO-SHARED-STATE examined %d functions (< %d)" % (nfun, floor_functions))
    if not found:
        R.ok("NO-SHARED-STATE", "%d functions of %s: no module-level container written, nothing memoised, no mutable default changed"
             % (nfun, ", ".join(prefixes)), prefixes[0])
    return nfun


def truth_tested_names(fnode):
    """{name: node} for bare names used as a truth value (if / while / conditional expression / assert, through and / or / not)"""
    out = {}

    def operands(t):
        if isinstance(t, ast.BoolOp):
            for v in t.values:
                yield from operands(v)
        elif isinstance(t, ast.UnaryOp) and isinstance(t.op, ast.Not):
            yield from operands(t.operand)
        else:
            yield t
    for n in walk_shallow(fnode):
        tests = []
        if isinstance(n, (ast.If, ast.While, ast.IfExp, ast.Assert)):
            tests.append(n.test)
        elif isinstance(n, ast.comprehension):
            tests += n.ifs
        for t in tests:
            for o in operands(t):
                if isinstance(o, ast.Name):
                    out.setdefault(o.id, o)
    return out


def with_semantics(R, P, shape_fn, verdict, what, fi, rule="SEMANTICS", scope=None):
    """run a shape rule on a scratch result; ``verdict`` = (True | False | None, detail) from a bounded semantic comparison (folding of
    the pure fragment).  True: what the shape rule could not recognise is an undecided instance, not a violation.  False: the semantic
    mismatch is the finding (and the shape findings stay).  None: the shape rule decides alone."""
    from ..report import Result
    from ..loader import AnalysisError
    T = Result(P, "")
    ok, detail = verdict
    from .. import report as _report
    n0 = len(_report.DEFERRED)
    try:
        try:
            shape_fn(T)
        finally:
            if ok is not None:
                # floors of the shape rule that the restructured code no longer reaches: the folding decides
                for msg in _report.DEFERRED[n0:]:
                    T.unknown(rule, "%s (instances)" % what, fi.key if fi is not None else "", "shape rule below its floor (%s); decided by folding" % msg[:140])
                del _report.DEFERRED[n0:]
    except AnalysisError as e:
        # the shape rule lost its anchor (restructured code): the bounded semantic comparison decides, when it could be made
        if ok is None:
            raise
        T.unknown(rule, "%s (shape)" % what, fi.key if fi is not None else "", "shape analysis not applicable to the restructured code (%s); "
                  "decided by folding" % str(e)[:160])
    for o in T.obligations:
        if o["status"] == "discharged":
            R.ok(o["rule"], o["instance"], o["where"], nontrivial=o["nontrivial"])
    for u in T.unproven:
        R.unknown(u["rule"], u["instance"], u["where"], u["why"])
    R.floors.extend(T.floors)
    for t in T.trusted:
        R.trust(t)
    if ok is True:
        R.ok(rule, "%s: %s" % (what, detail), fi.key if fi is not None else "")
        for f in T.findings:
            if scope is not None and not scope(f):
                R.bad(f)                          # a finding about another function than the one that was folded
                continue
            R.unknown(f.rule, f.construct, "%s:%s %s" % (f.file, f.line, f.function),
                      "shape not recognised (%s); the meaning of the fragment was confirmed by folding" % f.message[:120])
    else:
        if ok is False:
            R.bad(Finding(P, rule, fi, what, detail))
        else:
            R.unknown(rule, what, fi.key if fi is not None else "", detail)
        for f in T.findings:
            R.bad(f)


def merge_filtered(R, T, confirmed):
    """copy the outcome of the scratch result T into R; a finding for which ``confirmed(finding)`` gives a detail text (the meaning of
    the function it is about was confirmed by folding) is recorded as an undecided shape instead of being reported"""
    for o in T.obligations:
        if o["status"] == "discharged":
            R.ok(o["rule"], o["instance"], o["where"], nontrivial=o["nontrivial"])
    for u in T.unproven:
        R.unknown(u["rule"], u["instance"], u["where"], u["why"])
    R.floors.extend(T.floors)
    for t in T.trusted:
        R.trust(t)
    for k, v in getattr(T, "analysed", {}).items() if isinstance(getattr(T, "analysed", None), dict) else []:
        R.analysed[k] = v
    n = 0
    for f in T.findings:
        why = confirmed(f)
        if why:
            n += 1
            R.unknown(f.rule, f.construct, "%s:%s %s" % (f.file, f.line, f.function),
                      "shape not recognised (%s); the meaning of the fragment was confirmed by folding: %s" % (f.message[:100], str(why)[:120]))
        else:
            R.bad(f)
    return n


def group_semantics(R, prog, P):
    """GROUP-SEMANTICS: every kind of variable group, created by folding VariablesManager.new_* on small instances through the object
    model (sa/objfold.py, sa/props/_groups_fold.py), has the documented identifiers, index order, inverse maps, labels and pattern
    selection.  -> confirmed(finding) for merge_filtered"""
    from . import _groups_fold as gf
    ci = prog.cls(gf.MOD, "VariablesManager")
    for kind in gf.KINDS:
        v = gf.verdict(prog, kind)
        fi = ci.methods.get("new_" + kind)
        if v[0] is True:
            R.ok("GROUP-SEMANTICS", "new_%s: %s" % (kind, v[1]), fi.key if fi else "")
        elif v[0] is False:
            from ..report import Finding
            R.bad(Finding(P, "GROUP-SEMANTICS", fi, "new_%s groups behave as documented" % kind, v[1]))
        else:
            R.unknown("GROUP-SEMANTICS", "new_%s" % kind, fi.key if fi else "", v[1])

    def confirmed(f):
        if (f.module or "") != gf.MOD or not f.function:
            return None
        v = gf.verdict_for(prog, f.function)
        return v[1] if v[0] is True else None
    return confirmed


ONE_SHOT_CALLS = {"product", "itertools.product", "combinations", "itertools.combinations", "permutations", "itertools.permutations",
                  "combinations_with_replacement", "itertools.combinations_with_replacement", "zip", "map", "filter", "iter", "enumerate",
                  "reversed", "chain", "itertools.chain", "islice", "itertools.islice", "groupby", "itertools.groupby", "accumulate",
                  "itertools.accumulate", "zip_longest", "itertools.zip_longest", "starmap", "itertools.starmap"}
CONSUMERS = {"list", "tuple", "sorted", "set", "frozenset", "sum", "any", "all", "max", "min", "dict", "enumerate", "zip", "map", "filter"}
NEEDS_SEQUENCE = {"random.sample", "sample", "len", "random.choice", "random.shuffle", "reversed"}


def check_iterator_reuse(R, prog, P, prefixes, floor_functions=10):
    """ITERATOR-REUSE: a local bound once to a one-shot iterator (itertools.product / combinations / zip / map / a generator expression / a
    call of a generator function) is consumed at most once on every path: a second loop over it, a loop over it inside another loop
    that is entered after its creation, or random.sample / len of it sees nothing (or fails), so the constraints of the second use are
    silently missing.  Uses in the two arms of one `if` are alternatives."""
    import ast as _ast
    from ..astutil import call_name, src, stmts_in
    from ..report import Finding
    nfun = 0
    nfound = 0
    for mname, m in sorted(prog.modules.items()):
        if not any(mname == p or mname.startswith(p + ".") for p in prefixes):
            continue
        gens = {n.name for n in _ast.walk(m.tree) if isinstance(n, _ast.FunctionDef) and
                any(isinstance(x, (_ast.Yield, _ast.YieldFrom)) for x in _ast.walk(n))}
        for q, fi in sorted(m.functions.items()):
            nfun += 1
            fn = fi.node
            parent = {}
            for n in _ast.walk(fn):
                for c in _ast.iter_child_nodes(n):
                    parent[c] = n
            # single-assignment names bound to a one-shot iterator at statement level of this function (not nested defs)
            assigns = {}
            stores = {}
            for n in _ast.walk(fn):
                if isinstance(n, _ast.Name) and isinstance(n.ctx, _ast.Store):
                    stores[n.id] = stores.get(n.id, 0) + 1
            for s in stmts_in(fn):
                if isinstance(s, _ast.Assign) and len(s.targets) == 1 and isinstance(s.targets[0], _ast.Name):
                    v = s.value
                    one = isinstance(v, _ast.GeneratorExp) or (isinstance(v, _ast.Call) and ((call_name(v) or "") in ONE_SHOT_CALLS or
                                                                                            (isinstance(v.func, _ast.Name) and v.func.id in gens)))
                    if one and stores.get(s.targets[0].id) == 1:
                        assigns[s.targets[0].id] = s
            # a sequence is required: random.sample / len / random.choice / subscript of a one-shot iterator fails (TypeError) when reached
            local_gens = gens | {n.name for n in _ast.walk(fn) if isinstance(n, _ast.FunctionDef) and n is not fn and
                                 any(isinstance(x, (_ast.Yield, _ast.YieldFrom)) for x in _ast.walk(n))}

            def one_shot_expr(e):
                if isinstance(e, _ast.GeneratorExp):
                    return True
                if isinstance(e, _ast.Name) and e.id in assigns:
                    return True
                if isinstance(e, _ast.Call):
                    cn = call_name(e) or ""
                    if cn in ONE_SHOT_CALLS and cn not in ("reversed",):
                        return True
                    if isinstance(e.func, _ast.Name) and e.func.id in local_gens:
                        return True
                return False
            for n in _ast.walk(fn):
                if isinstance(n, _ast.Call) and (call_name(n) or "") in NEEDS_SEQUENCE and n.args and one_shot_expr(n.args[0]):
                    nfound += 1
                    R.bad(Finding(P, "ITERATOR-REUSE", fi, "%s hands a one-shot iterator to %s" % (q, call_name(n)),
                                  "`%s`: %s needs a sequence (it asks for the length / indexes); a generator or itertools object makes it raise "
                                  "TypeError when this line is reached" % (src(n)[:70], call_name(n)), node=n))
                if isinstance(n, _ast.Subscript) and isinstance(n.ctx, _ast.Load) and one_shot_expr(n.value):
                    nfound += 1
                    R.bad(Finding(P, "ITERATOR-REUSE", fi, "%s indexes a one-shot iterator" % q,
                                  "`%s`: an iterator cannot be indexed" % src(n)[:70], node=n))
            for name, a in assigns.items():
                uses = []
                for n in _ast.walk(fn):
                    if isinstance(n, _ast.Name) and n.id == name and isinstance(n.ctx, _ast.Load):
                        p_ = parent.get(n)
                        consuming = False
                        if isinstance(p_, (_ast.For, _ast.comprehension)) and p_.iter is n:
                            consuming = True
                        elif isinstance(p_, _ast.YieldFrom):
                            consuming = True
                        elif isinstance(p_, _ast.Call) and n in p_.args and ((call_name(p_) or "") in CONSUMERS or (call_name(p_) or "").split(".")[-1] in
                                                                             ("extend", "update", "add_clauses_from", "join")):
                            consuming = True
                        elif isinstance(p_, _ast.Starred):
                            consuming = True
                        if consuming:
                            uses.append(n)
                if not uses:
                    continue

                def chain(n):
                    out = []
                    while n in parent:
                        out.append(n)
                        n = parent[n]
                    return out

                def in_loop_after_creation(u):
                    """is the use inside a loop (or comprehension generator other than the first) that does not contain the creation"""
                    for anc in chain(u)[1:]:
                        if isinstance(anc, (_ast.For, _ast.While)) and not any(x is a for x in _ast.walk(anc)):
                            if isinstance(anc, _ast.For) and any(x is u for x in _ast.walk(anc.iter)):
                                continue          # part of the loop's own iterable: evaluated once
                            return anc
                        if isinstance(anc, (_ast.ListComp, _ast.SetComp, _ast.DictComp, _ast.GeneratorExp)):
                            gens_ = anc.generators
                            for gi, g in enumerate(gens_):
                                if any(x is u for x in _ast.walk(g.iter)) and gi > 0:
                                    return anc
                            if any(x is u for x in _ast.walk(anc.elt if hasattr(anc, "elt") else anc.value)) or \
                                    any(x is u for g in gens_ for c_ in g.ifs for x in _ast.walk(c_)):
                                return anc            # consumed once per element of the comprehension
                    return None

                def exclusive(u1, u2):
                    c1, c2 = chain(u1), chain(u2)
                    for x in c1:
                        if isinstance(x, _ast.If) and x in c2:
                            in_body1 = any(u1 is y for b in x.body for y in _ast.walk(b))
                            in_body2 = any(u2 is y for b in x.body for y in _ast.walk(b))
                            in_else1 = any(u1 is y for b in x.orelse for y in _ast.walk(b))
                            in_else2 = any(u2 is y for b in x.orelse for y in _ast.walk(b))
                            if (in_body1 and in_else2) or (in_else1 and in_body2):
                                return True
                    return False
                bad = None
                for u in uses:
                    lp = in_loop_after_creation(u)
                    if lp is not None:
                        bad = (u, "it is consumed inside a loop entered after its creation (line %d): from the second round on it is empty" % lp.lineno)
                        break
                if bad is None:
                    for i in range(len(uses)):
                        for j in range(i + 1, len(uses)):
                            if not exclusive(uses[i], uses[j]):
                                bad = (uses[j], "it is consumed at line %d and again at line %d: the second use sees nothing" % (uses[i].lineno, uses[j].lineno))
                                break
                        if bad:
                            break
                if bad:
                    nfound += 1
                    R.bad(Finding(P, "ITERATOR-REUSE", fi, "%s consumes the one-shot iterator `%s` more than once" % (q, name),
                                  "`%s = %s` is a one-shot iterator; %s (materialise it with list(..) or build it where it is used)" % (name, src(a.value)[:60], bad[1]),
                                  node=bad[0]))
    if not nfound:
        R.ok("ITERATOR-REUSE", "no local one-shot iterator is consumed twice (%d functions of %s examined)" % (nfun, ", ".join(prefixes)), "cnfgen")
    if nfun < floor_functions:
        from ..loader import AnalysisError
        raise AnalysisError("ITERATOR-REUSE examined %d functions (< %d)" % (nfun, floor_functions))
