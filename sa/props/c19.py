"""C19 -- transformations leave their inputs untouched and record provenance."""
import ast

from ..loader import AnalysisError, walk_shallow
from ..cfg import CFG
from ..astutil import src, call_name, method_name, const, is_const, stmts_in, target_names
from ..report import Result, Finding

P = "C19"
SUB = "cnfgen.transformations.substitutions"
SHU = "cnfgen.transformations.shuffle"

LIST_MUT = {"append", "extend", "insert", "remove", "pop", "clear", "sort", "reverse"}
COLL_MUT = {"add", "discard", "update", "setdefault", "popitem"}
REPO_MUT = {"add_clause", "add_clauses_from", "add_constraint", "add_constraints_from", "add_linear", "add_parity",
            "cardinality_geq", "cardinality_leq", "cardinality_eq", "cardinality_neq", "add_loose_majority",
            "add_loose_minority", "add_strict_majority", "add_strict_minority", "update_variable_number",
            "new_variable", "new_block", "new_combinations", "new_combinations_with_replacement", "new_permutations",
            "new_words", "new_bipartite_edges", "new_graph_edges", "new_digraph_edges", "new_mapping",
            "new_sparse_mapping", "new_binary_mapping", "force_complete_mapping", "force_functional_mapping",
            "force_injective_mapping", "force_surjective_mapping", "force_nondecreasing_mapping",
            "add_edge", "add_edges_from", "remove_edge", "update_vertex_number"}
# functions whose documented contract is to modify the object they are given (one line of reason each)
INPLACE_BY_CONTRACT = {
    ("cnfgen.transformations.substitutions", "add_description"): "receives the formula under construction, adds its provenance entry",
    ("cnfgen.graphs", "add_random_missing_edges"): "documented: 'Add m random missing edges to G' (graph option addedges)",
    ("cnfgen.graphs", "split_random_edges"): "documented: splits edges of G in place (graph option splitedges)",
}
INPLACE_FUNCS = {"random.shuffle", "shuffle", "heapq.heapify", "heapify", "heapq.heappush", "heapq.heappop", "bisect.insort", "insort",
                 "networkx.set_node_attributes", "networkx.set_edge_attributes", "networkx.add_path", "networkx.add_cycle", "networkx.add_star"}
FRESH_CALLS = {"list", "sorted", "tuple", "set", "dict", "copy", "deepcopy", "copy.copy", "copy.deepcopy", "frozenset"}
ALIAS_CALLS = {"normalize"}      # X.normalize(p, ..) returns p itself when it already has the right type


def F(rule, fi, construct, msg, node=None):
    return Finding(P, rule, fi, construct, msg, node=node)


def run(prog, tier):
    R = Result(P, "ARG-IMMUTABLE: in every function of the families, the transformations, the constraint builders, the serialisers and the "
               "graph constructors no parameter (nor an alias of it: plain rebinding, X.normalize(p)) is the receiver of an in-place "
               "operation (list/set/dict mutators, item/slice assignment, augmented assignment, del, or a mutator method of the "
               "repository's formula / graph classes) unless a dominating rebinding made it a private copy; mutable default arguments "
               "are reported.  FRESH-RESULT: each transformation builds its result with a constructor call, takes the header as "
               "copy(F.header) and returns that object.  PROVENANCE-ENTRY: exactly one numbered 'transformation <i>' entry is added on "
               "every path, <i> comes from the first-free loop and is not rebound in between, the two branches of a variant flag write "
               "different texts.  COPY-ON-INSERT: clause / constraint storage receives fresh lists and hands out copies.")
    R.trust("list(x), sorted(x), x[:], comprehensions and copy(x) create new top-level objects; x.sort()/append/.. , x[i] = .., x += [..] "
            "(for lists) and del x[i] modify x in place")
    check_arg_immutable(R, prog)
    check_fresh_result(R, prog)
    check_provenance_entry(R, prog)
    check_copy_on_insert(R, prog)
    from ._shared import check_no_shared_state
    check_no_shared_state(R, prog, P, ['cnfgen.families', 'cnfgen.transformations', 'cnfgen.graphs'], 150)
    from ._families import borrow as _borrow
    from . import c17 as _c17
    _h = [h for h in _c17.collect_helpers(prog) if h[2].name == "transform_cnf"]
    _borrow(R, P, "CLI", prog, _c17.check_helper_schema, _h, floor=10)
    return R


# ---------------------------------------------------------------------------- ARG-IMMUTABLE
def scope_functions(prog):
    for mname, m in sorted(prog.modules.items()):
        if not (mname.startswith("cnfgen.families.") or mname.startswith("cnfgen.transformations.") or mname.startswith("cnfgen.utils.")
                or mname in ("cnfgen.graphs", "cnfgen.formula.linear", "cnfgen.formula.baseopb", "cnfgen.formula.variables",
                             "cnfgen.formula.cnfio", "cnfgen.formula.opbio", "cnfgen.formula.basecnf")):
            continue
        for q, fi in sorted(m.functions.items()):
            yield fi


def check_arg_immutable(R, prog):
    nfun = nparams = 0
    for fi in scope_functions(prog):
        okey = getattr(prog, "moved", {}).get((fi.module.name, fi.qualname), (fi.module.name, fi.qualname))     # (a function moved to another module keeps its contract)
        if okey in INPLACE_BY_CONTRACT:
            R.ok("ARG-IMMUTABLE", "%s modifies its argument by contract: %s" % (fi.qualname, INPLACE_BY_CONTRACT[okey]),
                 fi.key, nontrivial=False)
            continue
        params = [p for p in fi.params if p not in ("self", "cls")]
        if fi.parent is not None:
            continue      # closures are analysed through their own parameters only when public; gadget closures get fresh ints
        if not params:
            continue
        nfun += 1
        # mutable defaults
        a = fi.node.args
        defaults = list(zip([x.arg for x in (a.posonlyargs + a.args)][len(a.posonlyargs + a.args) - len(a.defaults):], a.defaults)) + \
            [(k.arg, d) for k, d in zip(a.kwonlyargs, a.kw_defaults) if d is not None]
        for pn, d in defaults:
            if isinstance(d, (ast.List, ast.Dict, ast.Set)) or (isinstance(d, ast.Call) and call_name(d) in ("list", "dict", "set")):
                muts = find_mutations(fi, pn)
                if muts:
                    R.bad(F("ARG-IMMUTABLE", fi, "%s mutable default `%s`" % (fi.qualname, pn),
                            "parameter %s has a mutable default that the function modifies in place (%s): the default is shared between "
                            "calls" % (pn, src(muts[0][0])[:50]), muts[0][0]))
        for pn in params:
            nparams += 1
            muts = find_mutations(fi, pn)
            if muts:
                st, how = muts[0]
                R.bad(F("ARG-IMMUTABLE", fi, "%s modifies argument `%s`" % (fi.qualname, pn),
                        "the caller's object passed as `%s` is modified in place by `%s` (%s); work on a copy" % (pn, src(st)[:60], how), st))
            else:
                R.ok("ARG-IMMUTABLE", "%s leaves `%s` untouched" % (fi.qualname, pn), fi.key, nontrivial=False)
    R.floor("ARG-IMMUTABLE", nparams, 300)
    R.count("functions checked for argument mutation", nfun)


def is_container_expr(e):
    """does the expression evaluate to a list / set / dict (so that ``x op= e`` updates x in place when x is one)?"""
    if isinstance(e, (ast.List, ast.ListComp, ast.Set, ast.SetComp, ast.Dict, ast.DictComp)):
        return True
    if isinstance(e, ast.Call) and call_name(e) in ("list", "sorted", "set", "dict"):
        return True
    if isinstance(e, ast.BinOp):
        return is_container_expr(e.left) or is_container_expr(e.right)
    return False


def find_mutations(fi, pname):
    """statements that modify the object bound to parameter ``pname`` (or an alias) before a private copy replaces it"""
    cfg = CFG(fi.node)
    stmts = stmts_in(fi.node)
    # names that may denote the caller's object: the parameter, plain aliases, X.normalize(p) results
    aliases = {pname}
    fresh_at = {}          # name -> list of statements that rebind it to a private copy
    changed = True
    while changed:
        changed = False
        for s in stmts:
            if isinstance(s, ast.Assign) and len(s.targets) == 1 and isinstance(s.targets[0], ast.Name):
                t, v = s.targets[0].id, s.value
                is_alias = (isinstance(v, ast.Name) and v.id in aliases) or \
                    (isinstance(v, ast.Call) and method_name(v) in ALIAS_CALLS and v.args and isinstance(v.args[0], ast.Name) and v.args[0].id in aliases) or \
                    (isinstance(v, ast.IfExp) and any(isinstance(b, ast.Name) and b.id in aliases for b in (v.body, v.orelse))) or \
                    (isinstance(v, ast.BoolOp) and any(isinstance(b, ast.Name) and b.id in aliases for b in v.values))
                if is_alias and t not in aliases:
                    aliases.add(t)
                    changed = True
    for s in stmts:
        if isinstance(s, ast.Assign) and len(s.targets) == 1 and isinstance(s.targets[0], ast.Name) and s.targets[0].id in aliases:
            v = s.value
            is_alias = (isinstance(v, ast.Name) and v.id in aliases) or \
                (isinstance(v, ast.Call) and method_name(v) in ALIAS_CALLS and v.args and isinstance(v.args[0], ast.Name) and v.args[0].id in aliases) or \
                (isinstance(v, ast.IfExp) and any(isinstance(b, ast.Name) and b.id in aliases for b in (v.body, v.orelse))) or \
                (isinstance(v, ast.BoolOp) and any(isinstance(b, ast.Name) and b.id in aliases for b in v.values))
            if not is_alias:
                fresh_at.setdefault(s.targets[0].id, []).append(s)       # rebound to something that is not the caller's object
    out = []
    for s in stmts:
        hits = []
        # method call mutators
        if isinstance(s, (ast.Expr, ast.Assign, ast.AugAssign, ast.Return)):
            for c in [n for n in ast.walk(s) if isinstance(n, ast.Call) and isinstance(n.func, ast.Attribute)]:
                recv = c.func.value
                if isinstance(recv, ast.Name) and recv.id in aliases and c.func.attr in (LIST_MUT | COLL_MUT | REPO_MUT):
                    hits.append((recv.id, ".%s()" % c.func.attr))
                # mutator on an element/attribute of the argument: p.header[...]..., p[i].append
                if isinstance(recv, (ast.Subscript, ast.Attribute)) and c.func.attr in (LIST_MUT | COLL_MUT):
                    base = recv
                    while isinstance(base, (ast.Subscript, ast.Attribute)):
                        base = base.value
                    if isinstance(base, ast.Name) and base.id in aliases:
                        hits.append((base.id, "%s.%s()" % (src(recv), c.func.attr)))
            # library functions that work in place on their argument
            for c in [n for n in ast.walk(s) if isinstance(n, ast.Call)]:
                cn = call_name(c) or ""
                first = c.args[0] if c.args else None
                if isinstance(first, ast.Name) and first.id in aliases:
                    inplace_kw = [k for k in c.keywords if (k.arg == "copy" and isinstance(k.value, ast.Constant) and k.value.value is False)
                                  or (k.arg == "inplace" and isinstance(k.value, ast.Constant) and k.value.value is True)]
                    if inplace_kw:
                        hits.append((first.id, "%s(.., %s=%s) works in place" % (cn, inplace_kw[0].arg, inplace_kw[0].value.value)))
                    elif cn in INPLACE_FUNCS:
                        hits.append((first.id, "%s() works in place" % cn))
        targets = []
        if isinstance(s, ast.Assign):
            for t in s.targets:
                targets += list(t.elts) if isinstance(t, (ast.Tuple, ast.List)) else [t]
        elif isinstance(s, ast.AugAssign):
            targets = [s.target]
            if isinstance(s.target, ast.Name) and s.target.id in aliases and isinstance(s.op, (ast.Add, ast.Mult, ast.BitOr, ast.BitAnd, ast.Sub)) \
                    and is_container_expr(s.value):
                hits.append((s.target.id, "augmented assignment (in-place for lists / sets)"))
        elif isinstance(s, ast.Delete):
            targets = list(s.targets)
        for t in targets:
            if isinstance(t, (ast.Subscript, ast.Attribute)):
                base = t
                while isinstance(base, (ast.Subscript, ast.Attribute)):
                    base = base.value
                if isinstance(base, ast.Name) and base.id in aliases:
                    if isinstance(t, ast.Attribute) and base.id == t.value.id if isinstance(t.value, ast.Name) else False:
                        hits.append((base.id, "attribute assignment %s" % src(t)))
                    else:
                        hits.append((base.id, "item / attribute assignment %s" % src(t)))
        for name, how in hits:
            sn = cfg.node_of(s)
            if sn is None:
                continue
            # a private copy that dominates this statement protects it
            protected = any(cfg.dominates(cfg.node_of(fr), sn) and cfg.node_of(fr) is not sn for fr in fresh_at.get(name, []))
            if name != pname and not protected:
                # alias created after ... still the caller's object
                pass
            if not protected:
                out.append((s, how))
    return out


# ---------------------------------------------------------------------------- FRESH-RESULT
def transformations(prog):
    names = ["FlipPolarity", "XorSubstitution", "ExactlyOneSubstitution", "LinearSubstitution", "MajoritySubstitution",
             "AllEqualSubstitution", "OrSubstitution", "AndSubstitution", "IfThenElseSubstitution", "FormulaLifting", "VariableCompression"]
    out = [prog.func(SUB, n) for n in names]
    out.append(prog.func(SHU, "Shuffle"))
    return out


def check_fresh_result(R, prog):
    for fi in transformations(prog):
        fpar = fi.params[0]
        ctor = None
        for s in fi.node.body:
            if isinstance(s, ast.Assign) and isinstance(s.targets[0], ast.Name) and isinstance(s.value, ast.Call) and call_name(s.value) == "CNF":
                ctor = s
        if ctor is None:
            R.bad(F("FRESH-RESULT", fi, "%s result object" % fi.name, "the result must be a newly constructed CNF()"))
            continue
        out = ctor.targets[0].id
        hdr = [s for s in fi.node.body if isinstance(s, ast.Assign) and src(s.targets[0]) == out + ".header"]
        if len(hdr) == 1 and src(hdr[0].value) in ("copy(%s.header)" % fpar, "copy.copy(%s.header)" % fpar, "%s.header.copy()" % fpar,
                                                   "deepcopy(%s.header)" % fpar, "OrderedDict(%s.header)" % fpar, "dict(%s.header)" % fpar):
            R.ok("FRESH-RESULT", "%s: header = copy(%s.header) (earlier entries kept, input header not shared)" % (fi.name, fpar), fi.key)
        else:
            R.bad(F("FRESH-RESULT", fi, "%s header" % fi.name,
                    "the result's header must be a copy of the input's header (keeps the description and earlier entries without sharing "
                    "the dictionary); found %s" % [src(h) for h in hdr]))
        # nothing of the input is shared with the result: an attribute of the result bound to an attribute of the input (other than
        # through copy / list / dict ..) makes later work on either formula show in the other
        shared = []
        for s in stmts_in(fi.node):
            if isinstance(s, ast.Assign):
                for t in s.targets:
                    if isinstance(t, ast.Attribute) and isinstance(t.value, ast.Name) and t.value.id == out:
                        v = s.value
                        if isinstance(v, ast.Attribute) and isinstance(v.value, ast.Name) and v.value.id == fpar:
                            shared.append(s)
                        if isinstance(v, ast.Call) and isinstance(v.func, ast.Name) and v.func.id == "getattr" and v.args and \
                                isinstance(v.args[0], ast.Name) and v.args[0].id == fpar:
                            shared.append(s)
            if isinstance(s, ast.Expr) and isinstance(s.value, ast.Call) and isinstance(s.value.func, ast.Name) and s.value.func.id == "setattr" and \
                    len(s.value.args) == 3 and src(s.value.args[0]) == out and isinstance(s.value.args[2], ast.Attribute) and \
                    isinstance(s.value.args[2].value, ast.Name) and s.value.args[2].value.id == fpar:
                shared.append(s)
            if isinstance(s, ast.Expr) and isinstance(s.value, ast.Call) and src(s.value.func) in ("%s.__dict__.update" % out, "vars(%s).update" % out):
                shared.append(s)
        if shared:
            R.bad(F("FRESH-RESULT", fi, "%s shares state with its input" % fi.name,
                    "`%s`: the result refers to an object owned by the input formula, so allocating variables / adding clauses on one of "
                    "them changes the other (copy it, or rebuild it on the new formula)" % src(shared[0])[:80], shared[0]))
        else:
            R.ok("FRESH-RESULT", "%s: no attribute of the result is bound to an attribute of the input" % fi.name, fi.key)
        rets = [s for s in stmts_in(fi.node) if isinstance(s, ast.Return)]
        if rets and all(r.value is not None and src(r.value) == out for r in rets):
            R.ok("FRESH-RESULT", "%s returns the new formula" % fi.name, fi.key)
        else:
            R.bad(F("FRESH-RESULT", fi, "%s return value" % fi.name, "every return must hand back the newly built formula `%s`" % out))
    # wrappers return what the wrapped transformation returns
    for name in ("NotAllEqualSubstitution", "AtLeastKSubstitution", "AtMostKSubstitution", "ExactlyKSubstitution", "AnythingButKSubstitution"):
        fi = prog.func(SUB, name)
        rets = [s for s in stmts_in(fi.node) if isinstance(s, ast.Return)]
        if len(rets) == 1 and isinstance(rets[0].value, ast.Call) and call_name(rets[0].value) in ("AllEqualSubstitution", "LinearSubstitution") \
                and src(rets[0].value.args[0]) == fi.params[0]:
            R.ok("FRESH-RESULT", "%s returns the wrapped transformation's new formula" % name, fi.key)
        else:
            R.bad(F("FRESH-RESULT", fi, name, "the wrapper must return the result of the wrapped transformation applied to its input"))


# ---------------------------------------------------------------------------- PROVENANCE-ENTRY
def check_provenance_entry(R, prog):
    # the helper: first free index
    ad = prog.func(SUB, "add_description")
    ok = first_free_idiom(ad.node.body, ad.params[0] + ".header", ad.params[1])
    sem = semantic_add_description(ad)
    if sem[0] is False:
        R.bad(F("PROVENANCE-ENTRY", ad, "add_description meaning", sem[1]))
    elif ok is True:
        R.ok("PROVENANCE-ENTRY", "add_description: entry stored under the first free 'transformation <i>' key, i from 1", ad.key)
    elif sem[0] is True:
        R.ok("PROVENANCE-ENTRY", "add_description: %s" % sem[1], ad.key)
        R.unknown("PROVENANCE-ENTRY", "add_description index", ad.key, "shape not recognised (%s); the meaning of the fragment was confirmed by folding" % str(ok)[:100])
    else:
        R.bad(F("PROVENANCE-ENTRY", ad, "add_description index", str(ok)))
    for fi in transformations(prog):
        out = None
        for s in fi.node.body:
            if isinstance(s, ast.Assign) and isinstance(s.targets[0], ast.Name) and isinstance(s.value, ast.Call) and call_name(s.value) == "CNF":
                out = s.targets[0].id
        if out is None:
            continue
        cfg = CFG(fi.node)
        stmts = stmts_in(fi.node)
        calls = [s for s in stmts if isinstance(s, ast.Expr) and isinstance(s.value, ast.Call) and call_name(s.value) == "add_description"
                 and s.value.args and src(s.value.args[0]) == out]
        hdr = [s for s in stmts if isinstance(s, ast.Assign) and src(s.targets[0]) == out + ".header"]
        if calls:
            # exactly one on every path to a return
            rets = [s for s in stmts if isinstance(s, ast.Return)]
            per_path = True
            for r in rets:
                rn = cfg.node_of(r)
                doms = [c for c in calls if cfg.dominates(cfg.node_of(c), rn)]
                # calls in the two arms of one if/else count as one entry per path
                arms = [c for c in calls if not cfg.dominates(cfg.node_of(c), rn)]
                if len(doms) + (1 if arms else 0) != 1:
                    per_path = False
                if arms:
                    # every path reaches exactly one arm: the enclosing If dominates and both arms present
                    enc = [s for s in stmts if isinstance(s, ast.If) and all(any(c is x for b in (s.body, s.orelse) for y in b for x in ast.walk(y)) for c in arms)]
                    if not enc or not all(any(c is x for y in enc[0].body for x in ast.walk(y)) or any(c is x for y in enc[0].orelse for x in ast.walk(y)) for c in arms) \
                            or not (any(c is x for c in arms for y in enc[0].body for x in ast.walk(y)) and any(c is x for c in arms for y in enc[0].orelse for x in ast.walk(y))):
                        per_path = False
            after_copy = all(hdr and cfg.dominates(cfg.node_of(hdr[0]), cfg.node_of(c)) for c in calls)
            if per_path and after_copy:
                R.ok("PROVENANCE-ENTRY", "%s: exactly one add_description on every path, after the header copy" % fi.name, fi.key)
            else:
                R.bad(F("PROVENANCE-ENTRY", fi, "%s entry count" % fi.name,
                        "every path must add exactly one 'transformation' entry, after the header has been copied (otherwise the entry is "
                        "lost or duplicated)"))
            # variant flag: the two arms must describe different variants
            for s in stmts:
                if isinstance(s, ast.If) and s.orelse:
                    a = [c for c in calls if any(c is x for y in s.body for x in ast.walk(y))]
                    b = [c for c in calls if any(c is x for y in s.orelse for x in ast.walk(y))]
                    if a and b:
                        ta, tb = template(a[0].value.args[1]), template(b[0].value.args[1])
                        if ta == tb:
                            R.bad(F("PROVENANCE-ENTRY", fi, "%s variant texts" % fi.name,
                                    "both values of `%s` record the same text %r: the header does not tell which variant was applied"
                                    % (src(s.test), ta), b[0]))
                        else:
                            R.ok("PROVENANCE-ENTRY", "%s: the two variants selected by `%s` record different texts" % (fi.name, src(s.test)), fi.key)
        else:
            # inline idiom (Shuffle)
            ok = first_free_idiom(fi.node.body, out + ".header", None, cfg=cfg, fnode=fi.node)
            if ok is not True and fi.name == "Shuffle":
                from . import c09 as _c09
                sem = _c09.shuffle_verdict(prog)           # compares the header of the result, too
                if sem[0] is True:
                    R.ok("PROVENANCE-ENTRY", "Shuffle: %s" % sem[1], fi.key)
                    R.unknown("PROVENANCE-ENTRY", "Shuffle provenance entry", fi.key,
                              "shape not recognised (%s); the meaning of the fragment was confirmed by folding" % str(ok)[:100])
                    continue
            if ok is True:
                R.ok("PROVENANCE-ENTRY", "%s: entry stored under the first free index; the index is not rebound before use" % fi.name, fi.key)
            else:
                R.bad(F("PROVENANCE-ENTRY", fi, "%s provenance entry" % fi.name, str(ok)))


def semantic_add_description(ad):
    """fold add_description over headers with every occupancy pattern of 'transformation 1..4' (and unrelated keys): afterwards the header
    is the old one plus the text under the first free index"""
    import itertools
    import types
    from ..fold import Folder, Raised
    from ..ql import Unknown
    n = 0
    for occ in itertools.product([False, True], repeat=4):
        old = {"description": "d", "transformation x": "y"}
        old.update({"transformation %d" % (i + 1): "t%d" % i for i, o in enumerate(occ) if o})
        Fobj = types.SimpleNamespace(header=dict(old))
        f = Folder(env={})
        try:
            f.call_function(ad.node, [Fobj, "TEXT"], {})
        except Raised as r:
            return False, "add_description raises %s on the header %s" % (r.cls, old)
        except Unknown as e:
            return None, "cannot fold add_description: %s" % e
        k = 1
        while "transformation %d" % k in old:
            k += 1
        want = dict(old)
        want["transformation %d" % k] = "TEXT"
        if Fobj.header != want:
            return False, ("on the header %s add_description leaves %s; the text must be stored under 'transformation %d', the first free "
                           "index, and nothing else may change" % (old, Fobj.header, k))
        n += 1
    return True, "%d header occupancy patterns folded: the text lands under the first free index" % n


def template(e):
    if isinstance(e, ast.Call) and isinstance(e.func, ast.Attribute) and e.func.attr == "format":
        return const(e.func.value)
    return const(e) if isinstance(e, ast.Constant) else src(e)


def first_free_idiom(body, hdr, textparam, cfg=None, fnode=None):
    """i = 1; while 'transformation {}'.format(i) in H: i += 1; H['transformation {}'.format(i)] = text"""
    init = loop = store = None
    for s in body:
        if isinstance(s, ast.Assign) and isinstance(s.targets[0], ast.Name) and is_const(s.value, 1):
            init = s
        if isinstance(s, ast.While) and init is not None:
            i = init.targets[0].id
            if src(s.test) == "'transformation {}'.format(%s) in %s" % (i, hdr) and [src(x) for x in s.body] == ["%s += 1" % i]:
                loop = s
        if isinstance(s, ast.Assign) and isinstance(s.targets[0], ast.Subscript) and src(s.targets[0].value) == hdr and init is not None and \
                src(s.targets[0].slice) == "'transformation {}'.format(%s)" % init.targets[0].id:
            store = s
    if not (init and loop and store):
        return "the numbered entry must be stored under the first free key: i = 1; while 'transformation {}'.format(i) in header: i += 1; " \
               "header['transformation {}'.format(i)] = <text>"
    if body.index(init) > body.index(loop) or body.index(loop) > body.index(store):
        return "the first-free loop must run before the entry is stored"
    if cfg is not None:
        i = init.targets[0].id
        ln, sn = cfg.node_of(loop), cfg.node_of(store)
        for s in stmts_in(fnode):
            if s in (init, loop, store) or any(s is x for x in loop.body):
                continue
            binds = set()
            if isinstance(s, ast.Assign):
                for t in s.targets:
                    binds |= set(target_names(t))
            elif isinstance(s, (ast.AugAssign, ast.For)):
                binds |= set(target_names(s.target))
            if i in binds:
                n = cfg.node_of(s)
                if n is not None and cfg.reaches(ln, n) and cfg.reaches(n, sn):
                    return ("the index variable `%s` found by the first-free loop is rebound by `%s` (line %d) before the entry is stored: "
                            "the entry gets a wrong number and can overwrite an earlier one" % (i, src(s)[:40], s.lineno))
    return True


# ---------------------------------------------------------------------------- COPY-ON-INSERT
def check_copy_on_insert(R, prog):
    fi = prog.func("cnfgen.formula.basecnf", "BaseCNF.add_clause")
    cl = fi.params[1]
    env = {src(s.targets[0]): src(s.value) for s in stmts_in(fi.node) if isinstance(s, ast.Assign) and len(s.targets) == 1}
    apps = [c for c in ast.walk(fi.node) if isinstance(c, ast.Call) and call_name(c) == "self._clauses.append"]
    good = apps and all((isinstance(c.args[0], ast.List) and not c.args[0].elts) or env.get(src(c.args[0])) in ("list(%s)" % cl, "[l for l in %s]" % cl)
                        for c in apps)
    if good:
        R.ok("COPY-ON-INSERT", "BaseCNF.add_clause stores list(clause), a private copy", fi.key)
    else:
        R.bad(F("COPY-ON-INSERT", fi, "BaseCNF.add_clause storage", "the stored clause must be a fresh list(clause), never the caller's object"))
    for mod, cls, fld in (("cnfgen.formula.basecnf", "BaseCNF", "_clauses"), ("cnfgen.formula.baseopb", "BaseOPB", "_constraints")):
        g = prog.func(mod, cls + ".__getitem__")
        rets = [src(s.value) for s in stmts_in(g.node) if isinstance(s, ast.Return)]
        if rets == ["self.%s[%s][:]" % (fld, g.params[1])] or rets == ["list(self.%s[%s])" % (fld, g.params[1])]:
            R.ok("COPY-ON-INSERT", "%s[idx] hands out a copy" % cls, g.key)
        else:
            R.bad(F("COPY-ON-INSERT", g, "%s.__getitem__" % cls, "indexing a formula must return a copy of the stored clause / constraint; found %s" % rets))
    for mod, cls in (("cnfgen.formula.basecnf", "ClausesView"), ("cnfgen.formula.baseopb", "ConstraintsView")):
        g = prog.func(mod, cls + ".__getitem__")
        txt = [src(s) for s in stmts_in(g.node)]
        if "return self.data[idx][:]" in txt:
            R.ok("COPY-ON-INSERT", "%s[int] hands out a copy" % cls, g.key)
        else:
            R.bad(F("COPY-ON-INSERT", g, "%s.__getitem__" % cls, "the read-only view must return a copy for an integer index"))
    fi = prog.func("cnfgen.formula.baseopb", "BaseOPB.add_clause")
    txt = [src(s) for s in stmts_in(fi.node)]
    if any(t.startswith("data = [(1, l) for l in %s] + ['>=', 1]" % fi.params[1]) for t in txt) and "self._constraints.append(data)" in txt:
        R.ok("COPY-ON-INSERT", "BaseOPB.add_clause stores a freshly built constraint", fi.key)
    else:
        R.bad(F("COPY-ON-INSERT", fi, "BaseOPB.add_clause storage", "expected a freshly built [(1,l)...] + ['>=', 1]"))
    fi = prog.func("cnfgen.formula.baseopb", "BaseOPB.add_constraint")
    txt = [src(s) for s in stmts_in(fi.node)]
    n = prog.func("cnfgen.formula.baseopb", "normalize_opb")
    nret = [src(s.value) for s in stmts_in(n.node) if isinstance(s, ast.Return)]
    nenv = {src(s.targets[0]): src(s.value) for s in n.node.body if isinstance(s, ast.Assign) and len(s.targets) == 1}
    fresh_terms = any(v == "%s[:-2]" % n.params[0] for v in nenv.values())
    if "constraint = normalize_opb(constraint)" in txt and "self._constraints.append(constraint)" in txt and fresh_terms and \
            nret and all("+" in r for r in nret):
        R.ok("COPY-ON-INSERT", "BaseOPB.add_constraint stores the list built by normalize_opb (slice copy + concatenation)", fi.key)
    else:
        R.bad(F("COPY-ON-INSERT", fi, "BaseOPB.add_constraint storage", "the stored constraint must be the fresh list returned by normalize_opb, which "
                "must work on a slice copy of its argument"))
