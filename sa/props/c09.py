"""C09 -- shuffling is a signed renaming of variables plus a reordering of clauses."""
import ast

from ..loader import AnalysisError, walk_shallow
from ..cfg import CFG
from ..astutil import src, call_name, method_name, const, is_const, stmts_in, kwarg
from ..report import Result, Finding

P = "C09"
MOD = "cnfgen.transformations.shuffle"


def F(rule, fi, construct, msg, node=None):
    return Finding(P, rule, fi, construct, msg, node=node)


def chain_of(stmt):
    out, cur = [], stmt
    while True:
        out.append(cur)
        if len(cur.orelse) == 1 and isinstance(cur.orelse[0], ast.If):
            cur = cur.orelse[0]
        else:
            return out, cur.orelse


def run(prog, tier):
    R = Result(P, "PERM-TYPESTATE: each of the three arguments of Shuffle reaches the literal table / emission loop only (a) constructed as "
               "the identity ('fixed'), (b) constructed at random from a generator of the right shape ('shuffle': +-1 choices over "
               "range(N); list(range(1,N+1)) / list(range(M)) shuffled in place), or (c) an explicit argument that passed a length test "
               "and an element test (|x| == 1; sorted(x) compared position-wise with the exact target range), each ending in raise "
               "ValueError.  MAPPING-ORIENT: clause i of the input goes to position S[i] (pairs (old,new) from enumerate, ordered by "
               "new, input read at old).  SIGN-EQUIV: table[i] = flip*perm, table[-i] = -table[i] for i in 1..N.  ONE-OUT-PER-IN: one "
               "clause added per mapping element, every literal through the table, no filter; N declared on the result.  "
               "SWITCH-SIBLING: cnfshuffle and -T shuffle hand 'fixed' to the Shuffle parameter whose name matches the --no-<name> "
               "switch.  The counting consequences (same number of models) follow mathematically and are not themselves checked.")
    R.trust("random.shuffle(list) permutes the list in place; random.choice(seq) returns an element of seq",
            "sorted(x) == the exact range position-wise  <=>  x is a permutation of that range")
    fi = prog.func(MOD, "Shuffle")
    check_typestate(R, prog, fi)
    check_table(R, prog, fi)
    check_switches(R, prog)
    return R


# ----------------------------------------------------------------------------
def sizes(fi):
    """names bound to F.number_of_variables() / F.number_of_clauses()"""
    N = M = None
    fpar = fi.params[0]
    for s in fi.node.body:
        if isinstance(s, ast.Assign) and isinstance(s.targets[0], ast.Name):
            if src(s.value) == "%s.number_of_variables()" % fpar:
                N = s.targets[0].id
            if src(s.value) in ("%s.number_of_clauses()" % fpar, "len(%s)" % fpar):
                M = s.targets[0].id
    if N is None or M is None:
        raise AnalysisError("Shuffle: cannot find N = F.number_of_variables() / M = F.number_of_clauses()")
    return N, M


def _shape_typestate(R, prog, fi):
    N, M = sizes(fi)
    specs = {
        "polarity_flips": ("SIGNS", N, None),
        "variables_permutation": ("PERM", N, 1),
        "clauses_permutation": ("PERM", M, 0),
    }
    for p, (tag, size, first) in specs.items():
        if p not in fi.params:
            raise AnalysisError("Shuffle has no parameter %s" % p)
        top = None
        for s in fi.node.body:
            if isinstance(s, ast.If) and isinstance(s.test, ast.Compare) and src(s.test.left) == p and isinstance(const(s.test.comparators[0]), str):
                top = s
        if top is None:
            R.bad(F("PERM-TYPESTATE", fi, "%s dispatch" % p, "no 'fixed'/'shuffle'/explicit dispatch on %s found" % p))
            continue
        chain, orelse = chain_of(top)
        seen = {}
        for c in chain:
            lit = const(c.test.comparators[0]) if isinstance(c.test, ast.Compare) and src(c.test.left) == p else None
            seen[lit] = c.body
        out_name = p if p != "clauses_permutation" else None
        for mode in ("fixed", "shuffle"):
            if mode not in seen:
                R.bad(F("PERM-TYPESTATE", fi, "%s: mode %r" % (p, mode), "mode %r is not handled" % mode))
                continue
            ok, why = constructed(seen[mode], p, tag, size, first, mode)
            if ok:
                R.ok("PERM-TYPESTATE", "%s=%r constructs %s" % (p, mode, describe(tag, size, first)), fi.key)
            else:
                R.bad(F("PERM-TYPESTATE", fi, "%s=%r construction" % (p, mode),
                        "with %s=%r the value used must be %s; %s" % (p, mode, describe(tag, size, first), why), seen[mode][0]))
        ok, why = validated(orelse, p, tag, size, first)
        if ok:
            R.ok("PERM-TYPESTATE", "explicit %s is validated as %s before use (else ValueError)" % (p, describe(tag, size, first)), fi.key)
        else:
            R.bad(F("PERM-TYPESTATE", fi, "explicit %s validation" % p,
                    "an explicit %s must be rejected with ValueError unless it is %s; %s" % (p, describe(tag, size, first), why),
                    orelse[0] if orelse else top))


def describe(tag, size, first):
    if tag == "SIGNS":
        return "a vector of +-1 of length %s" % size
    return "a permutation of %s..%s" % (first, "%s" % size if first == 1 else "%s-1" % size)


def rng_text(size, first):
    return "range(1, %s + 1)" % size if first == 1 else "range(%s)" % size


def constructed(body, p, tag, size, first, mode):
    assigns = [s for s in body if isinstance(s, ast.Assign) and len(s.targets) == 1 and isinstance(s.targets[0], ast.Name)]
    vals = {s.targets[0].id: s.value for s in assigns}
    if tag == "SIGNS":
        v = vals.get(p)
        if v is None:
            return False, "the parameter is not rebound"
        if mode == "fixed":
            good = src(v) in ("[1] * %s" % size, "%s * [1]" % size, "[1 for x in range(%s)]" % size)
            return good, "found %s" % src(v)
        if isinstance(v, ast.ListComp) and len(v.generators) == 1 and src(v.generators[0].iter) == "range(%s)" % size and not v.generators[0].ifs:
            e = v.elt
            if isinstance(e, ast.Call) and call_name(e) == "random.choice" and isinstance(e.args[0], (ast.List, ast.Tuple)) and \
                    sorted(const(x) for x in e.args[0].elts) == [-1, 1]:
                return True, ""
        return False, "found %s" % src(v)
    # permutations
    target = p if p in vals else None
    if p == "clauses_permutation":
        # result goes to clauses_mapping: pairs (old, new) ordered by new
        mp = vals.get("clauses_mapping")
        if mp is None:
            return False, "clauses_mapping is not built"
        if mode == "fixed":
            good = isinstance(mp, (ast.GeneratorExp, ast.ListComp)) and src(mp.elt) in ("(i, i)",) and src(mp.generators[0].iter) == "range(%s)" % size
            good = good or src(mp) in ("enumerate(range(%s))" % size, "zip(range(%s), range(%s))" % (size, size))
            return good, "found %s" % src(mp)
        # shuffle: tmp = list(range(M)); random.shuffle(tmp); sorted(enumerate(tmp), key=second)
        tmpn = None
        for n, v in vals.items():
            if src(v) == "list(range(%s))" % size:
                tmpn = n
        shuffled = tmpn and any(isinstance(s, ast.Expr) and src(s.value) == "random.shuffle(%s)" % tmpn for s in body)
        return bool(shuffled and oriented(mp, tmpn)), "found %s" % src(mp)
    v = vals.get(p)
    if v is None:
        return False, "the parameter is not rebound"
    if mode == "fixed":
        return src(v) in (rng_text(size, first), "list(%s)" % rng_text(size, first)), "found %s" % src(v)
    good = src(v) == "list(%s)" % rng_text(size, first) and any(isinstance(s, ast.Expr) and src(s.value) == "random.shuffle(%s)" % p for s in body)
    # the shuffle must come after the list is built
    if good:
        idx = [i for i, s in enumerate(body) if isinstance(s, ast.Assign) and src(s.targets[0]) == p][0]
        jdx = [i for i, s in enumerate(body) if isinstance(s, ast.Expr) and src(s.value) == "random.shuffle(%s)" % p][0]
        good = idx < jdx
    return good, "found %s" % src(v)


def oriented(mp, permname):
    """sorted(enumerate(PERM), key=lambda x: x[1]) -- pairs (old index, new position) ordered by new position"""
    if not (isinstance(mp, ast.Call) and call_name(mp) == "sorted" and mp.args):
        return False
    a = mp.args[0]
    if not (isinstance(a, ast.Call) and call_name(a) == "enumerate" and len(a.args) == 1 and src(a.args[0]) == permname and not a.keywords):
        return False
    key = kwarg(mp, "key")
    if not (isinstance(key, ast.Lambda) and len(key.args.args) == 1):
        return False
    x = key.args.args[0].arg
    return src(key.body) == "%s[1]" % x


def raises_value_error(body):
    return bool(body) and isinstance(body[0], ast.Raise) and body[0].exc is not None and \
        (call_name(body[0].exc) or src(body[0].exc)).split("(")[0] == "ValueError"


def validated(orelse, p, tag, size, first):
    if not orelse:
        return False, "there is no branch for an explicit argument"
    length = False
    elems = False
    sorted_name = None
    for s in orelse:
        if isinstance(s, ast.If) and src(s.test) in ("len(%s) != %s" % (p, size), "%s != len(%s)" % (size, p)) and raises_value_error(s.body):
            length = True
        if isinstance(s, ast.Assign) and isinstance(s.targets[0], ast.Name) and src(s.value) == "sorted(%s)" % p:
            sorted_name = s.targets[0].id
        if isinstance(s, ast.If) and tag == "PERM" and raises_value_error(s.body) and \
                src(s.test) in ("sorted(%s) != list(%s)" % (p, rng_text(size, first)), "list(%s) != sorted(%s)" % (rng_text(size, first), p)):
            elems = True
        if isinstance(s, ast.For) and src(s.iter) == "range(%s)" % size and isinstance(s.target, ast.Name):
            i = s.target.id
            for x in s.body:
                if not (isinstance(x, ast.If) and raises_value_error(x.body) and len(s.body) == 1):
                    continue
                t = src(x.test)
                if tag == "SIGNS" and t in ("abs(%s[%s]) != 1" % (p, i), "%s[%s] not in (-1, 1)" % (p, i), "%s[%s] not in [-1, 1]" % (p, i),
                                            "%s[%s] not in (1, -1)" % (p, i), "%s[%s] not in [1, -1]" % (p, i)):
                    elems = True
                if tag == "PERM" and sorted_name:
                    want = ["%s + 1 != %s[%s]" % (i, sorted_name, i), "%s[%s] != %s + 1" % (sorted_name, i, i)] if first == 1 else \
                        ["%s != %s[%s]" % (i, sorted_name, i), "%s[%s] != %s" % (sorted_name, i, i)]
                    if t in want:
                        elems = True
    if not length:
        return False, "no `len(%s) != %s -> raise ValueError` test" % (p, size)
    if not elems:
        return False, ("no element test `abs(%s[i]) != 1 -> raise`" % p) if tag == "SIGNS" else \
            ("no position-wise comparison of sorted(%s) with %s raising ValueError" % (p, rng_text(size, first)))
    if p == "clauses_permutation":
        mp = None
        for s in orelse:
            if isinstance(s, ast.Assign) and src(s.targets[0]) == "clauses_mapping":
                mp = s.value
        if mp is None or not oriented(mp, p):
            return False, ("the explicit permutation S must be applied as `clause i goes to position S[i]`: pairs (i, S[i]) from "
                           "enumerate(S) ordered by S[i]; found %s" % (src(mp) if mp is not None else "no mapping"))
    return True, ""


# ----------------------------------------------------------------------------
def _shape_table(R, prog, fi):
    N, M = sizes(fi)
    fpar = fi.params[0]
    stmts = stmts_in(fi.node)
    cfg = CFG(fi.node)
    tab = None
    for s in fi.node.body:
        if isinstance(s, ast.Assign) and isinstance(s.targets[0], ast.Name) and src(s.value) in ("[None] * (2 * %s + 1)" % N, "(2 * %s + 1) * [None]" % N):
            tab = s.targets[0].id
    loop = None
    for s in fi.node.body:
        if isinstance(s, ast.For) and src(s.iter) == "range(1, %s + 1)" % N and tab and any(tab in src(x) for x in s.body):
            loop = s
    if tab is None or loop is None:
        R.bad(F("SIGN-EQUIV", fi, "literal table", "no table of size 2N+1 filled for i in range(1, N+1)"))
    else:
        i = src(loop.target)
        body = [src(x) for x in loop.body]
        pos = ["%s[%s] = polarity_flips[%s - 1] * variables_permutation[%s - 1]" % (tab, i, i, i),
               "%s[%s] = variables_permutation[%s - 1] * polarity_flips[%s - 1]" % (tab, i, i, i)]
        neg = "%s[-%s] = -%s[%s]" % (tab, i, tab, i)
        if any(b in pos for b in body):
            R.ok("SIGN-EQUIV", "table[i] = flips[i-1] * perm[i-1] for i in 1..N", fi.key)
        else:
            R.bad(F("SIGN-EQUIV", fi, "table[i]", "variable i must map to flips[i-1]*perm[i-1]; found %s" % body, loop))
        if neg in body and body.index(neg) > min(body.index(b) for b in body if b in pos or b == neg):
            R.ok("SIGN-EQUIV", "table[-i] = -table[i]", fi.key)
        else:
            R.bad(F("SIGN-EQUIV", fi, "table[-i]", "the negative literal must map to the negation of the positive one (table[-i] = -table[i], "
                    "assigned after table[i]); found %s" % body, loop))
    # emission loop
    em = None
    for s in fi.node.body:
        if isinstance(s, ast.For) and src(s.iter) == "clauses_mapping":
            em = s
    if em is None:
        R.bad(F("ONE-OUT-PER-IN", fi, "emission loop", "no loop over clauses_mapping"))
        return
    if not (isinstance(em.target, ast.Tuple) and len(em.target.elts) == 2):
        R.bad(F("ONE-OUT-PER-IN", fi, "emission loop target", "the loop must unpack (old, new) pairs", em))
        return
    old, new = [src(x) for x in em.target.elts]
    adds = [c for x in em.body for c in ast.walk(x) if isinstance(c, ast.Call) and method_name(c) == "add_clause"]
    good = False
    if len(adds) == 1 and all(isinstance(x, (ast.Expr, ast.Assert)) for x in em.body):
        a = adds[0].args[0]
        if isinstance(a, (ast.GeneratorExp, ast.ListComp)) and len(a.generators) == 1 and not a.generators[0].ifs and \
                src(a.generators[0].iter) == "%s[%s]" % (fpar, old) and tab and \
                src(a.elt) == "%s[%s]" % (tab, src(a.generators[0].target)):
            good = True
    if good:
        R.ok("ONE-OUT-PER-IN", "one clause per mapping element: every literal of F[old] through the table, unfiltered, in order", fi.key)
    else:
        R.bad(F("ONE-OUT-PER-IN", fi, "emission loop body",
                "each mapping element (old, new) must add exactly one clause `table[lit] for lit in F[old]` (input read at the first "
                "component, no literal filtered out)", em))
    asserts = [x for x in em.body if isinstance(x, ast.Assert)]
    if any(src(x.test) in ("%s == out.number_of_clauses()" % new, "out.number_of_clauses() == %s" % new) for x in asserts):
        R.ok("MAPPING-ORIENT", "the clause written for pair (old, new) lands at position new (asserted)", fi.key, nontrivial=False)
    # N declared on the result, result is a fresh CNF
    outn = None
    for s in fi.node.body:
        if isinstance(s, ast.Assign) and isinstance(s.value, ast.Call) and call_name(s.value) == "CNF" and not s.value.args:
            outn = s.targets[0].id
    upd = [s for s in fi.node.body if isinstance(s, ast.Expr) and outn and src(s.value) == "%s.update_variable_number(%s)" % (outn, N)]
    rets = [s for s in stmts if isinstance(s, ast.Return)]
    if outn and upd and all(src(r.value) == outn for r in rets) and rets:
        R.ok("ONE-OUT-PER-IN", "the result is a fresh CNF that declares all N variables of the input", fi.key)
    else:
        R.bad(F("ONE-OUT-PER-IN", fi, "result declares N variables",
                "the shuffled formula must be a new CNF on which update_variable_number(N) is called unconditionally (variables that occur "
                "in no clause would otherwise disappear) and it must be the value returned"))
    if upd and em is not None and not cfg.dominates(cfg.node_of(upd[0]), cfg.node_of(em)):
        R.bad(F("ONE-OUT-PER-IN", fi, "declaration after emission", "N must be declared before clauses are added", upd[0]))


# ----------------------------------------------------------------------------
def check_switches(R, prog):
    params = ["polarity_flips", "variables_permutation", "clauses_permutation"]
    sites = [("cnfgen.clitools.cnfshuffle", "cli"), ("cnfgen.clihelpers.transformation_helpers", "ShuffleCmd.transform_cnf")]
    sh = prog.func(MOD, "Shuffle")
    for mod, q in sites:
        fi = prog.func(mod, q)
        calls = [c for c in walk_shallow(fi.node) if isinstance(c, ast.Call) and call_name(c) == "Shuffle"]
        if len(calls) != 1:
            raise AnalysisError("%s: expected one call of Shuffle" % fi.key)
        c = calls[0]
        env = {s.targets[0].id: s.value for s in stmts_in(fi.node) if isinstance(s, ast.Assign) and len(s.targets) == 1
               and isinstance(s.targets[0], ast.Name)}
        given = {}
        for i, a in enumerate(c.args[1:]):
            if isinstance(a, ast.Starred):
                # Shuffle(F, *modes): the k-th remaining parameter receives modes[k] (decided by folding only)
                for k, pname in enumerate(sh.params[1 + i:1 + len(params)]):
                    given[pname] = ast.fix_missing_locations(ast.copy_location(
                        ast.Subscript(value=a.value, slice=ast.Constant(value=k), ctx=ast.Load()), a))
                break
            if i < len(params):
                given[sh.params[1 + i]] = a
        for k in c.keywords:
            given[k.arg] = k.value
        for p in params:
            a = given.get(p)
            dest = "no_" + p
            verdict = fold_switch(fi, a, params, dest) if a is not None else False
            if isinstance(a, ast.Name) and a.id in env:
                a = env[a.id]
            want = ["'fixed' if args.%s else 'shuffle'" % dest, "'shuffle' if not args.%s else 'fixed'" % dest]
            if verdict is True or (verdict is None and a is not None and src(a) in want):
                R.ok("SWITCH-SIBLING", "%s: Shuffle(%s) is 'fixed' exactly when --no-%s is given%s" % (
                    fi.qualname, p, p.replace("_", "-"), " (folded for the 8 switch combinations)" if verdict else ""), fi.key)
            else:
                R.bad(F("SWITCH-SIBLING", fi, "%s -> Shuffle(%s)" % (fi.qualname, p),
                        "parameter %s must be 'fixed' when switch --no-%s (dest %s) is set and 'shuffle' otherwise; it receives %s"
                        % (p, p.replace("_", "-"), dest, src(a) if a is not None else "nothing"), c))
    # each dest is declared by the option of the same meaning
    for mod, q in (("cnfgen.clitools.cnfshuffle", "cli"), ("cnfgen.clihelpers.transformation_helpers", "ShuffleCmd.setup_command_line")):
        fi = prog.func(mod, q)
        decl = {}
        for c in [x for x in walk_shallow(fi.node) if isinstance(x, ast.Call) and method_name(x) == "add_argument"]:
            d = kwarg(c, "dest")
            opts = [const(a) for a in c.args if isinstance(const(a), str)]
            if d is not None and isinstance(const(d), str):
                decl[const(d)] = (opts, const(kwarg(c, "action")))
        for p in params:
            d = "no_" + p
            o = "--no-" + p.replace("_", "-")
            if d in decl and o in decl[d][0] and decl[d][1] == "store_true":
                R.ok("SWITCH-SIBLING", "%s: option %s stores True into %s" % (fi.qualname, o, d), fi.key)
            else:
                R.bad(F("SWITCH-SIBLING", fi, "%s option %s" % (fi.qualname, o), "option %s must be a store_true switch with dest %s" % (o, d)))


def fold_switch(fi, arg, params, dest):
    """value of the expression handed to Shuffle for every combination of the three --no-* switches: 'fixed' exactly when ``dest`` is
    set.  The statements that define the locals the expression uses (assignments, conditional overrides, local helper functions) are
    folded in source order.  True / False, or None when the slice cannot be folded."""
    import itertools
    import types
    from ..fold import Folder, Raised
    from ..ql import Unknown
    argname = [p_ for p_ in fi.params if p_ in ("args",)] or ["args"]
    needed = {n.id for n in ast.walk(arg) if isinstance(n, ast.Name)} - {argname[0]}
    chosen = []
    body = list(fi.node.body)
    changed = True
    while changed:
        changed = False
        for st in body:
            if st in chosen or not isinstance(st, (ast.Assign, ast.If, ast.FunctionDef)):
                continue
            stored = {n.id for n in ast.walk(st) if isinstance(n, ast.Name) and isinstance(n.ctx, ast.Store)}
            if isinstance(st, ast.FunctionDef):
                stored = {st.name}
            if stored & needed:
                chosen.append(st)
                needed |= {n.id for n in ast.walk(st) if isinstance(n, ast.Name) and isinstance(n.ctx, ast.Load)} - {argname[0]}
                changed = True
    chosen.sort(key=lambda st: st.lineno)
    for combo in itertools.product([False, True], repeat=3):
        ns = types.SimpleNamespace(**{"no_" + p_: v for p_, v in zip(params, combo)})
        f = Folder(env={argname[0]: ns})
        from ..fold import _NODE_HOME
        if id(fi.node) in _NODE_HOME:
            f.home = [_NODE_HOME[id(fi.node)]]           # module-level / imported helper functions of the caller's module
        try:
            f.run(chosen)
            got = f.ev(arg)
        except (Unknown, Raised):
            return None
        except Exception:
            return None
        if got != ("fixed" if getattr(ns, dest) else "shuffle"):
            return False
    return True


# ----------------------------------------------------------------------------
_SEM = {}


def shuffle_verdict(prog):
    if id(prog) not in _SEM:
        _SEM[id(prog)] = semantic_shuffle(prog)
    return _SEM[id(prog)]


def check_typestate(R, prog, fi):
    from ._shared import with_semantics
    with_semantics(R, R.prop, lambda T: _shape_typestate(T, prog, fi), shuffle_verdict(prog),
                   "Shuffle is the signed renaming / clause permutation its arguments describe", fi, rule="SHUFFLE-SEMANTICS")


def check_table(R, prog, fi):
    from ._shared import with_semantics
    v = shuffle_verdict(prog)
    with_semantics(R, R.prop, lambda T: _shape_table(T, prog, fi), (v[0] if v[0] is not False else None, v[1]),     # a refutation is reported once, by check_typestate
                   "Shuffle literal table and emission loop", fi, rule="SHUFFLE-SEMANTICS")


def semantic_shuffle(prog):
    """fold the whole of Shuffle over stand-in formulas (0..3 variables, 0..3 clauses) for every combination of 'fixed' / 'shuffle' (a
    scripted stand-in for the random module) / explicit valid / explicit invalid arguments.  The result must be a new formula that
    declares N variables, whose clause S[i] is clause i of the input with every literal l replaced by sign(l)*flip[|l|]*perm[|l|], whose
    header is the input's plus one 'transformation k' entry under the first free k; every invalid explicit argument (exhaustively: all
    vectors over -2..2 resp. 0..N+1 of lengths N-1..N+1 that are not sign vectors / permutations) must be refused with ValueError; the
    input is left untouched.  -> (True | False | None, detail)"""
    import copy as _copy
    import itertools
    import types
    from ..fold import Folder, Raised
    from ..ql import Unknown
    fi = prog.func(MOD, "Shuffle")
    if fi.params[:4] != ["F", "polarity_flips", "variables_permutation", "clauses_permutation"]:
        return None, "Shuffle has another signature"

    class FakeCNF:
        def __init__(self):
            self.header, self.n, self.cl = {}, 0, []

        def update_variable_number(self, n):
            self.n = max(self.n, n)

        def add_clause(self, c, check=True):
            c = list(c)
            self.cl.append(c)
            if check:
                self.n = max([self.n] + [abs(l) for l in c])

        def number_of_clauses(self):
            return len(self.cl)

        def number_of_variables(self):
            return self.n

        def __len__(self):
            return len(self.cl)

        def __getitem__(self, i):
            return list(self.cl[i])

        def __iter__(self):
            return iter([list(c) for c in self.cl])

        def clauses(self):
            return [list(c) for c in self.cl]

    class Script:
        """stand-in for the random module: choice must be asked for a sign, shuffle for a permutation of the expected range"""
        def __init__(self, signs, perms):
            self.signs, self.perms, self.bad = list(signs), perms, None

        def choice(self, seq):
            if sorted(set(seq)) != [-1, 1]:
                self.bad = "random.choice is asked to choose from %r, not from the two signs" % (list(seq),)
            return self.signs.pop(0) if self.signs else 1

        def shuffle(self, lst):
            key = tuple(sorted(lst))
            if key not in self.perms:
                self.bad = "random.shuffle is applied to %r, which is not the range to be permuted" % (lst,)
                return
            lst[:] = self.perms[key]

        def __getattr__(self, name):
            raise Unknown("random.%s is not modelled" % name)

    def formulas():
        yield 0, [], {}
        yield 0, [[]], {"description": "d"}
        yield 1, [[1], [-1]], {"description": "d", "transformation 1": "t"}
        yield 2, [[1, -2], [2], []], {"transformation 2": "t"}
        yield 3, [[1, 2], [-1, -2], [2, -1]], {"description": "d", "transformation 1": "a", "transformation 2": "b"}     # variable 3 in no clause
        yield 3, [[3, -1, 2]], {}
    n_checked = 0
    for N, clauses, header in formulas():
        M = len(clauses)

        def fresh():
            F0 = FakeCNF()
            F0.header, F0.n, F0.cl = dict(header), N, [list(c) for c in clauses]
            return F0
        idv, idc = list(range(1, N + 1)), list(range(M))
        vperm = idv[1:] + idv[:1]
        cperm = idc[1:] + idc[:1]
        sflip = [(-1) ** (i + 1) for i in range(N)]
        valid = {
            "polarity_flips": [("fixed", [1] * N), ("shuffle", [-1] * N if N else []), (list(sflip), sflip), (tuple(sflip), sflip)],
            "variables_permutation": [("fixed", idv), ("shuffle", idv[::-1]), (list(vperm), vperm), (tuple(vperm), vperm)],
            "clauses_permutation": [("fixed", idc), ("shuffle", idc[::-1]), (list(cperm), cperm)],
        }
        invalid = {"polarity_flips": [], "variables_permutation": [], "clauses_permutation": []}
        for v in itertools.product([-2, -1, 0, 1, 2], repeat=N):
            if not all(abs(x) == 1 for x in v):
                invalid["polarity_flips"].append(list(v))
        for v in itertools.product(range(0, N + 2), repeat=N):
            if sorted(v) != idv:
                invalid["variables_permutation"].append(list(v))
        for v in itertools.product(range(-1, M + 1), repeat=M):
            if sorted(v) != idc:
                invalid["clauses_permutation"].append(list(v))
        # wrong lengths: otherwise plausible vectors
        invalid["polarity_flips"] += [[1] * (N + 1), [-1] * (N + 2)] + ([[1] * (N - 1)] if N else [])
        invalid["variables_permutation"] += [list(range(1, N + 2)), list(range(1, N + 3))] + ([list(range(1, N))] if N else [])
        invalid["clauses_permutation"] += [list(range(M + 1)), list(range(M + 2))] + ([list(range(M - 1))] if M else [])

        def fold(pf, vp, cp):
            F0 = fresh()
            rnd = Script([-1] * N, {tuple(idv): idv[::-1], tuple(idc): idc[::-1]})
            f = Folder(env={}, fuel=200000)
            f.globals = {"CNF": FakeCNF, "copy": _copy.copy, "deepcopy": _copy.deepcopy, "random": rnd}
            out = f.call_function(fi.node, [F0, pf, vp, cp], {})
            return F0, out, rnd
        for (pf, flips), (vp, perm), (cp, cmap) in itertools.product(valid["polarity_flips"], valid["variables_permutation"], valid["clauses_permutation"]):
            what = "Shuffle(F, %r, %r, %r) on %d variables, clauses %s" % (pf, vp, cp, N, clauses)
            try:
                F0, out, rnd = fold(pf, vp, cp)
            except Raised as r:
                return False, "%s raises %s" % (what, r.cls)
            except Unknown as e:
                return None, "cannot fold Shuffle: %s" % e
            if rnd.bad:
                return False, "%s: %s" % (what, rnd.bad)
            if not isinstance(out, FakeCNF) or out is F0:
                return False, "%s does not return a new formula" % what
            if F0.cl != clauses or F0.header != header or F0.n != N:
                return False, "%s modifies its input" % what
            want = [None] * M
            for i, c in enumerate(clauses):
                want[cmap[i]] = sorted((1 if l > 0 else -1) * flips[abs(l) - 1] * perm[abs(l) - 1] for l in c)
            if [sorted(c) for c in out.cl] != want:
                return False, ("%s: the clauses are %s; with flips %s, variable images %s and clause i sent to position %s[i] they must be %s"
                               % (what, out.cl, flips, perm, cmap, want))
            if out.n != N:
                return False, "%s declares %d variables instead of %d" % (what, out.n, N)
            k = 1
            while "transformation %d" % k in header:
                k += 1
            extra = {kk: v for kk, v in out.header.items() if kk not in header}
            if sorted(extra) != ["transformation %d" % k]:
                return False, "%s: the header gains the entries %s; it must gain exactly 'transformation %d'" % (what, sorted(extra), k)
            for kk, v in header.items():
                if kk not in out.header or (out.header[kk] != v and kk != "description"):
                    return False, "%s: header entry %r of the input is lost or changed" % (what, kk)
            n_checked += 1
        for pname, idx in (("polarity_flips", 0), ("variables_permutation", 1), ("clauses_permutation", 2)):
            for j, v in enumerate(invalid[pname]):
                for wrap in ((list, tuple) if j % 7 == 0 else (list,)):
                    a = ["fixed", "fixed", "fixed"]
                    a[idx] = wrap(v)
                    what = "Shuffle(F, %r, %r, %r) on %d variables and %d clauses" % (a[0], a[1], a[2], N, M)
                    try:
                        fold(*a)
                    except Raised as r:
                        if r.cls != "ValueError":
                            return False, "%s raises %s: an argument that is not %s must be refused with ValueError" % (what, r.cls, pname)
                        n_checked += 1
                        continue
                    except Unknown as e:
                        return None, "cannot fold Shuffle: %s" % e
                    return False, "%s is accepted although %s=%r is not valid" % (what, pname, v)
    return True, "%d (formula, arguments) instances folded: result compared with the signed renaming / clause permutation, invalid arguments refused" % n_checked
