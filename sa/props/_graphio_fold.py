"""Bounded folding of the in-house graph readers and writers (kthlist, dimacs, matrix) of cnfgen/graphs.py over stand-in graphs and file
objects (C14): what is written for a graph is read back as the same graph (vertex count, left / right split, numbering, edges --
isolated vertices and more than nine vertices included); blank and comment lines do not matter; a damaged text is either refused with
ValueError or read as a graph, never another exception.  gml and dot go through networkx and are not folded."""
import itertools

from ..fold import Folder, Raised
from ..ql import Unknown
from .. import standins as S

GR = "cnfgen.graphs"


class TextOut:
    def __init__(self):
        self.parts = []

    def write(self, t):
        if not isinstance(t, str):
            raise TypeError
        self.parts.append(t)
        return len(t)

    def getvalue(self):
        return "".join(self.parts)


class TextIn:
    def __init__(self, text):
        self.lines = text.splitlines(True)
        self.name = "<text>"

    def readlines(self):
        rest, self.pos = self.lines[getattr(self, "pos", 0):], len(self.lines)
        return list(rest)

    def readline(self):
        pos = getattr(self, "pos", 0)
        if pos >= len(self.lines):
            return ""
        self.pos = pos + 1
        return self.lines[pos]

    def read(self):
        return "".join(self.lines)

    def __iter__(self):
        return iter(list(self.lines))


def _print(*a, **k):
    f = k.get("file")
    text = k.get("sep", " ").join(str(x) for x in a) + k.get("end", "\n")
    if f is None:
        return
    f.write(text)


def _globals():
    return {"Graph": S.Graph, "DirectedGraph": S.DirectedGraph, "BipartiteGraph": S.BipartiteGraph, "BaseBipartiteGraph": S.BaseBipartiteGraph,
            "StringIO": TextOut, "print": _print}


def _fold(prog, fname, args):
    fi = prog.func(GR, fname)
    f = Folder(env={}, fuel=400000)
    m = prog.module(GR)
    import ast
    f.module_functions = {n.name: n for n in m.tree.body if isinstance(n, ast.FunctionDef) and n.name.startswith(("_kthlist", "_read_", "_write_"))}
    f.globals = _globals()
    try:
        return ("value", f.call_function(fi.node, list(args), {}))
    except Raised as r:
        return ("raises", r.cls.split("(")[0])


def graphs(kind):
    if kind == "simple":
        yield S.Graph.make(0, [])
        yield S.Graph.make(3, [])
        yield S.Graph.make(4, [(1, 2), (2, 3), (1, 4)])
        yield S.Graph.make(12, [(1, 12), (10, 11), (2, 10), (3, 4), (9, 12)])
        yield S.Graph.make(5, [(4, 5)])                                     # isolated low vertices
    elif kind in ("digraph", "dag"):
        yield S.DirectedGraph.make(0, [])
        yield S.DirectedGraph.make(3, [(1, 2), (1, 3), (2, 3)])
        yield S.DirectedGraph.make(11, [(1, 11), (2, 10), (10, 11), (3, 4)])
        yield S.DirectedGraph.make(4, [])
        if kind == "digraph":
            yield S.DirectedGraph.make(3, [(3, 1), (1, 3), (2, 1)])
    else:
        yield S.BipartiteGraph.make(0, 0, [])
        yield S.BipartiteGraph.make(2, 3, [(1, 1), (1, 3), (2, 2)])
        yield S.BipartiteGraph.make(3, 2, [(1, 2)])                         # left vertices without edges
        yield S.BipartiteGraph.make(2, 11, [(1, 11), (2, 10), (1, 1)])
        yield S.BipartiteGraph.make(11, 2, [(11, 1), (10, 2), (1, 1)])


PAIRS = [("simple", "kthlist", "_write_graph_kthlist_nonbipartite", "_read_nonbipartite_kthlist", S.Graph),
         ("digraph", "kthlist", "_write_graph_kthlist_nonbipartite", "_read_nonbipartite_kthlist", S.DirectedGraph),
         ("simple", "dimacs", "_write_graph_dimacs_format", "_read_graph_dimacs_format", S.Graph),
         ("digraph", "dimacs", "_write_graph_dimacs_format", "_read_graph_dimacs_format", S.DirectedGraph),
         ("bipartite", "kthlist", "_write_graph_kthlist_bipartite", "_read_bipartite_kthlist", None),
         ("bipartite", "matrix", "_write_graph_matrix_format", "_read_graph_matrix_format", None)]


def _same(G, H):
    if type(G) is not type(H):
        return False
    if isinstance(G, S.BipartiteGraph):
        return (G.L, G.R) == (H.L, H.R) and G.edges() == H.edges()
    return G.n == H.n and sorted(G.edges()) == sorted(H.edges())


def _show(G):
    if isinstance(G, S.BipartiteGraph):
        return "bipartite (%d,%d) %s" % (G.L, G.R, G.edges())
    return "%s on %d vertices %s" % (type(G).__name__, G.n, G.edges()) if G is not None else "None"


def damaged(text):
    """variants of a valid text: (text, must_be_equal)"""
    lines = text.splitlines(True)
    out = [("\n" + text, True), (text + "\n\n", True), ("c a comment\n" + text, None), (text.replace("\n", "\n\n", 1), True)]
    for i in range(len(lines)):
        out.append(("".join(lines[:i] + lines[i + 1:]), None))                 # a line lost
        toks = lines[i].split()
        if toks:
            out.append(("".join(lines[:i] + [" ".join(toks[:-1]) + "\n"] + lines[i + 1:]), None))     # last token lost
            out.append(("".join(lines[:i] + [" ".join(toks[:-1] + ["x"]) + "\n"] + lines[i + 1:]), None))
            out.append(("".join(lines[:i] + [" ".join(toks + ["99"]) + "\n"] + lines[i + 1:]), None))
            out.append(("".join(lines[:i] + [lines[i]] * 2 + lines[i + 1:]), None))                    # a line twice
    out.append((text[:len(text) // 2], None))
    out.append(("", None))
    return out


def _verdict(prog):
    cnt = 0
    for kind, fmt, wname, rname, gclass in PAIRS:
        for G in graphs(kind):
            out = TextOut()
            what = "%s written in %s format" % (_show(G), fmt)
            w = _fold(prog, wname, [G, out])
            if w[0] != "value":
                return False, "%s: the writer raises %s" % (what, w[1])
            text = out.getvalue()
            r = _fold(prog, rname, [TextIn(text)] + ([gclass] if gclass else []))
            if r[0] != "value" or not _same(G, r[1]):
                return False, "%s gives the text %r, which is read back as %s" % (what, text, r[1] if r[0] != "value" else _show(r[1]))
            cnt += 1
            extra = []
            if fmt == "kthlist":
                # vertex lines must come in strictly increasing order: a repeated or out-of-order vertex line is refused (it would replace
                # or reorder an adjacency list that the text states once)
                ls = text.splitlines(True)
                vl = [i for i, l in enumerate(ls) if ":" in l]
                for a_, b_ in zip(vl, vl[1:]):
                    sw = list(ls)
                    sw[a_], sw[b_] = sw[b_], sw[a_]
                    extra.append(("".join(sw), "refused"))
                for a_ in vl:
                    extra.append(("".join(ls[:a_ + 1] + [ls[a_]] + ls[a_ + 1:]), "refused"))
            for bad, equal in damaged(text) + extra:
                r2 = _fold(prog, rname, [TextIn(bad)] + ([gclass] if gclass else []))
                if r2[0] == "raises" and r2[1] != "ValueError":
                    return False, "the %s reader of %s graphs ends in %s on the text %r; a damaged file must be refused with ValueError" % (fmt, kind, r2[1], bad)
                if equal == "refused" and r2 != ("raises", "ValueError"):
                    return False, "the %s reader of %s graphs accepts the text %r although a vertex line is repeated or out of order (read as %s)" % (
                        fmt, kind, bad, _show(r2[1]) if r2[0] == "value" else r2[1])
                if equal is True and (r2[0] != "value" or not _same(G, r2[1])):
                    return False, "the %s reader of %s graphs reads %r (blank lines added) as %s instead of %s" % (
                        fmt, kind, bad, r2[1] if r2[0] != "value" else _show(r2[1]), _show(G))
                if r2[0] == "value" and not isinstance(r2[1], (S.Graph, S.DirectedGraph, S.BipartiteGraph)):
                    return False, "the %s reader of %s graphs returns %r for the text %r" % (fmt, kind, r2[1], bad)
                cnt += 1
    return True, "%d (graph, format) round trips and damaged texts folded through the kthlist / dimacs / matrix writers and readers" % cnt


FUNCTIONS = {"_kthlist_parse", "_read_bipartite_kthlist", "_read_nonbipartite_kthlist", "_read_graph_dimacs_format", "_read_graph_matrix_format",
             "_write_graph_kthlist_nonbipartite", "_write_graph_kthlist_bipartite", "_write_graph_dimacs_format", "_write_graph_matrix_format"}
_V = {}


def verdict(prog):
    if id(prog) not in _V:
        try:
            _V[id(prog)] = _verdict(prog)
        except Unknown as e:
            _V[id(prog)] = (None, "cannot fold the graph readers / writers: %s" % e)
    return _V[id(prog)]
