"""C10 -- every formula mentions only variables it owns, and allocates them freshly."""
import ast

from ..loader import AnalysisError, walk_shallow
from ..cfg import CFG
from ..astutil import src, call_name, method_name, const, is_const, stmts_in
from ..provenance import FunctionProvenance, literal_kinds, NEW_GROUP, is_formula
from ..litarith import Ctx, sym_eval, prove_between
from ..ql import Poly, Unknown
from ..report import Result, Finding
from ._pitfall import analyse_shift

P = "C10"
VARS = "cnfgen.formula.variables"
BASE = {"cnfgen.formula.basecnf": "BaseCNF", "cnfgen.formula.baseopb": "BaseOPB"}


def F(rule, fi, construct, msg, node=None):
    return Finding(P, rule, fi, construct, msg, node=node)


def run(prog, tier):
    R = Result(P, "Induction over allocation / insertion operations.  NUMVAR-MONOTONE: the declared count is written only by "
               "BaseCNF/BaseOPB methods and only as 0 (constructor) or max(old, ..) (never lowered); COUNT-UPDATE: the checked "
               "insertion raises the count to the largest |literal|.  ALLOC-GUARD: _add_variable_group tests `first id <= count` "
               "(raise) before registering and raises the count to the last id; every new_* registers the group it constructed on "
               "every path and returns it.  GROUP-IDS/GROUP-SIZE: a group's ids are count+1..count+N with N the size the subclass "
               "computes for its own index set; FIRST-LAST-ID: forward index maps hit the first/last id (polynomial check).  "
               "LIT-PROVENANCE: at every clause / constraint insertion in families, helpers and the mapping builders each literal "
               "is the result of calling a group of the same formula (or its negation / iteration / forbid / to_dict), never integer "
               "arithmetic -- except sites justified by a polynomial range proof (COPY-RANGE) or the declared-range rule for the random "
               "formulas.  Freshness follows: groups start above the count, the count dominates every mentioned variable.")
    R.trust("range(a, b) enumerates a..b-1; max() returns its largest argument",
            "TseitinFormula(graph) declares exactly one variable per edge of graph, in the order of new_graph_edges(graph)")
    from ._shared import merge_filtered, group_semantics
    R0 = R
    confirmed = group_semantics(R0, prog, P)
    R = Result(P, "")
    check_numvar(R, prog)
    check_check_first(R, prog)
    check_alloc_guard(R, prog)
    check_group_ids(R, prog)
    check_provenance(R, prog)
    check_declared_range(R, prog)
    merge_filtered(R0, R, confirmed)
    R = R0
    from ._shared import check_no_shared_state
    check_no_shared_state(R, prog, P, ['cnfgen.formula'], 120)
    from ._families import borrow as _borrow
    from . import c09 as _c09
    from . import c17 as _c17, c06 as _c06
    _borrow(R, P, "CLI", prog, lambda r, p: _c17.check_action_defaults(r, p, _c17.collect_helpers(p)), floor=1)
    _borrow(R, P, "DIMACS", prog, _c06.check_gates, floor=3)
    # the declared count of a transformed formula is the documented one (C05: DECLARED-COUNT and the folded COMPOSITION)
    from . import c05 as _c05

    def _counts(r, p):
        T_ = Result(P, "")
        _c05.shape_rules(T_, p)
        _c05.check_composition(r, p, T_)
    _borrow(R, P, "TRANSFORM", prog, _counts, floor=10, only=lambda t: True)
    _borrow(R, P, "SHUFFLE", prog, lambda r, p: _c09.check_table(r, p, p.func(_c09.MOD, "Shuffle")), floor=1, only=lambda t: "declares" in t or "N variables" in t or "update_variable_number" in t)
    return R


# ---------------------------------------------------------------------------- count
def check_numvar(R, prog):
    """shape rules on the counters; for the methods whose meaning is confirmed by folding (semantic_counts) a shape the rule does not
    recognise is undecided, and a folded mismatch is a finding of its own"""
    T = Result(P, "")
    _shape_check_numvar(T, prog)
    sem = semantic_counts(prog)
    confirmed = {k for k, (v, d) in sem.items() if v is True}
    for o in T.obligations:
        if o["status"] == "discharged":
            R.ok(o["rule"], o["instance"], o["where"], nontrivial=o["nontrivial"])
    R.floors.extend(T.floors)
    for u in T.unproven:
        R.unknown(u["rule"], u["instance"], u["where"], u["why"])
    for f in T.findings:
        fkey = "%s:%s" % (f.module, f.function)
        if fkey in confirmed:
            R.unknown(f.rule, f.construct, fkey, "shape not recognised (%s); the method's meaning was confirmed by folding" % f.message[:100])
        else:
            R.bad(f)
    for k, (v, d) in sorted(sem.items()):
        if v is True:
            R.ok("COUNT-SEMANTICS", "%s: %s" % (k.split(":")[1], d), k)
        elif v is False:
            mod, q = k.split(":")
            R.bad(F("COUNT-SEMANTICS", prog.func(mod, q), q, d))
        else:
            R.unknown("COUNT-SEMANTICS", k, k, d)


def _shape_check_numvar(R, prog):
    sites = 0
    for fi in prog.all_functions():
        for s in stmts_in(fi.node):
            targets = []
            if isinstance(s, ast.Assign):
                for t in s.targets:
                    targets += list(t.elts) if isinstance(t, (ast.Tuple, ast.List)) else [t]
            elif isinstance(s, (ast.AugAssign, ast.AnnAssign)):
                targets = [s.target]
            for t in targets:
                if not (isinstance(t, ast.Attribute) and t.attr == "_numvar"):
                    continue
                sites += 1
                # the two base classes and the classes they inherit from (a counter mixin pulled up out of them) own the field
                owners = set()
                for bm, bn in BASE.items():
                    try:
                        owners |= {(c.module.name, c.name) for c in prog.mro(prog.cls(bm, bn))}
                    except AnalysisError:
                        owners.add((bm, bn))
                owner_ok = fi.cls is not None and (fi.cls.module.name, fi.cls.name) in owners and \
                    isinstance(t.value, ast.Name) and t.value.id == "self"
                if not owner_ok:
                    R.bad(F("NUMVAR-MONOTONE", fi, "write to ._numvar outside BaseCNF/BaseOPB",
                            "the declared variable count is written outside the two base classes (%s)" % src(s), s))
                    continue
                v = s.value if isinstance(s, (ast.Assign, ast.AnnAssign)) else None
                ok = False
                if fi.name == "__init__" and v is not None and is_const(v, 0):
                    ok = True
                elif v is not None and monotone_expr(fi, v):
                    ok = True
                inst = "%s.%s: _numvar = %s" % (fi.cls.name, fi.name, src(v) if v is not None else src(s))
                if ok:
                    R.ok("NUMVAR-MONOTONE", inst, fi.key)
                else:
                    R.bad(F("NUMVAR-MONOTONE", fi, "%s.%s lowers/overwrites the count" % (fi.cls.name, fi.name),
                            "the count may only be set to 0 in the constructor or raised with max(self._numvar, ..); "
                            "found `%s`" % src(s), s))
    R.floor("NUMVAR-MONOTONE", sites, 6)
    # checked insertion raises the count to the largest |literal|
    fi = prog.func("cnfgen.formula.basecnf", "BaseCNF._check_and_update")
    d = fi.params[1]
    good = False
    for s in stmts_in(fi.node):
        if isinstance(s, ast.Assign) and src(s.targets[0]) == "self._numvar" and isinstance(s.value, ast.Call) and call_name(s.value) == "max":
            env = {}
            for x in stmts_in(fi.node):
                if isinstance(x, ast.Assign) and isinstance(x.targets[0], ast.Name):
                    env[x.targets[0].id] = src(x.value)
            args = {env.get(src(a), src(a)) if isinstance(a, ast.Name) else
                    ("-" + env.get(src(a.operand), src(a.operand)) if isinstance(a, ast.UnaryOp) and isinstance(a.op, ast.USub) else src(a))
                    for a in s.value.args}
            good = {"self._numvar", "max(%s)" % d, "-min(%s)" % d} <= args
    zero = any(isinstance(s, ast.If) and src(s.test) == "0 in %s" % d and s.body and isinstance(s.body[0], ast.Raise) for s in stmts_in(fi.node))
    if good and zero:
        R.ok("COUNT-UPDATE", "BaseCNF._check_and_update: count = max(count, max(lits), -min(lits)); literal 0 refused", fi.key)
    else:
        R.bad(F("COUNT-UPDATE", fi, "BaseCNF._check_and_update", "a checked insertion must refuse literal 0 and raise the count to "
                "max(count, largest literal, -smallest literal) so that negative literals count too"))
    fi = prog.func("cnfgen.formula.baseopb", "BaseOPB._check_and_update")
    txt = {src(s) for s in stmts_in(fi.node)}
    good = any("max(abs(l), maxv)" in t or "max(maxv, abs(l))" in t for t in txt) and "maxv = self._numvar" in txt and "self._numvar = maxv" in txt
    if good:
        R.ok("COUNT-UPDATE", "BaseOPB._check_and_update: count = max(count, |l| for all terms)", fi.key)
    else:
        R.bad(F("COUNT-UPDATE", fi, "BaseOPB._check_and_update", "a checked insertion must raise the count to the largest |literal| of the constraint"))
    # add_clause(check=True) reaches _check_and_update with the stored data
    for mod, cls in BASE.items():
        fi = prog.func(mod, cls + ".add_clause")
        cfg = CFG(fi.node)
        calls = [s for s in stmts_in(fi.node) if isinstance(s, ast.Expr) and isinstance(s.value, ast.Call) and call_name(s.value) == "self._check_and_update"]
        ok = False
        for s in calls:
            for g in stmts_in(fi.node):
                if isinstance(g, ast.If) and s in g.body and src(g.test) == "check" and not g.orelse:
                    ok = True
        # BaseCNF returns early for the empty clause (nothing to check) -- fine
        if ok:
            R.ok("COUNT-UPDATE", "%s.add_clause: `if check:` -> _check_and_update(stored literals)" % cls, fi.key)
        else:
            R.bad(F("COUNT-UPDATE", fi, "%s.add_clause check" % cls, "with check=True the inserted literals must go through _check_and_update"))
        fu = prog.func(mod, cls + ".update_variable_number")
        good = any(isinstance(s, ast.Assign) and src(s.targets[0]) == "self._numvar" and src(s.value) in
                   ("max(self._numvar, %s)" % fu.params[1], "max(%s, self._numvar)" % fu.params[1]) for s in stmts_in(fu.node))
        if good:
            R.ok("NUMVAR-MONOTONE", "%s.update_variable_number only raises the count" % cls, fu.key)
        else:
            R.bad(F("NUMVAR-MONOTONE", fu, "%s.update_variable_number" % cls, "must be `self._numvar = max(self._numvar, new_value)`"))


def check_check_first(R, prog):
    """CHECK-FIRST: in every builder with a ``check`` flag, the block ``if check: _check_and_update(literals)`` dominates every
    insertion the builder makes with checking switched off -- otherwise check=True would not validate / count those literals"""
    n = 0
    for mod, cls in (("cnfgen.formula.linear", "CNFLinear"), ("cnfgen.formula.baseopb", "BaseOPB")):
        ci = prog.cls(mod, cls)
        for name, fi in sorted(ci.methods.items()):
            if "check" not in fi.params:
                continue
            stmts = stmts_in(fi.node)
            unchecked = []
            for s in stmts:
                for c in [x for x in ast.walk(s) if isinstance(x, ast.Call)] if not isinstance(s, (ast.If, ast.For, ast.While, ast.Try, ast.With)) else []:
                    if isinstance(c.func, ast.Attribute) and src(c.func.value) == "self" and \
                            any(k.arg == "check" and is_const(k.value, False) for k in c.keywords):
                        unchecked.append((s, c))
            if not unchecked:
                continue
            n += 1
            cfg = CFG(fi.node)
            guards = [s for s in stmts if isinstance(s, ast.If) and src(s.test) == "check" and
                      any(isinstance(x, ast.Call) and call_name(x) == "self._check_and_update" for b in s.body for x in ast.walk(b))]
            bad = None
            for s, c in unchecked:
                if not any(cfg.dominates(cfg.node_of(g), cfg.node_of(s)) for g in guards):
                    bad = (s, c)
                    break
            if bad:
                R.bad(F("CHECK-FIRST", fi, "%s.%s unchecked insertion before the check" % (cls, name),
                        "`%s` inserts with check=False on a path that has not passed `if check: self._check_and_update(..)`: with "
                        "check=True these literals are neither validated nor counted, so the formula can mention variables above its "
                        "declared count" % src(bad[1])[:70], bad[0]))
            else:
                R.ok("CHECK-FIRST", "%s.%s: %d unchecked insertions all dominated by the `if check:` block" % (cls, name, len(unchecked)), fi.key)
    R.floor("CHECK-FIRST", n, 3)


def monotone_expr(fi, v):
    """max(.., self._numvar, ..) or a local that starts as self._numvar and is only raised with max(.., local)"""
    if isinstance(v, ast.Call) and call_name(v) == "max" and any(src(a) == "self._numvar" for a in v.args):
        return True
    if isinstance(v, ast.Name):
        assigns = [s for s in stmts_in(fi.node) if isinstance(s, ast.Assign) and len(s.targets) == 1 and src(s.targets[0]) == v.id]
        if not assigns:
            return False
        init = [s for s in assigns if src(s.value) == "self._numvar"]
        rest = [s for s in assigns if s not in init]
        return len(init) == 1 and all(isinstance(s.value, ast.Call) and call_name(s.value) == "max" and
                                      any(src(a) == v.id for a in s.value.args) for s in rest)
    return False


# ---------------------------------------------------------------------------- allocation
def semantic_add_variable_group(prog):
    """fold VariablesManager._add_variable_group over stand-in managers: a group that starts at or below the current count is refused
    with ValueError and leaves everything as it was; any other group is registered (the same object, appended) and the count becomes
    max(count, last id); an empty group is registered and changes no count"""
    import types
    from ..fold import Folder, Raised
    fi = prog.func(VARS, "VariablesManager._add_variable_group")

    class Fm:
        def __init__(self, n):
            self.n = n

        def number_of_variables(self):
            return self.n

        def update_variable_number(self, v):
            self.n = max(self.n, v)
    cnt = 0
    for n in (0, 1, 4):
        for first in range(0, n + 4):
            for size in (0, 1, 3):
                vg = list(range(first, first + size))
                old = ["g0"]
                obj = types.SimpleNamespace(_groups=list(old), _formula=Fm(n))
                what = "_add_variable_group(ids %s) on a formula with %d variables" % (vg, n)
                f = Folder(env={})
                try:
                    f.call_function(fi.node, [obj, vg], {})
                    outcome = "ok"
                except Raised as r:
                    outcome = r.cls.split("(")[0]
                except Unknown as e:
                    return None, "cannot fold _add_variable_group: %s" % e
                if size and first <= n:
                    if outcome != "ValueError":
                        return False, "%s is accepted (%s): identifiers already in use would be handed out twice" % (what, outcome)
                    if obj._groups != old or obj._formula.n != n:
                        return False, "%s is refused but leaves groups %s / count %d" % (what, obj._groups, obj._formula.n)
                else:
                    if outcome != "ok":
                        return False, "%s raises %s" % (what, outcome)
                    if len(obj._groups) != 2 or obj._groups[0] != "g0" or obj._groups[1] is not vg:
                        return False, "%s leaves the group list %s; the group itself must be appended once" % (what, obj._groups)
                    want = max(n, vg[-1]) if size else n
                    if obj._formula.n != want:
                        return False, "%s leaves the count at %d; %d expected" % (what, obj._formula.n, want)
                cnt += 1
    return True, "%d (count, group) instances folded" % cnt


def check_alloc_guard(R, prog):
    from ._shared import with_semantics
    fi = prog.func(VARS, "VariablesManager._add_variable_group")
    with_semantics(R, R.prop, lambda T: _shape_alloc_guard(T, prog), semantic_add_variable_group(prog),
                   "_add_variable_group refuses overlapping identifiers and raises the count to the last id", fi, rule="ALLOC-GUARD",
                   scope=lambda f: (f.function or "").endswith("_add_variable_group"))


def _shape_alloc_guard(R, prog):
    fi = prog.func(VARS, "VariablesManager._add_variable_group")
    vg = fi.params[1]
    cfg = CFG(fi.node)
    stmts = stmts_in(fi.node)
    env = {}
    for s in stmts:
        if isinstance(s, ast.Assign):
            t, v = s.targets[0], s.value
            if isinstance(t, ast.Tuple) and isinstance(v, ast.Tuple):
                for a, b in zip(t.elts, v.elts):
                    env[src(a)] = src(b)
            elif isinstance(t, ast.Name):
                env[t.id] = src(v)
    guard = None
    for s in stmts:
        if isinstance(s, ast.If) and s.body and isinstance(s.body[0], ast.Raise) and isinstance(s.test, ast.Compare) and len(s.test.ops) == 1:
            l, r = src(s.test.left), src(s.test.comparators[0])
            l, r = env.get(l, l), env.get(r, r)
            if l == "%s[0]" % vg and isinstance(s.test.ops[0], ast.LtE) and r == "self._formula.number_of_variables()":
                guard = s
            if r == "%s[0]" % vg and isinstance(s.test.ops[0], ast.GtE) and l == "self._formula.number_of_variables()":
                guard = s
    if guard is None:
        R.bad(F("ALLOC-GUARD", fi, "overlap test", "no `if <first id> <= self._formula.number_of_variables(): raise` found: a group could be "
                "registered on identifiers that are already in use"))
        return
    gn = cfg.node_of(guard)
    upd = [s for s in stmts if isinstance(s, ast.Expr) and isinstance(s.value, ast.Call) and
           call_name(s.value) == "self._formula.update_variable_number"]
    good_upd = len(upd) == 1 and env.get(src(upd[0].value.args[0]), src(upd[0].value.args[0])) == "%s[-1]" % vg
    apps = [s for s in stmts if isinstance(s, ast.Expr) and isinstance(s.value, ast.Call) and call_name(s.value) == "self._groups.append"]
    if good_upd and cfg.edge_dominates(gn, False, cfg.node_of(upd[0])):
        R.ok("ALLOC-GUARD", "_add_variable_group: overlap test dominates update_variable_number(last id)", fi.key)
    else:
        R.bad(F("ALLOC-GUARD", fi, "count raised to last id", "after the overlap test the count must be raised to the group's last id (vg[-1])"))
    nonempty_apps = []
    for a in apps:
        # the append for empty groups sits under `if len(vg) == 0`
        under_empty = any(isinstance(g, ast.If) and a in g.body and src(g.test) in ("len(%s) == 0" % vg, "not %s" % vg, "not len(%s)" % vg) for g in stmts)
        if not under_empty:
            nonempty_apps.append(a)
    if len(nonempty_apps) == 1 and cfg.edge_dominates(gn, False, cfg.node_of(nonempty_apps[0])):
        R.ok("ALLOC-GUARD", "_add_variable_group: overlap test dominates registration of a non-empty group", fi.key)
    else:
        R.bad(F("ALLOC-GUARD", fi, "registration before test", "a non-empty group must be registered only after the overlap test passed"))
    # every new_* : construct -> _add_variable_group(newgroup) -> return
    ci = prog.cls(VARS, "VariablesManager")
    n = 0
    for name, m in sorted(ci.methods.items()):
        if not name.startswith("new_"):
            continue
        n += 1
        mcfg = CFG(m.node)
        ms = stmts_in(m.node)
        ctor = [s for s in ms if isinstance(s, ast.Assign) and isinstance(s.targets[0], ast.Name) and isinstance(s.value, ast.Call)
                and isinstance(prog.resolve_global(m.module, call_name(s.value) or ""), type(ci))]
        ctor = [s for s in ctor if prog.is_subclass(prog.resolve_global(m.module, call_name(s.value)), prog.cls(VARS, "BaseVariableGroup"))]
        rets = [s for s in ms if isinstance(s, ast.Return)]
        if len(ctor) != 1 or not rets:
            R.bad(F("ALLOC-GUARD", m, "VariablesManager.%s shape" % name, "expected: construct one group, register it, return it"))
            continue
        g = ctor[0].targets[0].id
        first_arg_ok = ctor[0].value.args and src(ctor[0].value.args[0]) == "self._formula"
        reg = [s for s in ms if isinstance(s, ast.Expr) and isinstance(s.value, ast.Call) and call_name(s.value) == "self._add_variable_group"
               and s.value.args and src(s.value.args[0]) == g]
        ok = first_arg_ok and len(reg) == 1 and all(mcfg.dominates(mcfg.node_of(reg[0]), mcfg.node_of(r)) for r in rets) and \
            mcfg.dominates(mcfg.node_of(ctor[0]), mcfg.node_of(reg[0])) and \
            all(r.value is not None and src(r.value) in (g, g + "()") for r in rets)
        if ok:
            R.ok("ALLOC-GUARD", "VariablesManager.%s: group built on self._formula, registered before every return, returned" % name, m.key)
        else:
            R.bad(F("ALLOC-GUARD", m, "VariablesManager.%s registration" % name,
                    "the group constructed here must be created on self._formula, passed to _add_variable_group on every path "
                    "before returning, and be the value returned"))
    R.floor("ALLOC-GUARD new_*", n, 12)


def check_group_ids(R, prog):
    base = prog.func(VARS, "BaseVariableGroup.__init__")
    fparam, nparam = base.params[1], base.params[2]
    ok = False
    for s in stmts_in(base.node):
        if isinstance(s, ast.Assign) and src(s.targets[0]) == "self.ids" and isinstance(s.value, ast.Call) and call_name(s.value) == "range" \
                and len(s.value.args) == 2:
            ctx = Ctx(env={"%s.number_of_variables()" % fparam: Poly.sym("V")})
            try:
                a, b = sym_eval(s.value.args[0], ctx), sym_eval(s.value.args[1], ctx)
                ok = a == Poly.sym("V") + 1 and b == Poly.sym("V") + Poly.sym(nparam) + 1
            except Unknown:
                ok = False
    if ok:
        R.ok("GROUP-IDS", "BaseVariableGroup: ids = range(count+1, count+N+1) read at construction", base.key)
    else:
        R.bad(F("GROUP-IDS", base, "BaseVariableGroup.ids", "a group's identifiers must be count+1 .. count+N with the count read when the group is constructed"))
    # size handed to the base constructor by each concrete group
    want = {
        "SingletonVariableGroup": ["1"],
        "BlockOfVariables": ["self.N"],
        "WordOfIndicesVariables": ["len(self.vid2seq)"],
        "BipartiteEdgesVariables": ["G.number_of_edges()"],
        "DiGraphEdgesVariables": ["B.number_of_edges()"],
        "GraphEdgesVariables": ["B.number_of_edges()"],
        "BinaryMappingVariables": ["nvar", "n * self.bitlength", "self.bitlength * n"],
    }
    for cname, sizes in sorted(want.items()):
        fi = prog.func(VARS, cname + ".__init__")
        calls = [c for s in stmts_in(fi.node) for c in ast.walk(s) if isinstance(c, ast.Call) and call_name(c) == "BaseVariableGroup.__init__"]
        if len(calls) == 1 and len(calls[0].args) >= 3 and src(calls[0].args[1]) == fi.params[1] and src(calls[0].args[2]) in sizes:
            R.ok("GROUP-SIZE", "%s reserves %s ids on its formula argument" % (cname, src(calls[0].args[2])), fi.key)
        else:
            R.bad(F("GROUP-SIZE", fi, "%s size" % cname, "the group must reserve exactly its number of indices (%s) on the formula it was given"
                    % " / ".join(sizes)))
    # the size expressions themselves
    fi = prog.func(VARS, "BinaryMappingVariables.__init__")
    env = {src(s.targets[0]): s.value for s in stmts_in(fi.node) if isinstance(s, ast.Assign) and len(s.targets) == 1}
    nv = env.get("nvar")
    if nv is not None and src(nv) in ("n * self.bitlength", "self.bitlength * n"):
        R.ok("GROUP-SIZE", "BinaryMappingVariables: nvar = n * bitlength", fi.key)
    elif nv is not None:
        R.bad(F("GROUP-SIZE", fi, "BinaryMappingVariables nvar", "one block of bitlength bits per domain element: nvar = n * bitlength; found %s" % src(nv)))
    # the number of bits per element: the least k with m <= 2**k, for every range size (constant folding of the expression)
    bl = env.get("self.bitlength")
    mparam = fi.params[3] if len(fi.params) > 3 else "m"
    if bl is None:
        raise AnalysisError("BinaryMappingVariables.__init__: assignment to self.bitlength not found")
    wrong = None
    try:
        for m in list(range(0, 1030)) + [2 ** 12, 2 ** 12 + 1, 2 ** 16 - 1, 2 ** 16, 2 ** 16 + 1]:
            k = 0
            while 2 ** k < m:
                k += 1
            got = fold(bl, {mparam: m})
            if got != k:
                wrong = (m, got, k)
                break
    except Unknown as e:
        R.unknown("GROUP-SIZE", "BinaryMappingVariables bitlength", fi.key, str(e))
        wrong = False
    if wrong is None:
        R.ok("GROUP-SIZE", "BinaryMappingVariables: bitlength = least k with m <= 2**k for every m in 0..1029 and around 2**12, 2**16", fi.key)
    elif wrong:
        R.bad(F("GROUP-SIZE", fi, "BinaryMappingVariables bitlength",
                "for a range of %d elements `%s` gives %r bits, the documented number (least k with m <= 2**k) is %d: the group owns another "
                "number of variables than promised" % (wrong[0], src(bl), wrong[1], wrong[2])))
    # FIRST-LAST-ID
    first_last(R, prog)


def first_last(R, prog):
    V = Poly.sym("V")
    # BinaryMapping:  id(i, b) = i*B - b + id_offset ;  id_offset = V
    ci = prog.cls(VARS, "BinaryMappingVariables")
    init, fwd = ci.methods["__init__"], ci.methods["_unsafe_index_to_lit"]
    env = {src(s.targets[0]): s.value for s in stmts_in(init.node) if isinstance(s, ast.Assign) and len(s.targets) == 1}
    try:
        off = sym_eval(env["self.id_offset"], Ctx(env={"%s.number_of_variables()" % init.params[1]: V}))
        ret = [s.value for s in stmts_in(fwd.node) if isinstance(s, ast.Return)][0]
        # i, b = index
        p = sym_eval(ret, Ctx(env={"self.bitlength": Poly.sym("B"), "self.id_offset": off}))
        first = p.subs({"i": Poly.const(1), "b": Poly.sym("B") - 1})
        last = p.subs({"i": Poly.sym("n"), "b": Poly.const(0)})
        if first == V + 1 and last == V + Poly.sym("n") * Poly.sym("B"):
            R.ok("FIRST-LAST-ID", "BinaryMappingVariables: (1,B-1) -> count+1 and (n,0) -> count+n*B", fwd.key)
        else:
            R.bad(F("FIRST-LAST-ID", fwd, "BinaryMappingVariables forward map",
                    "first index maps to %s (want V+1), last to %s (want V+n*B)" % (first, last)))
    except (Unknown, KeyError, IndexError) as e:
        R.unknown("FIRST-LAST-ID", "BinaryMappingVariables", fwd.key, str(e))
    # Block: offset = V+1, id = offset + sum((i-1)*w): first index (all ones) -> offset
    ci = prog.cls(VARS, "BlockOfVariables")
    init, fwd = ci.methods["__init__"], ci.methods["_unsafe_index_to_lit"]
    env = {src(s.targets[0]): s.value for s in stmts_in(init.node) if isinstance(s, ast.Assign) and len(s.targets) == 1}
    try:
        off = sym_eval(env["self.offset"], Ctx(env={"%s.number_of_variables()" % init.params[1]: V}))
        fenv = {src(s.targets[0]): s.value for s in stmts_in(fwd.node) if isinstance(s, ast.Assign) and len(s.targets) == 1}
        ret = [s.value for s in stmts_in(fwd.node) if isinstance(s, ast.Return)][0]
        rel = fenv.get("relative")
        good = False
        if rel is not None and isinstance(rel, ast.Call) and call_name(rel) == "sum" and isinstance(rel.args[0], ast.GeneratorExp):
            g = rel.args[0]
            tnames = [src(t) for t in g.generators[0].target.elts]
            zargs = [src(a) for a in g.generators[0].iter.args] if isinstance(g.generators[0].iter, ast.Call) else []
            elt = sym_eval(g.elt, Ctx())
            i_sym = tnames[zargs.index(fwd.params[1])] if fwd.params[1] in zargs else None
            w_sym = tnames[zargs.index("self.weights")] if "self.weights" in zargs else None
            if i_sym and w_sym:
                at1 = elt.subs({i_sym: Poly.const(1)})
                total = sym_eval(ret, Ctx(env={"relative": Poly.const(0), "self.offset": off}))
                good = at1.is_zero() and total == V + 1 and elt == (Poly.sym(i_sym) - 1) * Poly.sym(w_sym)
        if good:
            R.ok("FIRST-LAST-ID", "BlockOfVariables: index (1,..,1) -> count+1; id = offset + sum((i-1)*weight)", fwd.key)
        else:
            R.bad(F("FIRST-LAST-ID", fwd, "BlockOfVariables forward map", "expected offset + sum((i-1)*w) with offset = count+1 so that the first "
                    "index gets the first id"))
        # weights are cumulative products from the last range; N is the total product
        shape = "weights = [1]" in {src(s) for s in stmts_in(init.node)} and \
            any(isinstance(s, ast.For) and src(s.iter) in ("ranges[::-1]", "reversed(ranges)") and len(s.body) == 1 and
                src(s.body[0]) == "weights.append(weights[-1] * %s)" % src(s.target) for s in stmts_in(init.node)) and \
            src(env.get("self.N", ast.Constant(0))) == "weights.pop()" and src(env.get("self.weights", ast.Constant(0))) == "weights[::-1]"
        if shape:
            R.ok("FIRST-LAST-ID", "BlockOfVariables: weights are suffix products of the ranges, N their total product", init.key)
        else:
            R.unknown("FIRST-LAST-ID", "BlockOfVariables weights", init.key, "mixed-radix weights written in an unrecognised way")
        bwd = ci.methods["to_index"]
        btxt = {src(s) for s in stmts_in(bwd.node)}
        if "residue = var - self.offset" in btxt and any("residue // w + 1" in t for t in btxt) and "residue = residue % w" in btxt:
            R.ok("FIRST-LAST-ID", "BlockOfVariables.to_index inverts with the same offset (residue = var - offset; digit = residue//w + 1)", bwd.key)
        else:
            R.bad(F("FIRST-LAST-ID", bwd, "BlockOfVariables backward map", "to_index must subtract the same offset and use digit = residue//w + 1"))
    except (Unknown, KeyError, IndexError, ValueError, AttributeError) as e:
        R.unknown("FIRST-LAST-ID", "BlockOfVariables", fwd.key, str(e))
    # WordOfIndices: offset = V ; ids offset+1.. ; backward vid2seq[var - offset - 1]
    ci = prog.cls(VARS, "WordOfIndicesVariables")
    init, bwd = ci.methods["__init__"], ci.methods["to_index"]
    txt = [src(s) for s in stmts_in(init.node)]
    fwd_ok = "self.offset = %s.number_of_variables()" % init.params[1] in txt and "vid = self.offset" in txt and \
        any(isinstance(s, ast.For) and [src(x) for x in s.body][:1] == ["vid += 1"] and
            "self.seq2vid[%s] = vid" % src(s.target) in [src(x) for x in s.body] and
            "self.vid2seq.append(%s)" % src(s.target) in [src(x) for x in s.body] for s in stmts_in(init.node))
    bwd_ok = any(src(s) == "return self.vid2seq[var - self.offset - 1]" for s in stmts_in(bwd.node))
    if fwd_ok and bwd_ok:
        R.ok("FIRST-LAST-ID", "WordOfIndicesVariables: k-th sequence <-> id count+k in both tables", init.key)
    else:
        R.bad(F("FIRST-LAST-ID", init if not fwd_ok else bwd, "WordOfIndicesVariables id tables",
                "the k-th index sequence must get id count+k (increment before assignment) and to_index must read vid2seq[var-count-1]"))
    # BipartiteEdges: offset[u] = first id of u's row; id = offset[u] + position in row; startID = V+1
    ci = prog.cls(VARS, "BipartiteEdgesVariables")
    init, fwd, bwd = ci.methods["__init__"], ci.methods["_unsafe_index_to_lit"], ci.methods["to_index"]
    txt = [src(s) for s in stmts_in(init.node)]
    ok = "startID = %s.number_of_variables() + 1" % init.params[1] in txt and "offset = [None, startID]" in txt and \
        any(isinstance(s, ast.For) and src(s.iter) == "U" and "offset.append(offset[-1] + d)" in [src(x) for x in s.body]
            and "d = G.right_degree(%s)" % src(s.target) in [src(x) for x in s.body] for s in stmts_in(init.node)) and "offset.pop()" in txt
    f_ok = any(src(s) == "return self.offset[index[0]] + vidx" for s in stmts_in(fwd.node)) and \
        any(src(s) == "vidx = self.G.right_neighbors(index[0]).index(index[1])" for s in stmts_in(fwd.node))
    b_ok = {"u = bisect_right(self.offset, var) - 1", "vidx = var - self.offset[u]", "v = self.G.right_neighbors(u)[vidx]"} <= {src(s) for s in stmts_in(bwd.node)}
    if ok and f_ok and b_ok:
        R.ok("FIRST-LAST-ID", "BipartiteEdgesVariables: row offsets are prefix sums of right degrees from count+1; forward/backward use the same table", init.key)
    else:
        R.bad(F("FIRST-LAST-ID", init if not ok else (fwd if not f_ok else bwd), "BipartiteEdgesVariables offsets",
                "offset[u] must be count+1 plus the degrees of the earlier left vertices; id = offset[u] + position of v in u's row; "
                "to_index must invert with the same table"))


# ---------------------------------------------------------------------------- provenance
def family_functions(prog):
    for mname, m in sorted(prog.modules.items()):
        if mname.startswith("cnfgen.families."):
            for q, fi in sorted(m.functions.items()):
                if "<locals>" not in q:
                    yield fi, {}
        elif mname.startswith("cnfgen.clihelpers."):
            for q, fi in sorted(m.functions.items()):
                if q.endswith(".build_formula"):
                    yield fi, {"formula_class": "FCLASS"}
    ci = prog.cls(VARS, "VariablesManager")
    for name, fi in sorted(ci.methods.items()):
        if name.startswith("force_"):
            yield fi, {fi.params[1]: "GROUP", "__self_formula__": True}


def check_provenance(R, prog):
    pit = None
    nsinks = 0
    for fi, seed in family_functions(prog):
        seed = dict(seed)
        selfform = seed.pop("__self_formula__", False)
        fp = FunctionProvenance(prog, fi, seed=seed)
        if selfform:
            # F = self._formula
            for s in stmts_in(fi.node):
                if isinstance(s, ast.Assign) and src(s.value) == "self._formula" and isinstance(s.targets[0], ast.Name):
                    seed[s.targets[0].id] = ("FORMULA", "self")
            fp = FunctionProvenance(prog, fi, seed=seed)
        sinks = [(fi, x) for x in fp.sinks]
        for name, sub in fp.sub.items():
            sinks += [(sub.fi, x) for x in sub.sinks]
        for owner, (c, m, role, k, rk) in sinks:
            if not (is_formula(rk) or selfform):
                continue
            if is_formula(rk) and rk[1] in ("nested-default",):
                continue
            nsinks += 1
            lk = literal_kinds(role, k)
            inst = "%s: %s(%s)" % (fi.qualname, m, src(c.args[0])[:60])
            if lk in ("LIT", "BOT"):
                R.ok("LIT-PROVENANCE", inst, owner.key, nontrivial=lk == "LIT")
            elif lk == "ARITH":
                if fi.module.name == "cnfgen.families.pitfall":
                    pit = pit or analyse_shift(prog)
                    if pit["sign_equiv"] and pit["range"] and pit["same_graph"]:
                        R.ok("LIT-PROVENANCE", inst + " [arithmetic justified by COPY-RANGE: %s]" % pit["range_detail"], owner.key)
                    elif pit["sign_equiv"] is False or pit["range"] is False:
                        R.bad(F("LIT-PROVENANCE", owner, "%s arithmetic literal" % fi.qualname,
                                "a literal computed by integer arithmetic is inserted and the range proof fails: %s"
                                % (pit["range_detail"] if pit["range"] is False else pit["sign_detail"]), c))
                    else:
                        R.unknown("LIT-PROVENANCE", inst, owner.key, "arithmetic literal, range proof inconclusive")
                else:
                    R.bad(F("LIT-PROVENANCE", owner, "%s arithmetic literal in %s" % (fi.qualname, m),
                            "a literal obtained by integer arithmetic on a variable id (not by calling a variable group) is inserted: "
                            "%s; nothing ties it to the variables this formula owns" % src(c.args[0])[:80], c))
            elif lk == "INT":
                R.bad(F("LIT-PROVENANCE", owner, "%s raw integer literal in %s" % (fi.qualname, m),
                        "a plain integer (index / counter) is inserted as a literal: %s" % src(c.args[0])[:80], c))
            elif lk == "FOREIGN":
                R.bad(F("LIT-PROVENANCE", owner, "%s foreign literal in %s" % (fi.qualname, m),
                        "literals read from another formula are inserted without renaming: %s" % src(c.args[0])[:80], c))
            else:
                if fi.module.name in ("cnfgen.families.randomformulas", "cnfgen.families.randomkxor"):
                    continue      # decided by the declared-range rule below
                R.unknown("LIT-PROVENANCE", inst, owner.key, "provenance of the literals not resolved (%s)" % (lk,))
    R.floor("LIT-PROVENANCE", nsinks, 70)


def check_declared_range(R, prog):
    """random formulas: literal magnitudes are drawn from range(1, n+1) and the caller declares n variables before
    inserting (the only families that insert with check=False literals not produced by a group)"""
    for mod, gen, sampler, enum in (("cnfgen.families.randomformulas", "RandomKCNF", "sample_clauses", "all_clauses"),
                                    ("cnfgen.families.randomkxor", "RandomKXOR", "sample_parities", "all_good_parities")):
        g = prog.func(mod, gen)
        cfg = CFG(g.node)
        stmts = stmts_in(g.node)
        upd = [s for s in stmts if isinstance(s, ast.Expr) and isinstance(s.value, ast.Call) and
               (call_name(s.value) or "").endswith(".update_variable_number") and src(s.value.args[0]) == g.params[1]]
        loops = [s for s in stmts if isinstance(s, ast.For) and isinstance(s.iter, ast.Call) and call_name(s.iter) == sampler]
        ok = len(upd) == 1 and len(loops) == 1 and cfg.dominates(cfg.node_of(upd[0]), cfg.node_of(loops[0])) and \
            [src(a) for a in loops[0].iter.args[:3]] == g.params[:3]
        if ok:
            R.ok("DECLARED-RANGE", "%s: update_variable_number(n) dominates the insertion of sampled constraints over n" % gen, g.key)
        else:
            from . import c13 as _c13
            sem = _c13.verdict(prog, mod, "gen")         # folds the generator over a stand-in formula class: n declared, variables within 1..n
            if sem[0] is True:
                R.ok("DECLARED-RANGE", "%s: %s" % (gen, sem[1]), g.key)
                R.unknown("DECLARED-RANGE", "%s declares n before inserting" % gen, g.key,
                          "shape not recognised; the meaning of the fragment was confirmed by folding")
            else:
                R.bad(F("DECLARED-RANGE", g, "%s declares n before inserting" % gen,
                        "the formula must declare its n variables (update_variable_number(n)) before inserting the unchecked sampled "
                        "constraints, and sample over the same k, n, m"))
        for fname in (sampler, enum):
            f = prog.func(mod, fname)
            n = f.params[1]
            ranges = [c for s in stmts_in(f.node) for c in ast.walk(s) if isinstance(c, ast.Call) and call_name(c) == "range"]
            good = ranges and all([src(a) for a in c.args] == ["1", "%s + 1" % n] for c in ranges if any(n in src(a) for a in c.args))
            # every integer that becomes a variable comes from that range (random.sample / combinations over it)
            srcs = [c for s in stmts_in(f.node) for c in ast.walk(s) if isinstance(c, ast.Call) and
                    (call_name(c) in ("random.sample", "itertools.combinations", "combinations"))]
            kpar = f.params[0]
            srcs = [c for c in srcs if len(c.args) >= 2 and src(c.args[1]) == kpar]     # the draws of k variables
            env = {src(x.targets[0]): src(x.value) for x in stmts_in(f.node) if isinstance(x, ast.Assign) and len(x.targets) == 1}
            good = good and srcs and all(env.get(src(c.args[0]), src(c.args[0])) == "range(1, %s + 1)" % n for c in srcs)
            if good:
                R.ok("DECLARED-RANGE", "%s: variables are drawn from range(1, n+1) only" % fname, f.key)
            else:
                from . import c13 as _c13
                sem = _c13.verdict(prog, mod, "sampler" if fname == sampler else "enum")
                if sem[0] is True:
                    R.ok("DECLARED-RANGE", "%s: %s" % (fname, sem[1]), f.key)
                    R.unknown("DECLARED-RANGE", "%s variable range" % fname, f.key,
                              "shape not recognised; the meaning of the fragment was confirmed by folding")
                else:
                    R.bad(F("DECLARED-RANGE", f, "%s variable range" % fname, "variables of sampled constraints must come from range(1, n+1)"))


def fold(e, env):
    """constant folding of a pure arithmetic expression (ints, comparisons, conditional expressions, ceil / floor / log / int,
    int.bit_length) under an assignment of its free names; Unknown for anything else"""
    import math
    if isinstance(e, ast.Constant) and isinstance(e.value, (int, float)) and not isinstance(e.value, bool):
        return e.value
    if isinstance(e, ast.Name):
        if e.id in env:
            return env[e.id]
        raise Unknown("free name %s" % e.id)
    if isinstance(e, ast.UnaryOp) and isinstance(e.op, ast.USub):
        return -fold(e.operand, env)
    if isinstance(e, ast.BinOp):
        a, b = fold(e.left, env), fold(e.right, env)
        ops = {ast.Add: lambda: a + b, ast.Sub: lambda: a - b, ast.Mult: lambda: a * b, ast.FloorDiv: lambda: a // b,
               ast.Div: lambda: a / b, ast.Pow: lambda: a ** b, ast.Mod: lambda: a % b}
        if type(e.op) in ops:
            try:
                return ops[type(e.op)]()
            except (ZeroDivisionError, ValueError, OverflowError) as x:
                raise Unknown(str(x))
    if isinstance(e, ast.IfExp):
        return fold(e.body, env) if fold(e.test, env) else fold(e.orelse, env)
    if isinstance(e, ast.Compare) and len(e.ops) == 1:
        a, b = fold(e.left, env), fold(e.comparators[0], env)
        cmp = {ast.Lt: a < b, ast.LtE: a <= b, ast.Gt: a > b, ast.GtE: a >= b, ast.Eq: a == b, ast.NotEq: a != b}
        if type(e.ops[0]) in cmp:
            return cmp[type(e.ops[0])]
    if isinstance(e, ast.Call):
        name = call_name(e) or ""
        args = [fold(a, env) for a in e.args]
        try:
            if name in ("int", "ceil", "floor", "math.ceil", "math.floor", "abs", "max", "min", "len") and args:
                return {"int": lambda: int(args[0]), "ceil": lambda: math.ceil(args[0]), "math.ceil": lambda: math.ceil(args[0]),
                        "floor": lambda: math.floor(args[0]), "math.floor": lambda: math.floor(args[0]), "abs": lambda: abs(args[0]),
                        "max": lambda: max(args), "min": lambda: min(args)}[name]()
            if name in ("log", "math.log", "log2", "math.log2"):
                return math.log2(args[0]) if name.endswith("log2") else math.log(*args)
            if isinstance(e.func, ast.Attribute) and e.func.attr == "bit_length" and not e.args:
                return int(fold(e.func.value, env)).bit_length()
        except (ValueError, ZeroDivisionError, OverflowError) as x:
            raise Unknown("%s: %s" % (src(e), x))
    raise Unknown("cannot fold %s" % src(e))


# ---------------------------------------------------------------------------- the counters, by meaning
def semantic_counts(prog):
    """fold the count-keeping methods of BaseCNF / BaseOPB on small instances: update_variable_number gives max(old, new);
    _check_and_update raises the count to the largest |literal| (refusing literal 0 with ValueError); BaseCNF.add_clause stores a copy
    of the clause and, with check=True, does the same update.  -> {function key: (True | False | None, detail)}"""
    import types
    from ..fold import Folder, Raised
    out = {}

    def nn_int(v, name=None):
        if not isinstance(v, int) or isinstance(v, bool):
            raise TypeError(name)
        if v < 0:
            raise ValueError(name)
    G = {"non_negative_int": nn_int, "positive_int": nn_int}

    def fold(fi, selfobj, args, kw=None, methods=None):
        f = Folder(env={}, methods=methods or {})
        f.globals = dict(G)
        try:
            f.call_function(fi.node, [selfobj] + list(args), kw or {})
            return "ok"
        except Raised as r:
            return r.cls
    for mod, cls in BASE.items():
        ci = prog.cls(mod, cls)
        methods = {k: v.node for k, v in ci.methods.items()}
        # update_variable_number
        fu = ci.methods["update_variable_number"]
        verdict = (True, "update_variable_number(old, new) = max(old, new) for 12 pairs")
        try:
            for old in (0, 3, 5):
                for new in (0, 2, 5, 7):
                    s_ = types.SimpleNamespace(_numvar=old)
                    r = fold(fu, s_, [new], methods=methods)
                    if r != "ok" or s_._numvar != max(old, new):
                        verdict = (False, "%s.update_variable_number(%d) on a formula with %d variables gives %s (%s); the count may only be raised to max(old, new)"
                                   % (cls, new, old, s_._numvar, r))
        except Unknown as e:
            verdict = (None, "cannot fold: %s" % e)
        out[fu.key] = verdict
        # _check_and_update
        fc = ci.methods["_check_and_update"]
        verdict = (True, "_check_and_update raises the count to the largest |literal| and refuses literal 0")
        try:
            for old in (0, 4):
                if cls == "BaseCNF":
                    datas = [([1, -2], 2), ([5], 5), ([-7, 3], 7), ([], 0), ([2, 0, 1], "ValueError"), ([-3], 3)]
                else:
                    datas = [([(1, 1), (2, -2), ">=", 1], 2), ([(1, 5), "==", 1], 5), ([(3, -7), (1, 3), ">=", 2], 7), ([">=", 0], 0),
                             ([(1, 2), (1, 0), ">=", 1], "ValueError"), ([], 0)]
                for data, want in datas:
                    s_ = types.SimpleNamespace(_numvar=old)
                    r = fold(fc, s_, [list(data)], methods=methods)
                    if want == "ValueError":
                        if r != "ValueError":
                            verdict = (False, "%s._check_and_update(%s) must refuse the literal 0 with ValueError; outcome: %s" % (cls, data, r))
                    elif r != "ok" or s_._numvar != max(old, want):
                        verdict = (False, "%s._check_and_update(%s) on a formula with %d variables leaves the count at %s (%s); it must become %d"
                                   % (cls, data, old, s_._numvar, r, max(old, want)))
        except Unknown as e:
            verdict = (None, "cannot fold: %s" % e)
        out[fc.key] = verdict
    # BaseCNF.add_clause
    ci = prog.cls("cnfgen.formula.basecnf", "BaseCNF")
    methods = {k: v.node for k, v in ci.methods.items()}
    fa = ci.methods["add_clause"]
    verdict = (True, "add_clause stores a copy of the clause and, with check=True, raises the count to its largest |literal|")
    try:
        for check in (True, False):
            for clause, mx in (([1, -2], 2), ([], 0), ((3, 4), 4), ([-6], 6)):
                s_ = types.SimpleNamespace(_numvar=1, _clauses=[[9]])
                r = fold(fa, s_, [clause], {"check": check}, methods=methods)
                wantn = max(1, mx) if check else 1
                if r != "ok" or s_._clauses != [[9], list(clause)] or s_._numvar != wantn or (s_._clauses[-1] is clause):
                    verdict = (False, "BaseCNF.add_clause(%s, check=%s): clauses %s, count %s (%s); expected the clause appended as a list of its own "
                               "and the count %d" % (clause, check, s_._clauses, s_._numvar, r, wantn))
        s_ = types.SimpleNamespace(_numvar=1, _clauses=[])
        if fold(fa, s_, [[1, 0]], {"check": True}, methods=methods) != "ValueError":
            verdict = (False, "BaseCNF.add_clause([1, 0], check=True) must raise ValueError for the literal 0")
    except Unknown as e:
        verdict = (None, "cannot fold: %s" % e)
    out[fa.key] = verdict
    # BaseCNF.add_clauses_from: a lazily produced batch sees, before each further clause is asked for, the count raised by the previous one
    fb = ci.methods.get("add_clauses_from")
    if fb is not None:
        verdict = (True, "add_clauses_from inserts the clauses in order and, with check=True, raises the count clause by clause")
        try:
            for check in (True, False):
                s_ = types.SimpleNamespace(_numvar=1, _clauses=[])
                seen = []

                def batch():
                    yield [2, -3]
                    seen.append(s_._numvar)
                    yield [6]
                    seen.append(s_._numvar)
                    yield []
                r = fold(fb, s_, [batch()], {"check": check}, methods=methods)
                want_seen = [3, 6] if check else [1, 1]
                if r != "ok" or s_._clauses != [[2, -3], [6], []] or s_._numvar != (6 if check else 1) or seen != want_seen:
                    verdict = (False, "BaseCNF.add_clauses_from(<generator>, check=%s): clauses %s, final count %s, counts seen by the producer "
                               "between clauses %s (%s); expected the clauses in order, the count %s and %s in between -- a variable created "
                               "while the batch streams would otherwise reuse an identifier of an earlier clause"
                               % (check, s_._clauses, s_._numvar, seen, r, 6 if check else 1, want_seen))
        except Unknown as e:
            verdict = (None, "cannot fold: %s" % e)
        out[fb.key] = verdict
    return out
