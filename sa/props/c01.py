"""C01 -- pigeonhole, matching, counting, subset cardinality and clique-colouring families encode exactly their principle."""
from ..report import Result
from ..builders import builder_table
from . import _families as fam
from . import c04, c16

P = "C01"

MEMBERS = [
    ("cnfgen.families.pigeonhole", "PigeonholePrinciple"),
    ("cnfgen.families.pigeonhole", "GraphPigeonholePrinciple"),
    ("cnfgen.families.pigeonhole", "BinaryPigeonholePrinciple"),
    ("cnfgen.families.pigeonhole", "RelativizedPigeonholePrinciple"),
    ("cnfgen.families.counting", "CountingPrinciple"),
    ("cnfgen.families.counting", "PerfectMatchingPrinciple"),
    ("cnfgen.families.subsetcardinality", "SubsetCardinalityFormula"),
    ("cnfgen.families.cliquecoloring", "CliqueColoring"),
]

EXPLANATION = (
    "Decides the structural part of the property, not the model sets themselves: AXIOM-SCHEMA extracts from every family generator "
    "the set of constraint emissions (quantifier nest, guards, builder, arguments; loop variables, comprehension variables and "
    "variable groups alpha-renamed, wrappers and local names inlined) and compares it as a set with the documented axioms "
    "transcribed in sa/props/_family_specs.py -- none missing, none extra, every index and sign in place.  DEAD-PARAM: every "
    "documented parameter reaches the constraints.  GUARD-CHAIN: a parameter value the family validator declares legal is not "
    "refused by a stricter single-variable guard further down the call chain.  MECHANISM/*: the meaning of the builders the axioms "
    "are written with (cardinality constraints in CNFLinear.add_linear and the threshold table, force_*_mapping clause schemas per "
    "mapping kind, BinaryMappingVariables.forbid bit patterns) are the rules of C04 re-run here; GRAPH/*: the BipartiteGraph "
    "representation the graph pigeonhole and subset cardinality formulas read (rules of C16).  That satisfying assignments are "
    "exactly the documented objects then follows from the documented axioms being the right ones -- a reviewed transcription, "
    "trusted.")


def run(prog, tier):
    R = Result(P, EXPLANATION)
    fam.run_family(R, prog, P, MEMBERS, 29)
    from ._shared import check_iterator_reuse
    check_iterator_reuse(R, prog, P, ['cnfgen.families', 'cnfgen.formula', 'cnfgen.clihelpers'], 100)
    fam.cli_roles(R, prog, P, MEMBERS, 8)
    table = builder_table(prog)
    fam.borrow(R, P, "MECHANISM", prog, c04.check_thresholds, table, floor=8)
    fam.borrow(R, P, "MECHANISM", prog, c04.check_builder_paths, table, floor=14)
    fam.borrow(R, P, "MECHANISM", prog, c04.check_add_linear, floor=4)
    fam.borrow(R, P, "MECHANISM", prog, c04.check_mapping_dispatch, floor=4)
    fam.borrow(R, P, "MECHANISM", prog, c04.check_mapping_schema, floor=4)
    fam.borrow(R, P, "MECHANISM", prog, c04.check_forbid_bits, floor=1)
    fam.borrow(R, P, "GRAPH", prog, c16.analyse, floor=100)
    R.trust("the axiom table sa/props/_family_specs.py is a faithful transcription of the documented principle of each family",
            "clause blasting of a cardinality constraint over n literals is correct once op / threshold / sign handling is (C04)")
    return R
