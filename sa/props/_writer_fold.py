"""Bounded folding of the line-oriented writers (to_dimacs_file, to_opb_file) over stand-in formulas and a stand-in file object:
the text written is parsed back by the format's own grammar and compared with the formula (C06, C12).  Nothing of cnfgen is run."""
import itertools

from ..fold import Folder, Raised
from ..ql import Unknown


class Out:
    def __init__(self):
        self.parts = []

    def write(self, text):
        if not isinstance(text, str):
            raise TypeError
        self.parts.append(text)
        return len(text)

    def text(self):
        return "".join(self.parts)


class FakeBaseCNF:
    def __init__(self, n, clauses, header, labels):
        self.n, self.cons, self.header, self.labels = n, [list(c) for c in clauses], dict(header), list(labels)

    def number_of_variables(self):
        return self.n

    def number_of_clauses(self):
        return len(self.cons)

    def __len__(self):
        return len(self.cons)

    def __iter__(self):
        return iter([list(c) if isinstance(c, list) else c for c in self.cons])

    def __getitem__(self, i):
        return self.cons[i]

    def clauses(self):
        return [list(c) for c in self.cons]

    def all_variable_labels(self, *a, **k):
        return list(self.labels)


class FakeBaseOPB:
    __init__ = FakeBaseCNF.__init__
    number_of_variables = FakeBaseCNF.number_of_variables
    __len__ = FakeBaseCNF.__len__
    __iter__ = FakeBaseCNF.__iter__
    __getitem__ = FakeBaseCNF.__getitem__
    all_variable_labels = FakeBaseCNF.all_variable_labels

    def number_of_constraints(self):
        return len(self.cons)


HEADERS = [
    {},
    {"description": "plain text"},
    {"description": "two\nlines", "transformation 1": "", "odd\nkey": "v", "unicode": "café → x\r\nend"},
    {"description": "\np cnf 1 1\n1 0", "x": "* #variable= 9 #constraint= 9"},
    {"old mac": "first\rp cnf 7 7\r", "feed": "a\x0bb\x0cc\x1cd\x85e\u2028f"},
]


def file_lines(text):
    """the lines a reader in text mode (universal newlines) sees"""
    return text.replace("\r\n", "\n").replace("\r", "\n").split("\n")[:-1]


def formulas(kind):
    """(n, constraints, labels)"""
    if kind == "cnf":
        yield 0, [], []
        yield 1, [[]], ["x\n1"]
        yield 3, [[1, -2], [3], [], [-3, -1, 2]], ["a", "b\nc", "p cnf\rp cnf 1 1"]
        yield 4, [[4], [-4, 1]], ["x1", "x2", "x3", "x4"]
    else:
        yield 0, [], []
        yield 2, [[(1, 1), (2, -2), ">=", 1], [(3, 2), "==", 3], [">=", 0]], ["a", "b\nb"]
        yield 3, [[(-1, 3), (5, -1), ">=", -2], [(1, 1), (1, 2), (1, 3), "==", 1]], ["x", "y", "z"]


def _fold(prog, mod, name, formula, eh, ev, extra_globals=None):
    fi = prog.func(mod, name)
    f = Folder(env={}, fuel=200000)
    f.globals = dict(extra_globals or {})
    out = Out()
    f.call_function(fi.node, [formula, out], {"export_header": eh, "export_varnames": ev})
    return out.text()


def semantic_dimacs(prog):
    n_inst = 0
    for (n, cls, labels), header, eh, ev in itertools.product(list(formulas("cnf")), HEADERS, (True, False), (True, False)):
        Fm = FakeBaseCNF(n, cls, header, labels)
        what = "to_dimacs_file on %d variables, clauses %s, header %r, export_header=%s, export_varnames=%s" % (n, cls, header, eh, ev)
        try:
            text = _fold(prog, "cnfgen.utils.parsedimacs", "to_dimacs_file", Fm, eh, ev)
        except Raised as r:
            return False, "%s raises %s" % (what, r.cls)
        except Unknown as e:
            return None, "cannot fold to_dimacs_file: %s" % e
        if Fm.cons != [list(c) for c in cls] or Fm.header != header:
            return False, "%s changes the formula it writes" % what
        if text and not text.endswith("\n"):
            return False, "%s: the text does not end with a line end" % what
        lines = file_lines(text)
        i = 0
        names = {}
        while i < len(lines) and not lines[i].startswith("p "):
            ln = lines[i]
            if not (ln == "c" or ln.startswith("c ")):
                return False, "%s: line %d before the problem line is %r, not a comment" % (what, i + 1, ln)
            if ln.startswith("c varname "):
                parts = ln.split(" ", 3)
                if len(parts) >= 3 and parts[2].isdigit():
                    names[int(parts[2])] = parts[3] if len(parts) > 3 else ""
            i += 1
        if i == len(lines) or lines[i] != "p cnf %d %d" % (n, len(cls)):
            return False, "%s: the problem line is %r; `p cnf %d %d` expected" % (what, lines[i] if i < len(lines) else None, n, len(cls))
        try:
            toks = [int(t) for ln in lines[i + 1:] for t in ln.split()]
        except ValueError:
            return False, "%s: a clause line holds something that is not an integer: %r" % (what, lines[i + 1:][:3])
        got, cur = [], []
        for t in toks:
            if t == 0:
                got.append(cur)
                cur = []
            else:
                cur.append(t)
        if cur or got != [list(c) for c in cls]:
            return False, "%s: the clauses read back are %s%s; the formula has %s" % (what, got, " plus the unterminated %s" % cur if cur else "", cls)
        if ev:
            want = {k + 1: " ".join(str(l).splitlines()) for k, l in enumerate(labels)}
            if names != want:
                return False, "%s: the `c varname` lines give %s; the variables are named %s" % (what, names, want)
        if not text.isascii():
            return False, "%s: the text is not ASCII" % what
        n_inst += 1
    return True, "%d (formula, header, options) instances folded and read back by the DIMACS grammar" % n_inst


def semantic_opb(prog):
    n_inst = 0
    G = {"BaseCNF": FakeBaseCNF, "BaseOPB": FakeBaseOPB}
    for kind in ("cnf", "opb"):
        for (n, cons, labels), header, eh, ev in itertools.product(list(formulas(kind)), HEADERS, (True, False), (True, False)):
            Fm = (FakeBaseOPB if kind == "opb" else FakeBaseCNF)(n, cons, header, labels)
            what = "to_opb_file on %d variables, constraints %s, header %r, export_header=%s, export_varnames=%s" % (n, cons, header, eh, ev)
            try:
                text = _fold(prog, "cnfgen.utils.opb", "to_opb_file", Fm, eh, ev, G)
            except Raised as r:
                return False, "%s raises %s" % (what, r.cls)
            except Unknown as e:
                return None, "cannot fold to_opb_file: %s" % e
            if Fm.cons != [list(c) for c in cons] or Fm.header != header:
                return False, "%s changes the formula it writes" % what
            if not text.endswith("\n"):
                return False, "%s: the text does not end with a line end" % what
            lines = file_lines(text)
            if not lines or lines[0] != "* #variable= %d #constraint= %d" % (n, len(cons)):
                return False, "%s: the first line is %r; `* #variable= %d #constraint= %d` expected" % (what, lines[0] if lines else None, n, len(cons))
            got = []
            names = {}
            for j, ln in enumerate(lines[1:], start=2):
                if ln == "*" or ln.startswith("* "):
                    if ln.startswith("* varname x"):
                        parts = ln[len("* varname x"):].split(" ", 1)
                        if parts[0].isdigit():
                            names[int(parts[0])] = parts[1] if len(parts) > 1 else ""
                    continue
                toks = ln.split()
                if len(toks) < 2 or len(toks) % 2:
                    return False, "%s: line %d is %r, neither a `*` comment nor a constraint" % (what, j, ln)
                terms = []
                try:
                    for c, v in zip(toks[:-2:2], toks[1:-2:2]):
                        if not c.startswith(("+", "-")):
                            raise ValueError
                        if v.startswith("~x"):
                            terms.append((int(c), -int(v[2:])))
                        elif v.startswith("x"):
                            terms.append((int(c), int(v[1:])))
                        else:
                            raise ValueError
                    got.append(terms + [toks[-2], int(toks[-1])])
                except ValueError:
                    return False, "%s: line %d is %r, neither a `*` comment nor a constraint" % (what, j, ln)
            if kind == "cnf":
                want = [[(1, l) for l in c] + [">=", 1] for c in cons]
            else:
                want = [list(c[:-2]) + [{">=": ">=", "==": "="}[c[-2]], c[-1]] for c in cons]
            if got != want:
                return False, "%s: the constraints read back are %s; the formula has %s" % (what, got, want)
            if ev:
                wantn = {k + 1: " ".join(str(l).splitlines()) for k, l in enumerate(labels)}
                if names != wantn:
                    return False, "%s: the `* varname` lines give %s; the variables are named %s" % (what, names, wantn)
            if not text.isascii():
                return False, "%s: the text is not ASCII" % what
            n_inst += 1
    return True, "%d (formula, header, options) instances folded and read back by the OPB grammar" % n_inst


def _decode_literal(t, names):
    t = t.strip()
    neg = "\\overline{" in t
    if neg:
        i = t.index("\\overline{")
        depth, j = 0, i + len("\\overline")
        while j < len(t):
            if t[j] == "{":
                depth += 1
            elif t[j] == "}":
                depth -= 1
                if depth == 0:
                    break
            j += 1
        t = t[:i] + t[i + len("\\overline{"):j] + t[j + 1:]
    t = t.strip()
    if t.startswith("{") and t.endswith("}"):
        t = t[1:-1]
    if t not in names:
        return None
    return -names[t] if neg else names[t]


def semantic_latex(prog):
    """_print_latex folded over CNF and pseudo-Boolean stand-ins (labels with and without sub / superscripts, an empty clause, an empty
    formula, page splits, compact or not): every row read back -- literals through the names, \\overline for negation, \\lor / + between
    them, coefficient shown when above 1, \\geq / = and the degree -- is the constraint of the formula at that position"""
    fi = prog.func("cnfgen.utils.latexoutput", "_print_latex")
    G = {"BaseCNF": FakeBaseCNF, "BaseOPB": FakeBaseOPB}
    labels = ["a", "b_1", "c^2", "d_{1}^{2}"]
    names = {l: i + 1 for i, l in enumerate(labels)}
    cnt = 0
    cases = [("cnf", []), ("cnf", [[1, -2], [], [-3, 4, -1], [2]]), ("cnf", [[-4]]), ("cnf", [[]]), ("cnf", [[], []]),
             ("opb", []), ("opb", [[(1, 1), (2, -2), ">=", 1], [(3, 4), "==", 3], [">=", 0], [(1, -3), (1, 1), (5, 2), ">=", 4]])]
    for kind, cons in cases:
        for split in (-1, 2):
            for compact in (True, False):
                Fm = (FakeBaseOPB if kind == "opb" else FakeBaseCNF)(4, cons, {"description": "d"}, labels)
                out = Out()
                f = Folder(env={}, fuel=200000)
                f.globals = dict(G)
                what = "_print_latex of the %s %s (split_every=%d, compact=%s)" % ("clauses" if kind == "cnf" else "constraints", cons, split, compact)
                try:
                    f.call_function(fi.node, [Fm, out], {"split_every": split, "compact": compact})
                except Raised as r:
                    return False, "%s raises %s" % (what, r.cls)
                except Unknown as e:
                    return None, "cannot fold _print_latex: %s" % e
                text = out.text()
                if [list(c) if isinstance(c, list) else c for c in Fm.cons] != [list(c) for c in cons]:
                    return False, "%s changes the constraints stored in the formula to %s" % (what, Fm.cons)
                if not text.startswith("\\begin{align}") or not text.endswith("\n\\end{align}"):
                    return False, "%s is not an align environment: %r" % (what, text[:60])
                body = text[len("\\begin{align}"):-len("\n\\end{align}")]
                body = body.replace("\n\\end{align}\\pagebreak\n\\begin{align}", " \\\\")
                if not cons:
                    if body.strip() != "\\top":
                        return False, "%s shows %r for the empty formula; \\top expected" % (what, body)
                    cnt += 1
                    continue
                rows = [r_.strip() for r_ in body.split("\\\\")]
                rows = [r_[1:].strip() if r_.startswith("&") else r_ for r_ in rows]
                if len(rows) != len(cons):
                    return False, "%s shows %d rows for %d constraints" % (what, len(rows), len(cons))
                for r_, c in zip(rows, cons):
                    if kind == "cnf":
                        t = r_
                        if t.startswith("\\land"):
                            t = t[len("\\land"):].strip()
                        if t.startswith("\\left(") and t.endswith("\\right)"):
                            t = t[len("\\left("):-len("\\right)")].strip()
                        got = [] if t == "\\square" else [_decode_literal(x, names) for x in t.split("\\lor")]
                        if got != list(c):
                            return False, "%s: the row %r reads as the clause %s; the clause there is %s" % (what, r_, got, c)
                    else:
                        parts = r_.rsplit(" ", 2)
                        if len(parts) != 3 or parts[1] not in ("\\geq", "="):
                            return False, "%s: the row %r does not end in a relation and a degree" % (what, r_)
                        terms = []
                        if parts[0].strip() != "0":
                            for x in parts[0].split(" + "):
                                x = x.strip()
                                k = 0
                                while k < len(x) and x[k].isdigit():
                                    k += 1
                                terms.append((int(x[:k]) if k else 1, _decode_literal(x[k:], names)))
                        got = terms + [">=" if parts[1] == "\\geq" else "==", int(parts[2]) if parts[2].lstrip("-").isdigit() else parts[2]]
                        if got != list(c):
                            return False, "%s: the row %r reads as %s; the constraint there is %s" % (what, r_, got, c)
                cnt += 1
    return True, "%d (formula, layout) instances folded and read back" % cnt


def _dimacs_spec(text):
    """the documented grammar: comment lines, one `p cnf n m` line, then m zero-terminated clauses over 1..n (a clause may span lines)
    -> (n, clauses) or None when the text is not a DIMACS formula"""
    n = m = None
    clauses, cur = [], []
    for ln in file_lines(text if text.endswith("\n") or not text else text + "\n"):
        ln = ln.strip()
        if not ln or ln[0] == "c":
            continue
        if ln[0] == "p":
            toks = ln.split()
            if n is not None or len(toks) != 4:
                return None
            try:
                n, m = int(toks[2]), int(toks[3])
            except ValueError:
                return None
            if n < 0 or m < 0:
                return None
            continue
        if n is None:
            return None
        for t in ln.split():
            try:
                v = int(t)
            except ValueError:
                return None
            if v == 0:
                clauses.append(cur)
                cur = []
            elif 1 <= abs(v) <= n:
                cur.append(v)
            else:
                return None
    if n is None or cur or len(clauses) != m:
        return None
    return n, clauses


def semantic_dimacs_reader(prog):
    """from_dimacs_file (with parse_dimacs) folded over DIMACS texts and damaged variants of them: a text of the documented grammar is read
    as exactly its variable count and clauses (unused variables kept, clauses spanning lines joined); any other text is refused with
    ValueError"""
    import ast
    fi = prog.func("cnfgen.utils.parsedimacs", "from_dimacs_file")
    m = prog.module("cnfgen.utils.parsedimacs")

    class Rec:
        def __init__(self, *a, **k):
            self.n, self.cl, self.header = 0, [], {"description": k.get("description")}

        def update_variable_number(self, v):
            self.n = max(self.n, v)

        def add_clause(self, c, check=True):
            c = list(c)
            self.cl.append(c)
            if check and c:
                self.n = max(self.n, max(abs(l) for l in c))

        def add_clauses_from(self, cs, check=True):
            for c in cs:
                self.add_clause(c, check=check)

    class TextIn:
        def __init__(self, text):
            self.lines, self.pos, self.name = text.splitlines(True), 0, "<text>"

        def readlines(self):
            rest, self.pos = self.lines[self.pos:], len(self.lines)
            return list(rest)

        def readline(self):
            if self.pos >= len(self.lines):
                return ""
            self.pos += 1
            return self.lines[self.pos - 1]

        def read(self):
            return "".join(self.readlines())

        def __iter__(self):
            return iter(self.readlines())
    base = ["p cnf 0 0\n", "p cnf 3 0\n", "c a comment\np cnf 3 2\n1 -2 0\n3 0\n", "p cnf 4 3\n1 -4\n 2 0 0\n-3 0\n", "p cnf 2 2\n1 0 -2 0\n",
            "\nc x\n\np cnf 5 1\n\n1 2\nc inside\n3 0\n", "p cnf 1 2\n0\n0\n", "p  cnf   2   1 \n -1   2  0 \n"]
    texts = []
    for t in base:
        texts.append(t)
        lines = t.splitlines(True)
        for i in range(len(lines)):
            toks = lines[i].split()
            texts.append("".join(lines[:i] + lines[i + 1:]))
            if toks:
                texts.append("".join(lines[:i] + [" ".join(toks[:-1]) + "\n"] + lines[i + 1:]))
                texts.append("".join(lines[:i] + [" ".join(toks[:-1] + ["x"]) + "\n"] + lines[i + 1:]))
                texts.append("".join(lines[:i] + [" ".join(toks + ["9"]) + "\n"] + lines[i + 1:]))
                texts.append("".join(lines[:i] + [" ".join(toks[:-1] + ["-9"] + toks[-1:]) + "\n"] + lines[i + 1:]))
                texts.append("".join(lines[:i] + [lines[i]] * 2 + lines[i + 1:]))
        texts.append(t[:len(t) // 2])
        texts.append(t + "1 0\n")
        texts.append(t + "junk\n")
    texts += ["p cnf 0 2\n0\n0\n", "p cnf 0 1\n 0\n", "p cnf 2 1\n1 -3 0\n", "p cnf 2 1\n-7 0\n", "p cnf 0 1\n1 0\n", "p cnf 0 1\n-1 0\n"]
    texts += ["", "p\n", "p cnf\n", "p cnf 3\n", "p cnf -1 0\n", "p cnf 2 -1\n", "p cnf 2 1 7\n1 0\n", "1 0\np cnf 1 1\n"]
    cnt = 0
    for text in texts:
        want = _dimacs_spec(text)
        f = Folder(env={}, fuel=200000)
        f.module_functions = {n.name: n for n in m.tree.body if isinstance(n, ast.FunctionDef)}
        f.globals = {"sys": __import__("types").SimpleNamespace(stdin=None, stdout=None)}
        try:
            out = ("value", f.call_function(fi.node, [Rec, TextIn(text)], {}))
        except Raised as r:
            out = ("raises", r.cls.split("(")[0])
        except Unknown as e:
            return None, "cannot fold from_dimacs_file: %s" % e
        if want is None:
            if out != ("raises", "ValueError"):
                got = out[1] if out[0] == "raises" else "a formula with %d variables and clauses %s" % (out[1].n, out[1].cl)
                return False, "the text %r is not a DIMACS formula (truncated / corrupted): the reader gives %s; ValueError expected" % (text, got)
        else:
            if out[0] != "value" or not isinstance(out[1], Rec) or out[1].n != want[0] or out[1].cl != want[1]:
                got = out[1] if out[0] == "raises" else "%d variables and clauses %s" % (out[1].n, out[1].cl)
                return False, "the text %r denotes %d variables and the clauses %s; the reader gives %s" % (text, want[0], want[1], got)
        cnt += 1
    return True, "%d DIMACS texts (valid, truncated, corrupted, with blank and comment lines) folded through from_dimacs_file" % cnt


_V = {}


def verdict(prog, which):
    key = (id(prog), which)
    if key not in _V:
        try:
            _V[key] = {"dimacs": semantic_dimacs, "opb": semantic_opb, "latex": semantic_latex, "dimacs-reader": semantic_dimacs_reader}[which](prog)
        except Unknown as e:
            _V[key] = (None, "cannot fold: %s" % e)
    return _V[key]
