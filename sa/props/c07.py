"""C07 -- output is a function of the command line and the seed only."""
import ast

from ..loader import AnalysisError, walk_shallow, ClassInfo, FuncInfo
from ..cfg import CFG
from ..astutil import src, call_name, method_name, const, is_const, stmts_in, kwarg
from ..callgraph import Resolver
from ..report import Result, Finding

P = "C07"
TOOLS = [("cnfgen.clitools.cnfgen", "cli"), ("cnfgen.clitools.pbgen", "cli"), ("cnfgen.clitools.cnfshuffle", "cli")]
RANDOM_CONSUMERS = {"random.choice", "random.randint", "random.random", "random.shuffle", "random.sample", "random.randrange",
                    "random.uniform", "random.choices", "random.getrandbits", "random.gauss", "random.betavariate",
                    "sample", "shuffle", "randint", "choice"}
NX_RANDOM = {"networkx.gnp_random_graph", "networkx.gnm_random_graph", "networkx.random_regular_graph", "nx.gnp_random_graph",
             "networkx.fast_gnp_random_graph", "networkx.erdos_renyi_graph", "networkx.dense_gnm_random_graph"}
FOREIGN_RNG = ("random.Random", "random.SystemRandom", "SystemRandom", "numpy.random", "np.random", "os.urandom", "uuid.uuid", "secrets.")
AMBIENT = {"id": "object address", "hash": "hash value (randomised per process for str)", "time.time": "clock", "time.perf_counter": "clock",
           "datetime.now": "clock", "datetime.datetime.now": "clock", "os.getcwd": "working directory", "os.getpid": "process id",
           "os.getenv": "environment", "os.environ.get": "environment", "socket.gethostname": "host name", "getpass.getuser": "user name",
           "os.path.abspath": "working directory (absolute form of a relative path)", "os.path.realpath": "working directory / links",
           "os.path.expanduser": "home directory of the user", "os.path.expandvars": "environment", "os.uname": "host",
           "platform.node": "host name", "os.times": "clock", "time.monotonic": "clock", "time.process_time": "clock",
           "uuid.uuid4": "random identifier", "uuid.uuid1": "host and clock", "os.urandom": "operating system entropy",
           "random.SystemRandom": "operating system entropy", "secrets.token_hex": "operating system entropy", "tempfile.mktemp": "temporary name",
           "Path.cwd": "working directory", "pathlib.Path.cwd": "working directory", "Path.home": "home directory", "os.stat": "file metadata",
           "os.path.getmtime": "file modification time", "os.listdir": "directory order", "glob.glob": "directory order"}
# ambient reads that do not reach a formula or its header (one line of reason each)
AMBIENT_OK = {
    ("cnfgen.clitools.cmdline", "paginate_or_redirect_stdout"): "pager selection for --help / tutorial text only",
    ("cnfgen.clitools.cmdline", "setup_SIGINT.<locals>.sigint_handler"): "message printed when the user interrupts the program",
}


def F(rule, fi, construct, msg, node=None, witness=None):
    return Finding(P, rule, fi, construct, msg, node=node, witness=witness)


def run(prog, tier):
    R = Result(P, "SEED-ORDER: for each tool, every call in cli() from which a consumer of the global random generator is reachable (resolved "
               "call graph, argparse actions included) is either dominated by random.seed(<the seed option>) in cli(), or is the parse of the "
               "command line while the seed option's own action seeds at parse time (global options are consumed before the formula's "
               "arguments).  SEED-TRUTHY: the seed option is compared with None, never tested for truth (0 is a seed).  SEED-PARAM: every "
               "library function with a `seed` parameter seeds the global generator (`if seed is not None: random.seed(seed)`) before its "
               "first consumer on every path.  SINGLE-RNG: no private / system / numpy generators, no uuid / urandom, no constant seed "
               "handed to networkx.  NO-AMBIENT: no id(), hash(), clock, cwd, pid, environment, subprocess on the way to a formula or its "
               "header (the version lookup must be pinned to the package directory).  NO-OBJ-REPR: no object of a repository class without "
               "__str__/__repr__ is formatted into text.  NO-HASH-ORDER: no iteration over a set (hash order) feeds the output.")
    R.trust("every random.* function and networkx's gnp / gnm / random_regular generators called with seed=None draw from the global generator",
            "argparse consumes the options of the main parser before handing the remaining arguments to the sub-command parser",
            "object.__repr__ prints a memory address; iteration order of a set of str depends on PYTHONHASHSEED")
    res = Resolver(prog)
    consumers = rng_consumers(prog)
    R.count("RNG consumer call sites", sum(len(v) for v in consumers.values()))
    check_seed_order(R, prog, res, consumers)
    check_seed_truthy(R, prog)
    check_seed_param(R, prog, res, consumers)
    check_single_rng(R, prog)
    check_ambient(R, prog, res)
    check_obj_repr(R, prog)
    check_hash_order(R, prog)
    # a table that survives from one call to the next makes the second call with the same seed differ from the first
    from ._shared import check_no_shared_state
    check_no_shared_state(R, prog, P, ['cnfgen.families', 'cnfgen.transformations', 'cnfgen.graphs', 'cnfgen.formula', 'cnfgen.clitools.graph_build',
                                       'cnfgen.clitools.graph_args', 'cnfgen.clihelpers'], 300)
    return R


def rng_consumers(prog):
    """{function key: [call nodes]} of direct uses of the global generator"""
    out = {}
    for fi in prog.all_functions():
        for c in [x for x in walk_shallow(fi.node) if isinstance(x, ast.Call)]:
            n = call_name(c) or ""
            hit = False
            if n in RANDOM_CONSUMERS and (n.startswith("random.") or fi.module.imports.get(n.split(".")[0], ("", ""))[1:2] == ("random",)):
                hit = True
            if n in NX_RANDOM and not any(k.arg == "seed" for k in c.keywords):
                hit = True
            if hit:
                out.setdefault(fi.key, []).append(c)
    return out


def reaches_consumer(res, fi, consumers, _memo):
    if fi.key in _memo:
        return _memo[fi.key]
    _memo[fi.key] = None
    if fi.key in consumers:
        _memo[fi.key] = [fi.qualname]
        return _memo[fi.key]
    for call, ts, ext in res.callees(fi):
        for t in ts:
            r = reaches_consumer(res, t, consumers, _memo)
            if r:
                _memo[fi.key] = [fi.qualname] + r
                return _memo[fi.key]
    return None


def registered_actions(prog, fi):
    """Action.__call__ methods that a parser built by the tool ``fi`` can invoke: None (= all of the repository) when the tool
    loads the sub-command helpers, else the classes named in the `action=` of the add_argument calls it reaches"""
    r0 = Resolver(prog)
    r0.parse_args_targets = []
    reach = r0.reachable([fi])
    if any(f.name == "setup_command_line" and f.cls is not None for f in reach):
        return None
    out = []
    for f in reach:
        for c in [x for x in walk_shallow(f.node) if isinstance(x, ast.Call) and method_name(x) == "add_argument"]:
            act = kwarg(c, "action")
            if act is not None and not isinstance(const(act), str):
                r = prog.resolve_expr(f.module, act)
                if isinstance(r, ClassInfo):
                    m = prog.lookup_method(r, "__call__")
                    if m is not None:
                        out.append(m)
                else:
                    return None
    return out


def check_seed_order(R, prog, res0, consumers):
    for mod, q in TOOLS:
        memo = {}
        fi = prog.func(mod, q)
        res = Resolver(prog)
        res.parse_args_targets = registered_actions(prog, fi)
        cfg = CFG(fi.node)
        stmts = stmts_in(fi.node)
        # the seed option: args.seed, or a local bound once to it (`seed = args.seed`, `seed = getattr(args, 'seed', None)`)
        seed_exprs = {"args.seed"}
        for s_ in stmts:
            if isinstance(s_, ast.Assign) and len(s_.targets) == 1 and isinstance(s_.targets[0], ast.Name) and \
                    src(s_.value) in ("args.seed", "getattr(args, 'seed', None)") and \
                    sum(1 for x in stmts if isinstance(x, ast.Assign) and any(src(t) == s_.targets[0].id for t in x.targets)) == 1:
                seed_exprs.add(s_.targets[0].id)
        seeds = [s for s in stmts if isinstance(s, ast.Expr) and isinstance(s.value, ast.Call) and call_name(s.value) == "random.seed"
                 and s.value.args and src(s.value.args[0]) in seed_exprs]
        # a seeding statement guarded by `if <seed given>:` counts from the guard on (without a seed there is nothing to reproduce)
        seeds = [next((g for g in stmts if isinstance(g, ast.If) and sd in g.body and "seed" in src(g.test)), sd) for sd in seeds]
        # does the seed option seed at parse time?
        parse_time = seed_action(prog, mod)
        risky = []
        for s in stmts:
            hdrs = [s.test] if isinstance(s, (ast.If, ast.While)) else ([s.iter] if isinstance(s, ast.For) else
                                                                        ([i.context_expr for i in s.items] if isinstance(s, ast.With) else
                                                                         ([] if isinstance(s, (ast.Try, ast.FunctionDef, ast.ClassDef)) else [s])))
            for h in hdrs:
                for c in [x for x in ast.walk(h) if isinstance(x, ast.Call)]:
                    ts, ext = res.targets(fi, c)
                    chain = None
                    for t in ts:
                        chain = reaches_consumer(res, t, consumers, memo)
                        if chain:
                            break
                    direct = (call_name(c) or "") in RANDOM_CONSUMERS | NX_RANDOM
                    if chain or direct:
                        risky.append((s, c, chain or [call_name(c)], ext))
        n_ok = 0
        for s, c, chain, ext in risky:
            sn = cfg.node_of(s)
            dominated = any(cfg.dominates(cfg.node_of(sd), sn) and cfg.node_of(sd) is not sn for sd in seeds)
            via_parse = (method_name(c) == "parse_args") or chain[0] in ("parse_command_line",)
            if not dominated and parse_time and not via_parse:
                # seeded while parsing: enough if the parse of the command line dominates this statement
                parses = [p_ for p_, c_, ch_, _ in risky if (method_name(c_) == "parse_args" or ch_[0] == "parse_command_line")]
                allp = [x for x in stmts if any(isinstance(y, ast.Call) and (method_name(y) == "parse_args" or call_name(y) == "parse_command_line")
                                                for y in ast.walk(x)) and not isinstance(x, (ast.If, ast.For, ast.While, ast.Try, ast.FunctionDef))]
                withs = [x for x in stmts if isinstance(x, ast.With) and any(a is y for a in allp for b in x.body for y in ast.walk(b))]
                dominated = any(cfg.dominates(cfg.node_of(p_), sn) for p_ in allp + withs if cfg.node_of(p_) is not None and cfg.node_of(p_) is not sn)
            inst = "%s.cli: `%s` reaches the global generator via %s" % (mod.split(".")[-1], src(c)[:40], " -> ".join(chain[:5]))
            if dominated:
                n_ok += 1
                R.ok("SEED-ORDER", inst + ("; dominated by the seeding statement of cli()" if seeds else
                                           "; dominated by the parse of the command line, during which the seed option's action seeds"), fi.key)
            elif via_parse and parse_time:
                n_ok += 1
                R.ok("SEED-ORDER", inst + "; the seed option seeds in its own parse action (%s), before sub-command arguments are processed" % parse_time, fi.key)
            else:
                R.bad(F("SEED-ORDER", fi, "%s: random consumer before seeding" % mod.split(".")[-1],
                        "`%s` can draw from the global random generator (%s) on a path where random.seed(<--seed>) has not run yet%s: the same "
                        "command line and seed give different output" % (src(c)[:50], " -> ".join(chain[:6]),
                                                                        " (graph arguments are materialised while parsing)" if via_parse else ""),
                        s, witness=chain))
        if not risky:
            raise AnalysisError("%s.cli: no call reaching a random consumer found (rule would pass vacuously)" % mod)
        # seeding present at all
        if not seeds and not parse_time:
            R.bad(F("SEED-ORDER", fi, "%s never seeds" % mod, "the tool never calls random.seed with its --seed option"))
    R.floor("SEED-ORDER", len([o for o in R.obligations if o["rule"] == "SEED-ORDER"]), 4)


def seed_action(prog, mod):
    """name of the Action class of the --seed option if its __call__ seeds the generator with the parsed value"""
    m = prog.module(mod)
    for fi in m.functions.values():
        for c in [x for x in walk_shallow(fi.node) if isinstance(x, ast.Call) and method_name(x) == "add_argument"]:
            if any(const(a) == "--seed" for a in c.args):
                act = kwarg(c, "action")
                if act is None or isinstance(const(act), str):
                    return None
                r = prog.resolve_expr(m, act)
                if isinstance(r, ClassInfo):
                    call = prog.lookup_method(r, "__call__")
                    if call is not None:
                        vals = call.params[3] if len(call.params) > 3 else None
                        for x in walk_shallow(call.node):
                            if isinstance(x, ast.Call) and call_name(x) == "random.seed" and x.args and src(x.args[0]) == vals:
                                return r.name
    return None


def check_seed_truthy(R, prog):
    n = 0
    for fi in prog.all_functions():
        for s in stmts_in(fi.node):
            tests = [s.test] if isinstance(s, (ast.If, ast.While)) else []
            for v in [x for x in ast.walk(s) if isinstance(x, ast.IfExp)] if not isinstance(s, (ast.If, ast.While, ast.For, ast.Try, ast.With, ast.FunctionDef, ast.ClassDef)) else []:
                tests.append(v.test)
            for t in tests:
                atoms = t.values if isinstance(t, ast.BoolOp) else [t]
                for a in atoms:
                    base = a.operand if isinstance(a, ast.UnaryOp) and isinstance(a.op, ast.Not) else a
                    if isinstance(base, (ast.Attribute, ast.Name)) and src(base).split(".")[-1] == "seed":
                        n += 1
                        R.bad(F("SEED-TRUTHY", fi, "%s tests `%s` for truth" % (fi.qualname, src(base)),
                                "`%s` is tested for truth: seed 0 (a legal integer seed) is treated as `no seed`, so --seed 0 does not make the "
                                "output reproducible; compare with None" % src(base), s))
                    if isinstance(a, ast.Compare) and len(a.ops) == 1 and src(a.left).split(".")[-1] == "seed" and \
                            isinstance(a.ops[0], (ast.Is, ast.IsNot)) and isinstance(a.comparators[0], ast.Constant) and a.comparators[0].value is None:
                        n += 1
                        R.ok("SEED-TRUTHY", "%s: `%s`" % (fi.qualname, src(a)), fi.key)
    R.floor("SEED-TRUTHY", n, 10)


def check_seed_param(R, prog, res, consumers):
    memo = {}
    n = 0
    for fi in prog.all_functions():
        if "seed" not in fi.params or fi.cls is not None:
            continue
        n += 1
        cfg = CFG(fi.node)
        stmts = stmts_in(fi.node)
        guard = [s for s in stmts if isinstance(s, ast.If) and src(s.test) == "seed is not None" and
                 any(isinstance(x, ast.Expr) and isinstance(x.value, ast.Call) and call_name(x.value) == "random.seed" and
                     [src(a) for a in x.value.args] == ["seed"] for x in s.body)]
        if not guard:
            R.bad(F("SEED-PARAM", fi, "%s ignores its seed" % fi.qualname, "a function with a `seed` parameter must run `if seed is not None: "
                    "random.seed(seed)` (seeding the global generator all other components use)"))
            continue
        gn = cfg.node_of(guard[0])
        first_bad = None
        for s in stmts:
            if s is guard[0] or any(s is x for y in guard[0].body for x in ast.walk(y)):
                continue
            for c in [x for x in ast.walk(s) if isinstance(x, ast.Call)] if not isinstance(s, (ast.If, ast.For, ast.While, ast.Try, ast.With, ast.FunctionDef)) else \
                    [x for h in ([s.test] if isinstance(s, (ast.If, ast.While)) else ([s.iter] if isinstance(s, ast.For) else [])) for x in ast.walk(h) if isinstance(x, ast.Call)]:
                direct = (call_name(c) or "") in RANDOM_CONSUMERS | NX_RANDOM
                ts, _ = res.targets(fi, c)
                ind = any(reaches_consumer(res, t, consumers, memo) for t in ts if t is not fi)
                if direct or ind:
                    sn = cfg.node_of(s)
                    if sn is not None and not cfg.dominates(gn, sn):
                        first_bad = (s, c)
        if first_bad:
            R.bad(F("SEED-PARAM", fi, "%s draws before seeding" % fi.qualname, "`%s` can run before `random.seed(seed)`" % src(first_bad[1])[:50], first_bad[0]))
        else:
            R.ok("SEED-PARAM", "%s seeds the global generator before its first draw on every path" % fi.qualname, fi.key)
    R.floor("SEED-PARAM", n, 8)


def check_single_rng(R, prog):
    bad = 0
    for fi in prog.all_functions():
        for c in [x for x in walk_shallow(fi.node) if isinstance(x, ast.Call)]:
            n = call_name(c) or ""
            if any(n == f or n.startswith(f) for f in FOREIGN_RNG):
                bad += 1
                R.bad(F("SINGLE-RNG", fi, "%s uses %s" % (fi.qualname, n),
                        "`%s` is a source of randomness other than the global generator seeded from --seed: with seed=None (the way the "
                        "command line tools call library code) it is seeded from the system, so the output is not reproducible" % src(c)[:60], c))
            if n in NX_RANDOM or n.split(".")[-1] in ("gnp_random_graph", "gnm_random_graph", "random_regular_graph"):
                sd = kwarg(c, "seed")
                if sd is not None and not (isinstance(sd, ast.Constant) and sd.value is None) and src(sd) != "seed":
                    bad += 1
                    R.bad(F("SINGLE-RNG", fi, "%s passes seed=%s to networkx" % (fi.qualname, src(sd)), "a fixed or foreign seed detaches this generator from --seed", c))
    for m in prog.modules.values():
        for name, imp in m.imports.items():
            target = imp[1] if imp[0] == "module" else imp[1] + "." + imp[2]
            if target.split(".")[0] in ("numpy", "secrets", "uuid"):
                bad += 1
                R.bad(F("SINGLE-RNG", None, "%s imports %s" % (m.name, target), "module %s brings in another randomness source" % target, module=m.name))
    if not bad:
        R.ok("SINGLE-RNG", "the global `random` generator (and networkx with seed=None) is the only randomness source in the package", "cnfgen")


def check_ambient(R, prog, res):
    n = 0
    for fi in prog.all_functions():
        if fi.module.name == "cnfgen.utils.solver":
            continue        # the solver bridge talks to external programs by design; it produces no formula text
        for c in [x for x in walk_shallow(fi.node) if isinstance(x, ast.Call)]:
            nm = call_name(c) or ""
            what = AMBIENT.get(nm)
            if nm.startswith("subprocess."):
                what = "external process"
            if what is None:
                continue
            if nm.startswith("os.path.") and c.args and "__file__" in src(c.args[0]):
                continue        # the location of the package itself, whatever the working directory
            n += 1
            key = (fi.module.name, fi.qualname)
            inst = "%s: %s (%s)" % (fi.qualname, nm, what)
            if key in AMBIENT_OK:
                R.ok("NO-AMBIENT", inst + " -- " + AMBIENT_OK[key], fi.key, nontrivial=False)
            elif fi.module.name == "cnfgen.info" and nm.startswith("subprocess."):
                cwd = kwarg(c, "cwd")
                if cwd is not None and "__file__" in src(cwd):
                    R.ok("NO-AMBIENT", inst + " pinned to the package directory (cwd=...__file__...)", fi.key)
                else:
                    R.bad(F("NO-AMBIENT", fi, "version lookup depends on the working directory",
                            "`%s` runs in the current working directory: the `generator` header line names the commit of whatever "
                            "repository the tool is started from" % src(c)[:60], c))
            elif nm in ("id", "hash"):
                R.bad(F("NO-AMBIENT", fi, "%s uses %s()" % (fi.qualname, nm), "%s() differs between processes and may reach the output" % nm, c))
            else:
                R.bad(F("NO-AMBIENT", fi, "%s reads %s" % (fi.qualname, what), "`%s` makes the result depend on the %s" % (src(c)[:50], what), c))
    R.floor("NO-AMBIENT", n, 3)


def check_obj_repr(R, prog):
    """values known to be graph objects (result of X.normalize(..), graph constructors) must not be formatted into text"""
    graph_classes = set()
    for c in prog.all_classes():
        if c.module.name == "cnfgen.graphs":
            has = any(prog.lookup_method(c, m) is not None for m in ("__str__", "__repr__", "__format__"))
            if not has:
                graph_classes.add(c.name)
    n = 0
    for fi in prog.all_functions():
        if not (fi.module.name.startswith("cnfgen.families") or fi.module.name.startswith("cnfgen.clihelpers") or
                fi.module.name.startswith("cnfgen.transformations") or fi.module.name.startswith("cnfgen.clitools")):
            continue
        objs = set()
        for s in stmts_in(fi.node):
            if isinstance(s, ast.Assign) and len(s.targets) == 1 and isinstance(s.targets[0], ast.Name) and isinstance(s.value, ast.Call):
                cn = call_name(s.value) or ""
                head = cn.split(".")[0]
                if (cn.endswith(".normalize") and head in graph_classes) or cn in graph_classes or cn.endswith(".from_networkx") and head in graph_classes:
                    objs.add(s.targets[0].id)
        if not objs:
            continue
        for node in walk_shallow(fi.node):
            args = []
            if isinstance(node, ast.Call) and method_name(node) == "format" and isinstance(node.func.value, (ast.Constant, ast.Name)):
                args = list(node.args) + [k.value for k in node.keywords]
            elif isinstance(node, ast.BinOp) and isinstance(node.op, ast.Mod) and isinstance(node.left, ast.Constant) and isinstance(node.left.value, str):
                args = list(node.right.elts) if isinstance(node.right, ast.Tuple) else [node.right]
            elif isinstance(node, ast.JoinedStr):
                args = [v.value for v in node.values if isinstance(v, ast.FormattedValue)]
            elif isinstance(node, ast.Call) and call_name(node) in ("str", "repr") and node.args:
                args = [node.args[0]]
            elif isinstance(node, ast.BinOp) and isinstance(node.op, ast.Add) and isinstance(node.left, ast.Constant) and isinstance(node.left.value, str):
                args = [node.right]
            for a in args:
                n += 1
                if isinstance(a, ast.Name) and a.id in objs:
                    R.bad(F("NO-OBJ-REPR", fi, "%s formats graph object `%s`" % (fi.qualname, a.id),
                            "`%s` is a graph object of a class without __str__/__repr__: formatting it prints `<... object at 0x...>`, an "
                            "address that changes from run to run (use its .name)" % a.id, node))
    R.count("format arguments examined", n)
    if not any(f.rule == "NO-OBJ-REPR" for f in R.findings):
        R.ok("NO-OBJ-REPR", "no graph object (classes %s have no __str__/__repr__) is formatted into header text" % sorted(graph_classes), "cnfgen")
    R.floor("NO-OBJ-REPR format arguments", n, 40)


def check_hash_order(R, prog):
    n = 0
    bad = 0
    sites = 0
    control = []
    import types as _types
    ctl = ast.parse("def control(xs):\n    seen = set(xs)\n    out = []\n    for x in seen:\n        out.append(x)\n    return out\n").body[0]
    for fi in list(prog.all_functions()) + [_types.SimpleNamespace(node=ctl, qualname="<positive control>")]:
        is_control = fi.node is ctl
        sets = set()
        setlists = set()
        for s in stmts_in(fi.node):
            if isinstance(s, ast.Assign) and len(s.targets) == 1 and isinstance(s.targets[0], ast.Name):
                v = s.value
                if isinstance(v, (ast.Set, ast.SetComp)) or (isinstance(v, ast.Call) and call_name(v) in ("set", "frozenset")):
                    sets.add(s.targets[0].id)
                if isinstance(v, ast.List) and v.elts and all(isinstance(e, (ast.Set, ast.SetComp)) or
                                                                (isinstance(e, ast.Call) and call_name(e) in ("set", "frozenset")) for e in v.elts):
                    setlists.add(s.targets[0].id)
                if isinstance(v, ast.Call) and method_name(v) in ("union", "intersection", "difference", "symmetric_difference") and \
                        isinstance(v.func.value, ast.Call) and call_name(v.func.value) in ("set", "frozenset"):
                    sets.add(s.targets[0].id)
            if isinstance(s, ast.Assign) and len(s.targets) == 1 and isinstance(s.targets[0], ast.Subscript) and isinstance(s.targets[0].value, ast.Name):
                v = s.value
                base = v.func.value if isinstance(v, ast.Call) and method_name(v) in ("union", "intersection", "difference", "symmetric_difference") else v
                if isinstance(base, (ast.Set, ast.SetComp)) or (isinstance(base, ast.Call) and call_name(base) in ("set", "frozenset")) or \
                        (isinstance(base, ast.Name) and base.id in sets):
                    setlists.add(s.targets[0].value.id)          # a slot of this container holds a set from here on
        def is_set(e):
            if isinstance(e, ast.Name) and e.id in sets:
                return True
            if isinstance(e, (ast.Set, ast.SetComp)) or (isinstance(e, ast.Call) and call_name(e) in ("set", "frozenset")):
                return True
            if isinstance(e, ast.Call) and method_name(e) in ("union", "intersection", "difference", "symmetric_difference") and \
                    is_set(e.func.value):
                return True
            if isinstance(e, ast.BinOp) and isinstance(e.op, (ast.BitAnd, ast.BitOr, ast.BitXor, ast.Sub)):
                # set algebra; dict views (`a.keys() & b.keys()`) give a set as well
                def setlike(x):
                    return is_set(x) or (isinstance(x, ast.Call) and method_name(x) in ("keys", "items") and not x.args)
                if setlike(e.left) or (setlike(e.right) and not isinstance(e.op, ast.Sub)):
                    return True
            if isinstance(e, ast.Subscript) and isinstance(e.value, ast.Name) and e.value.id in setlists:
                return True
            if isinstance(e, ast.Attribute) and e.attr == "edgeset":
                return True
            return False
        for node in walk_shallow(fi.node):
            its = []
            if isinstance(node, ast.For):
                its = [node.iter]
            elif isinstance(node, ast.comprehension):
                its = [node.iter]
            elif isinstance(node, ast.Call) and call_name(node) in ("list", "tuple", "enumerate", "iter", "next", "zip", "map"):
                its = list(node.args)
            elif isinstance(node, ast.Call) and method_name(node) == "pop" and is_set(node.func.value):
                its = [node.func.value]
            sites += len(its) if not is_control else 0
            for it in its:
                target = it
                if isinstance(it, ast.Call) and call_name(it) in ("enumerate", "list", "tuple", "iter") and it.args:
                    target = it.args[0]
                if is_set(target) and is_control:
                    control.append(node)
                elif is_set(target):
                    n += 1
                    bad += 1
                    R.bad(F("NO-HASH-ORDER", fi, "%s iterates over a set" % fi.qualname,
                            "`%s` is a set and `%s` takes its elements in hash order: for string elements the order changes with "
                            "PYTHONHASHSEED (sort it, or keep a list)" % (src(target), src(node)[:50] if not isinstance(node, ast.comprehension) else src(it)), node if not isinstance(node, ast.comprehension) else it))
        for sname in sorted(sets | setlists):
            n += 0 if is_control else 1
    # every comprehension loop
    for fi in prog.all_functions():
        for node in ast.walk(fi.node):
            pass
    if not bad:
        R.ok("NO-HASH-ORDER", "sets are used for membership only: none is iterated, popped or listed (%d set-valued names examined)" % n, "cnfgen")
    if not control:
        raise AnalysisError("NO-HASH-ORDER: the positive control (a loop over a local set) was not recognised: the rule is blind")
    R.count("iteration constructs examined for set operands", sites)
    R.floor("NO-HASH-ORDER iteration constructs", sites, 300)
    R.floor("NO-HASH-ORDER sets", n, 1)
