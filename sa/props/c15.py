"""C15 -- graph constructions on the command line deliver the structure they name."""
import ast

from ..loader import AnalysisError, walk_shallow, FuncInfo
from ..cfg import CFG
from ..astutil import src, call_name, method_name, const, is_const, stmts_in, target_names
from ..guards import constraints_when, has, facts_before, lower_bound, upper_bound
from ..effects import handler_types
from ..ql import ev, Unknown
from ..report import Result, Finding

P = "C15"
GB = "cnfgen.clitools.graph_build"
GA = "cnfgen.clitools.graph_args"
GR = "cnfgen.graphs"


def F(rule, fi, construct, msg, node=None):
    return Finding(P, rule, fi, construct, msg, node=node)


def run(prog, tier):
    R = Result(P, "EXT-PRE: at every call of networkx.random_regular_graph(d, n) the function's own guards imply 0 <= d < n and n*d even.  "
               "ARG-PRE: the assertions of each obtain_* construction imply the preconditions of the sampler it calls (degree <= right side, "
               "m <= L*R, m <= N(N-1)/2, clique <= order ...).  SAMPLE-SEQ: the population of every random.sample is a sequence (range, "
               "list, parts()), never a generator expression / set / dict.  SAMPLER-MUST-ADD: in the slot-filling regular sampler every path "
               "through one iteration adds an edge or leaves the function.  EXACT-M: count gates dominate sampling; the fallback that "
               "guarantees the requested count follows the retry loop and asks for exactly the missing amount; splitedges replaces each "
               "chosen edge by two through one new vertex.  SAVE-LAST: `save` writes the graph after every modify_* step and nothing "
               "changes it afterwards.  OBTAIN-GUARD-SIBLING: every obtain_* / modify_* converts (TypeError, ValueError, AssertionError) "
               "from argument parsing into ValueError.  REGISTRY: every construction / option name resolves to a function and is handled.  "
               "COUNT-FORMULA: documented vertex counts of pyramid / tree / path.  Uniformity of the samplers and the edge lists of "
               "grid / torus (networkx) are not decided.")
    R.trust("networkx.random_regular_graph(d, n) requires 0 <= d < n and n*d even, else NetworkXError",
            "random.sample needs a sequence population (TypeError otherwise on Python >= 3.11) and k <= len(population)",
            "networkx.gnm_random_graph(n, m) returns exactly min(m, n(n-1)/2) edges; gnp / grid_graph / complete_multipartite_graph as documented")
    check_ext_pre(R, prog)
    check_arg_pre(R, prog)
    check_sample_seq(R, prog)
    check_must_add(R, prog)
    check_exact_m(R, prog)
    check_save_last(R, prog)
    check_guard_sibling(R, prog)
    check_registry(R, prog)
    check_count_formula(R, prog)
    check_edge_side(R, prog)
    from ._families import borrow as _borrow
    from . import c16 as _c16
    _borrow(R, P, "GRAPH", prog, _c16.analyse, floor=100)
    from ._shared import check_iterator_reuse
    check_iterator_reuse(R, prog, P, ['cnfgen.graphs', 'cnfgen.clitools'], 100)
    # 'save' stores the very graph the formula is built from: the in-house writers / readers round trip (C14, folded)
    from . import _graphio_fold as _gio
    rt = _gio.verdict(prog)
    anchor = prog.func('cnfgen.graphs', 'writeGraph')
    if rt[0] is False:
        R.bad(F('SAVE-ROUND-TRIP', anchor, 'kthlist / dimacs / matrix round trip', rt[1]))
    elif rt[0] is True:
        R.ok('SAVE-ROUND-TRIP', rt[1], anchor.key)
    return R


# ---------------------------------------------------------------------------- preconditions
def asserted(fi):
    """constraints established by the assert statements / raising guards of a function (whole function, flow-insensitive but
    only from statements that dominate the function's last statement)"""
    cons = []
    for s in stmts_in(fi.node):
        if isinstance(s, ast.Assert):
            cons += constraints_when(s.test, True)
        elif isinstance(s, ast.If) and s.body and isinstance(s.body[0], ast.Raise) and not s.orelse:
            cons += constraints_when(s.test, False)
        elif isinstance(s, ast.Expr) and isinstance(s.value, ast.Call) and s.value.args:
            from ..guards import VALIDATOR_LOWER
            nm = (call_name(s.value) or "").split(".")[-1]
            if nm in VALIDATOR_LOWER:
                cons.append((src(s.value.args[0]), ">=", "", VALIDATOR_LOWER[nm]))
    return cons


def check_ext_pre(R, prog):
    n = 0
    for fi in prog.all_functions():
        for c in [x for x in walk_shallow(fi.node) if isinstance(x, ast.Call)]:
            if (call_name(c) or "").endswith("random_regular_graph") and len(c.args) >= 2:
                n += 1
                d, nn = src(c.args[0]), src(c.args[1])
                cons = asserted(fi)
                lt = has(cons, d, "<=", nn, -1) or has(cons, nn, ">=", d, 1)
                nonneg = has(cons, d, ">=", "", 0)
                def parity_test(t):
                    txt = src(t).replace(" ", "").replace("(", "").replace(")", "")
                    return txt in ("%s*%s%%2==1" % (nn, d), "%s*%s%%2==1" % (d, nn), "%s*%s%%2!=0" % (nn, d), "%s*%s%%2!=0" % (d, nn))
                parity = False
                for s in stmts_in(fi.node):
                    if isinstance(s, ast.If) and s.body and isinstance(s.body[0], ast.Raise):
                        tests = s.test.values if isinstance(s.test, ast.BoolOp) and isinstance(s.test.op, ast.Or) else [s.test]
                        if any(parity_test(t) for t in tests):
                            parity = True
                inst = "%s: random_regular_graph(%s, %s)" % (fi.qualname, d, nn)
                if lt and nonneg and parity:
                    R.ok("EXT-PRE", inst + " guarded by 0 <= d < n and n*d even", fi.key)
                else:
                    miss = []
                    if not lt:
                        miss.append("%s < %s (the guards admit %s == %s)" % (d, nn, d, nn))
                    if not nonneg:
                        miss.append("%s >= 0" % d)
                    if not parity:
                        miss.append("%s*%s even" % (nn, d))
                    R.bad(F("EXT-PRE", fi, inst, "the guards of this function do not imply %s: networkx raises NetworkXError, which nothing "
                            "up the call chain converts into an error message" % " and ".join(miss), c))
    R.floor("EXT-PRE", n, 2)


ARG_PRE = {
    # obtain function: [(lhs, rel, rhs, off, meaning)]
    "obtain_gnm": [("m", ">=", "", 0, "m >= 0"), ("n", ">=", "", 1, "N > 0")],
    "obtain_glrm": [("edges", ">=", "", 0, "m >= 0"), ("edges", "<=", "left * right", 0, "m <= L*R"), ("left", ">=", "", 1, "L > 0"), ("right", ">=", "", 1, "R > 0")],
    "obtain_glrd": [("degree", ">=", "", 0, "d >= 0"), ("degree", "<=", "right", 0, "d <= R (each left vertex gets d distinct right neighbours)"),
                    ("left", ">=", "", 1, "L > 0"), ("right", ">=", "", 1, "R > 0")],
    "obtain_bipartite_regular": [("degree", ">=", "", 0, "d >= 0"), ("degree", "<=", "right", 0, "d <= R (each left vertex gets d distinct right neighbours)"),
                                 ("left", ">=", "", 1, "L > 0"), ("right", ">=", "", 1, "R > 0")],
    "obtain_glrp": [("p", ">=", "", 0, "p >= 0"), ("p", "<=", "", 1, "p <= 1"), ("left", ">=", "", 1, "L > 0"), ("right", ">=", "", 1, "R > 0")],
    "obtain_gnp": [("p", ">=", "", 0, "p >= 0"), ("p", "<=", "", 1, "p <= 1"), ("n", ">=", "", 1, "N > 0")],
    "obtain_gnd": [("n", ">=", "", 1, "N > 0"), ("d", ">=", "", 1, "d > 0")],
    "obtain_complete_bipartite": [("left", ">=", "", 1, "L > 0"), ("right", ">=", "", 1, "R > 0")],
    "obtain_empty_bipartite": [("left", ">=", "", 1, "L > 0"), ("right", ">=", "", 1, "R > 0")],
    "obtain_tree": [("height", ">=", "", 0, "h >= 0")], "obtain_pyramid": [("height", ">=", "", 0, "h >= 0")],
    "obtain_path": [("length", ">=", "", 0, "L >= 0")],
    "modify_simple_graph_plantclique": [("cliquesize", ">=", "", 0, "k >= 0"), ("cliquesize", "<=", "G.order()", 0, "k <= |V|")],
    "modify_bipartite_graph_plantbiclique": [("cliqueleft", ">=", "", 0, "A >= 0"), ("cliqueright", ">=", "", 0, "B >= 0"),
                                             ("cliqueleft", "<=", "len(left)", 0, "A <= |left|"), ("cliqueright", "<=", "len(right)", 0, "B <= |right|")],
    "modify_graph_addedges": [("k", ">=", "", 0, "m >= 0")],
    "modify_graph_splitedges": [("k", ">=", "", 0, "k >= 0")],
}


def check_arg_pre(R, prog):
    for name, needs in sorted(ARG_PRE.items()):
        fi = prog.func(GB, name)
        cons = asserted(fi)
        for lhs, rel, rhs, off, meaning in needs:
            ok = has(cons, lhs, rel, rhs, off)
            if not ok and rhs and " * " in rhs:
                a, b = rhs.split(" * ")
                ok = has(cons, lhs, rel, "%s * %s" % (b, a), off)
            inst = "%s requires %s" % (name, meaning)
            if ok:
                R.ok("ARG-PRE", inst, fi.key)
            else:
                R.bad(F("ARG-PRE", fi, inst, "the construction is only defined for %s, but the argument check of %s does not establish it: an "
                        "impossible request is not refused with a message (or a legal one is refused)" % (meaning, name)))
    # gnm upper bound and the divisibility of 'regular'
    fi = prog.func(GB, "obtain_gnm")
    if any(isinstance(s, ast.Assert) and src(s.test) in ("m <= n * (n - 1) // 2", "m <= n * (n - 1) / 2") for s in stmts_in(fi.node)):
        R.ok("ARG-PRE", "obtain_gnm requires m <= N(N-1)/2", fi.key)
    else:
        R.bad(F("ARG-PRE", fi, "obtain_gnm requires m <= N(N-1)/2", "gnm must refuse more edges than a simple graph on N vertices has"))
    fi = prog.func(GB, "obtain_bipartite_regular")
    if any(isinstance(s, ast.Assert) and src(s.test).replace("(", "").replace(")", "") in ("degree * left % right == 0", "left * degree % right == 0")
           for s in stmts_in(fi.node)):
        R.ok("ARG-PRE", "obtain_bipartite_regular requires R | L*d (regular on the right side too)", fi.key)
    else:
        R.bad(F("ARG-PRE", fi, "obtain_bipartite_regular divisibility", "regularity on both sides needs R to divide L*d"))
    # the callee really receives the validated values, in the right order
    calls = {"obtain_glrm": ("bipartite_random_m_edges", ["left", "right", "edges"]), "obtain_glrd": ("bipartite_random_left_regular", ["left", "right", "degree"]),
             "obtain_bipartite_regular": ("bipartite_random_regular", ["left", "right", "degree"]), "obtain_glrp": ("bipartite_random", ["left", "right", "p"]),
             "obtain_gnm": ("networkx.gnm_random_graph", ["n", "m"]), "obtain_gnd": ("networkx.random_regular_graph", ["d", "n"]),
             "obtain_tree": ("dag_complete_binary_tree", ["height"]), "obtain_pyramid": ("dag_pyramid", ["height"]), "obtain_path": ("dag_path", ["length"]),
             "obtain_complete_bipartite": ("CompleteBipartiteGraph", ["left", "right"]), "obtain_empty_bipartite": ("BipartiteGraph", ["left", "right"]),
             "modify_graph_addedges": ("add_random_missing_edges", ["G", "k"]), "modify_graph_splitedges": ("split_random_edges", ["G", "k"])}
    for name, (callee, args) in sorted(calls.items()):
        fi = prog.func(GB, name)
        cs = [c for c in walk_shallow(fi.node) if isinstance(c, ast.Call) and call_name(c) == callee]
        if len(cs) == 1 and [src(a) for a in cs[0].args] == args:
            R.ok("ARG-PRE", "%s -> %s(%s)" % (name, callee, ", ".join(args)), fi.key)
        else:
            R.bad(F("ARG-PRE", fi, "%s call of %s" % (name, callee), "expected %s(%s); found %s" % (callee, ", ".join(args), [src(c) for c in cs])))


def check_sample_seq(R, prog):
    n = 0
    for fi in prog.all_functions():
        env = {}
        for s in stmts_in(fi.node):
            if isinstance(s, ast.Assign) and len(s.targets) == 1:
                for t in ([s.targets[0]] if isinstance(s.targets[0], ast.Name) else []):
                    env.setdefault(t.id, []).append(s.value)
                if isinstance(s.targets[0], ast.Tuple) and isinstance(s.value, ast.Call) and method_name(s.value) == "parts":
                    for t in s.targets[0].elts:
                        if isinstance(t, ast.Name):
                            env.setdefault(t.id, []).append(ast.parse("range(1)", mode="eval").body)
        for c in [x for x in walk_shallow(fi.node) if isinstance(x, ast.Call) and call_name(x) in ("random.sample", "sample")]:
            if not c.args:
                continue
            n += 1
            pop = c.args[0]
            vals = env.get(pop.id, [pop]) if isinstance(pop, ast.Name) else [pop]
            # a population produced by a function defined in the repository: the kind of what each definition returns
            expanded = []
            for v in vals:
                if isinstance(v, ast.Call) and isinstance(v.func, ast.Name):
                    top = fi
                    while top.parent is not None:
                        top = top.parent
                    defs = [d for d in ast.walk(top.node) if isinstance(d, ast.FunctionDef) and d.name == v.func.id]
                    rets = [r.value for d in defs for r in ast.walk(d) if isinstance(r, ast.Return) and r.value is not None]
                    if rets:
                        expanded += rets
                        continue
                expanded.append(v)
            vals = expanded
            verdicts = [seq_kind(v) for v in vals]
            inst = "%s: random.sample(%s, ..)" % (fi.qualname, src(pop)[:40])
            if any(v is False for v in verdicts):
                badv = [v for v, k in zip(vals, verdicts) if k is False][0]
                R.bad(F("SAMPLE-SEQ", fi, inst, "the population `%s` is %s: random.sample needs a sequence and raises TypeError"
                        % (src(pop), "a generator expression" if isinstance(badv, ast.GeneratorExp) else "a set / dict"), c))
            elif all(v is True for v in verdicts):
                R.ok("SAMPLE-SEQ", inst + " samples from a sequence", fi.key)
            else:
                R.unknown("SAMPLE-SEQ", inst, fi.key, "population type not established")
    R.floor("SAMPLE-SEQ", n, 10)


def seq_kind(v):
    if isinstance(v, (ast.List, ast.ListComp, ast.Tuple)):
        return True
    if isinstance(v, (ast.GeneratorExp, ast.Set, ast.SetComp, ast.Dict, ast.DictComp)):
        return False
    if isinstance(v, ast.BinOp) and isinstance(v.op, (ast.BitAnd, ast.BitOr, ast.BitXor, ast.Sub)):
        l, r = seq_kind(v.left), seq_kind(v.right)
        if l is False or r is False or (isinstance(v.right, ast.Attribute) and v.right.attr == "edgeset") or \
                (isinstance(v.left, ast.Attribute) and v.left.attr == "edgeset"):
            return False          # set algebra gives a set
    if isinstance(v, ast.BinOp) and isinstance(v.op, (ast.Add, ast.Mult)):
        l = seq_kind(v.left)
        return l if l is not None else seq_kind(v.right)
    if isinstance(v, ast.Call):
        n = call_name(v) or ""
        if n in ("range", "list", "sorted", "tuple") or n.endswith(".vertices"):
            return True
        if n in ("set", "dict", "frozenset") or n in ("map", "filter", "zip", "iter"):
            return False
    return None


# ---------------------------------------------------------------------------- samplers
def check_must_add(R, prog):
    fi = prog.func(GR, "bipartite_random_regular")
    cfg = CFG(fi.node)
    loops = [s for s in fi.node.body if isinstance(s, ast.For)]
    if not loops:
        raise AnalysisError("bipartite_random_regular: slot loop not found")
    lp = loops[-1]
    h = cfg.node_of(lp)
    adds = [cfg.node_of(s) for s in stmts_in(fi.node) if isinstance(s, ast.Expr) and isinstance(s.value, ast.Call) and method_name(s.value) == "add_edge"]
    adds = [a for a in adds if a is not None]
    # can an iteration of the slot loop come back to the loop header without passing an add_edge?
    starts = [m for m, lab in h.succ if lab == "iter"]
    skip = any(st is h or cfg.reaches(st, h, avoid=adds) for st in starts if st not in adds)
    if skip:
        R.bad(F("SAMPLER-MUST-ADD", fi, "slot loop can skip a slot",
                "a path through one iteration of the slot loop returns to the loop header without adding an edge (retries exhausted, a free "
                "pair exists but is not used): the result has fewer edges than a regular graph needs", lp))
    else:
        R.ok("SAMPLER-MUST-ADD", "every iteration of the slot loop adds an edge or leaves the function (restart)", fi.key)
    # the edge added in the fallback uses the pair the search found, and the swap keeps used slots in the prefix
    t = src(fi.node)
    if t.count("A[i], A[ea] = (A[ea], A[i])") >= 1 and t.count("B[i], B[eb] = (B[eb], B[i])") >= 1:
        R.ok("SAMPLER-MUST-ADD", "used endpoints are swapped into the prefix [0, i] on every add", fi.key)
    else:
        R.unknown("SAMPLER-MUST-ADD", "prefix swap", fi.key, "swap idiom not recognised")
    g = [s for s in fi.node.body if isinstance(s, ast.If) and s.body and isinstance(s.body[0], ast.Raise)]
    tests = [src(s.test) for s in g]
    if "l * d % r != 0" in tests or "(l * d) % r != 0" in tests:
        R.ok("SAMPLER-MUST-ADD", "bipartite_random_regular refuses when r does not divide l*d", fi.key)
    else:
        R.bad(F("SAMPLER-MUST-ADD", fi, "divisibility gate", "regularity on the right needs r | l*d"))


def _shape_exact_m(R, prog):
    # bipartite_random_m_edges
    fi = prog.func(GR, "bipartite_random_m_edges")
    cfg = CFG(fi.node)
    cons = asserted(fi)
    stmts = stmts_in(fi.node)
    if has(cons, "m", "<=", "L * R", 0) and has(cons, "m", ">=", "", 0):
        R.ok("EXACT-M", "bipartite_random_m_edges refuses m outside 0..L*R before sampling", fi.key)
    else:
        R.bad(F("EXACT-M", fi, "bipartite_random_m_edges gate", "0 <= m <= L*R must be checked (ValueError) before sampling"))
    dense = [c for c in walk_shallow(fi.node) if isinstance(c, ast.Call) and call_name(c) == "random.sample"]
    if dense and src(dense[0].args[1]) == "m":
        R.ok("EXACT-M", "dense branch: exactly m distinct pairs sampled from all L*R pairs", fi.key)
    else:
        R.bad(F("EXACT-M", fi, "dense branch size", "the dense branch must sample exactly m pairs"))
    wl = [s for s in stmts if isinstance(s, ast.While)]
    if wl and src(wl[0].test) == "count < m" and "count += 1" in src(wl[0]) and "if not G.has_edge(u, v):" in src(wl[0]):
        R.ok("EXACT-M", "sparse branch: loops until m new edges were added (only unseen pairs counted)", fi.key)
    else:
        R.bad(F("EXACT-M", fi, "sparse branch loop", "the sparse branch must count only newly added pairs until m is reached"))
    # add_random_missing_edges
    fi = prog.func(GR, "add_random_missing_edges")
    cfg = CFG(fi.node)
    stmts = stmts_in(fi.node)
    goal = [s for s in stmts if isinstance(s, ast.Assign) and src(s.targets[0]) == "goal"]
    gate = [s for s in stmts if isinstance(s, ast.If) and src(s.test) == "goal > total_number_of_edges" and isinstance(s.body[0], ast.Raise)]
    loop = [s for s in fi.node.body if isinstance(s, ast.For)]
    fb = [s for s in fi.node.body if isinstance(s, ast.If) and src(s.test) == "G.number_of_edges() < goal"]
    ok_goal = goal and src(goal[0].value) in ("G.number_of_edges() + m", "m + G.number_of_edges()")
    if ok_goal and gate and loop and cfg.edge_dominates(cfg.node_of(gate[0]), False, cfg.node_of(loop[-1])):
        R.ok("EXACT-M", "add_random_missing_edges: goal = edges + m; more than the missing edges is refused before sampling", fi.key)
    else:
        R.bad(F("EXACT-M", fi, "add_random_missing_edges gate", "goal = G.number_of_edges() + m and `goal > total -> ValueError` must precede sampling"))
    okfb = False
    if fb and loop and fi.node.body.index(fb[0]) > fi.node.body.index(loop[-1]):
        smp = [c for x in fb[0].body for c in ast.walk(x) if isinstance(c, ast.Call) and call_name(c) == "random.sample"]
        if smp and src(smp[0].args[0]) == "available_edges()" and src(smp[0].args[1]) == "goal - G.number_of_edges()":
            okfb = True
    if okfb:
        R.ok("EXACT-M", "add_random_missing_edges: after the retry loop the still missing goal - edges are sampled from the available pairs", fi.key)
    else:
        R.bad(F("EXACT-M", fi, "add_random_missing_edges fallback",
                "when the retry loop ends short of the goal, exactly `goal - G.number_of_edges()` of the available pairs must be added "
                "(sampling m again adds too many, or asks for more than exist)", fb[0] if fb else None))
    lt = src(loop[-1]) if loop else ""
    if "if G.number_of_edges() >= goal:" in lt and "if not G.has_edge(u, v):" in lt:
        R.ok("EXACT-M", "add_random_missing_edges: the retry loop stops at the goal and only adds absent edges", fi.key)
    else:
        R.bad(F("EXACT-M", fi, "add_random_missing_edges retry loop", "the retry loop must stop at the goal and add only absent edges"))
    tot = [src(s.value) for s in stmts if isinstance(s, ast.Assign) and src(s.targets[0]) == "total_number_of_edges" and not (isinstance(s.value, ast.Constant))]
    if sorted(tot) == sorted(["len(Left) * len(Right)", "V * (V - 1) / 2"]) or sorted(tot) == sorted(["len(Left) * len(Right)", "V * (V - 1) // 2"]):
        R.ok("EXACT-M", "capacity: L*R for bipartite graphs, V(V-1)/2 for simple graphs", fi.key)
    else:
        R.bad(F("EXACT-M", fi, "capacity formulas", "total edges must be |L|*|R| resp. V(V-1)/2; found %s" % tot))
    # split_random_edges
    fi = prog.func(GR, "split_random_edges")
    t = src(fi.node)
    stmts = stmts_in(fi.node)
    gate = any(isinstance(s, ast.If) and src(s.test) == "k > G.number_of_edges()" and isinstance(s.body[0], ast.Raise) for s in stmts)
    body_ok = "tosplit = random.sample(list(G.edges()), k)" in t and "G.update_vertex_number(nv + k)" in t and "x = nv + 1" in t
    lp = [s for s in fi.node.body if isinstance(s, ast.For) and src(s.iter) == "tosplit"]
    loop_ok = lp and [src(x) for x in lp[0].body] == ["G.remove_edge(u, v)", "G.add_edge(u, x)", "G.add_edge(x, v)", "x += 1"]
    if gate and body_ok and loop_ok:
        R.ok("EXACT-M", "split_random_edges: k <= edges, k distinct edges, k new vertices nv+1..nv+k, each edge (u,v) -> (u,x),(x,v)", fi.key)
    else:
        R.bad(F("EXACT-M", fi, "split_random_edges", "splitting k edges must refuse k > |E|, pick k distinct edges, add k vertices and replace each "
                "chosen edge (u,v) by (u,x),(x,v) with a fresh x"))


def check_save_last(R, prog):
    fi = prog.func(GA, "obtain_graph")
    cfg = CFG(fi.node)
    stmts = stmts_in(fi.node)
    wr = [s for s in stmts if isinstance(s, ast.Expr) and isinstance(s.value, ast.Call) and call_name(s.value) == "writeGraph"]
    if len(wr) != 1:
        R.bad(F("SAVE-LAST", fi, "save step", "exactly one writeGraph call expected in obtain_graph"))
        return
    w = wr[0]
    wn = cfg.node_of(w)
    gname = src(w.value.args[0])
    mods = [s for s in stmts if isinstance(s, ast.Assign) and isinstance(s.value, ast.Call) and (call_name(s.value) or "").startswith("modify_")]
    R.count("modify steps", len(mods))
    late = [m for m in mods if cfg.reaches(wn, cfg.node_of(m))]
    if late:
        R.bad(F("SAVE-LAST", fi, "graph modified after save",
                "`%s` can run after the graph was written by `save`: the saved file is not the graph the formula is built from"
                % src(late[0].value)[:50], late[0]))
    else:
        R.ok("SAVE-LAST", "all %d modify_* steps precede the save" % len(mods), fi.key)
    after = [s for s in stmts if cfg.node_of(s) is not None and cfg.reaches(wn, cfg.node_of(s)) and s is not w]
    bad = [s for s in after if not isinstance(s, (ast.Assert, ast.Return))]
    if bad:
        R.bad(F("SAVE-LAST", fi, "statement after save", "after saving only `return G` may follow; found `%s`" % src(bad[0])[:50], bad[0]))
    else:
        R.ok("SAVE-LAST", "nothing but `return %s` follows the save" % gname, fi.key)
    rets = [s for s in stmts if isinstance(s, ast.Return)]
    if rets and all(src(r.value) == gname for r in rets) and [src(a) for a in w.value.args] == [gname, "savefilename", "graphtype", "saveformat"]:
        R.ok("SAVE-LAST", "the object saved is the object returned; saved with the graph type and the requested format", fi.key)
    else:
        R.bad(F("SAVE-LAST", fi, "saved object", "writeGraph must receive the returned graph, the file name, the graph type and the format"))
    # each option is applied when present
    need = {"plantclique": "modify_simple_graph_plantclique", "plantbiclique": "modify_bipartite_graph_plantbiclique",
            "addedges": "modify_graph_addedges", "splitedges": "modify_graph_splitedges"}
    for opt, fn in need.items():
        ok = any(isinstance(s, ast.If) and src(s.test) == "'%s' in parsed" % opt and any(isinstance(x, ast.Assign) and isinstance(x.value, ast.Call)
                                                                                       and call_name(x.value) == fn for x in s.body) for s in stmts)
        if ok:
            R.ok("REGISTRY", "option %s -> %s" % (opt, fn), fi.key)
        else:
            R.bad(F("REGISTRY", fi, "option %s" % opt, "option %r must be applied by %s" % (opt, fn)))


def check_guard_sibling(R, prog):
    m = prog.module(GB)
    n = 0
    for q, fi in sorted(m.functions.items()):
        if not (q.startswith("obtain_") or q.startswith("modify_")) or q in ("obtain_grid", "obtain_torus"):
            continue
        n += 1
        tries = [t for t in walk_shallow(fi.node) if isinstance(t, ast.Try)]
        good = False
        for t in tries:
            for h in t.handlers:
                if set(handler_types(h)) >= {"TypeError", "ValueError"} and h.body and isinstance(h.body[0], ast.Raise) and "ValueError" in src(h.body[0]):
                    has_assert = any(isinstance(x, ast.Assert) for b in t.body for x in ast.walk(b))
                    if not has_assert or "AssertionError" in handler_types(h):
                        good = True
        if good:
            R.ok("OBTAIN-GUARD-SIBLING", "%s converts argument errors (TypeError, ValueError, AssertionError) into ValueError" % q, fi.key)
        else:
            R.bad(F("OBTAIN-GUARD-SIBLING", fi, "%s argument errors" % q, "argument parsing must be wrapped: (TypeError, ValueError, AssertionError) -> "
                    "ValueError with the usage message (a sibling construction does it)"))
    R.floor("OBTAIN-GUARD-SIBLING", n, 20)


def check_registry(R, prog):
    m = prog.module(GA)
    cons = m.globals.get("constructions")
    if not isinstance(cons, ast.Dict):
        raise AnalysisError("constructions registry not found")
    n = 0
    for gt, inner in zip(cons.keys, cons.values):
        for k, v in zip(inner.keys, inner.values):
            n += 1
            t = prog.resolve_global(m, src(v))
            if isinstance(t, FuncInfo):
                R.ok("REGISTRY", "%s construction %r -> %s" % (const(gt), const(k), t.qualname), m.name, nontrivial=False)
            else:
                R.bad(F("REGISTRY", None, "construction %r" % const(k), "registry entry %s does not resolve to a function" % src(v), module=m.name))
    R.floor("REGISTRY", n, 20)
    want = {"gnp": "obtain_gnp", "gnm": "obtain_gnm", "gnd": "obtain_gnd", "grid": "obtain_grid", "torus": "obtain_torus", "complete": None, "empty": None,
            "path": "obtain_path", "tree": "obtain_tree", "pyramid": "obtain_pyramid", "glrp": "obtain_glrp", "glrm": "obtain_glrm", "glrd": "obtain_glrd",
            "regular": "obtain_bipartite_regular", "shift": "obtain_bipartite_shift"}
    for gt, inner in zip(cons.keys, cons.values):
        for k, v in zip(inner.keys, inner.values):
            w = want.get(const(k))
            if w and src(v) != w:
                R.bad(F("REGISTRY", None, "construction %r of %s" % (const(k), const(gt)), "the name %r must build %s, not %s" % (const(k), w, src(v)), module=m.name))


def check_count_formula(R, prog):
    specs = {"dag_pyramid": ("height", lambda h: (h + 1) * (h + 2) // 2), "dag_complete_binary_tree": ("height", lambda h: 2 ** (h + 1) - 1),
             "dag_path": ("length", lambda h: h + 1)}
    for name, (p, f) in specs.items():
        fi = prog.func(GR, name)
        env = {}
        ctor = None
        for s in fi.node.body:
            if isinstance(s, ast.Assign) and isinstance(s.targets[0], ast.Name):
                if isinstance(s.value, ast.Call) and call_name(s.value) == "DirectedGraph":
                    ctor = s.value
                else:
                    env[s.targets[0].id] = s.value
        if ctor is None:
            raise AnalysisError("%s: DirectedGraph constructor not found" % name)
        try:
            ok = all(ev(ctor.args[0], dict(env, **{p: h})) == f(h) for h in range(0, 8))
        except Unknown:
            ok = None
        if ok:
            R.ok("COUNT-FORMULA", "%s builds a DirectedGraph on the documented number of vertices" % name, fi.key)
        elif ok is False:
            R.bad(F("COUNT-FORMULA", fi, "%s vertex count" % name, "the vertex count expression %s does not give the documented count" % src(ctor.args[0])))
        else:
            R.unknown("COUNT-FORMULA", name, fi.key, "vertex count not foldable")
        g = [s for s in fi.node.body if isinstance(s, ast.If) and src(s.test) == "%s < 0" % p and isinstance(s.body[0], ast.Raise)]
        if g:
            R.ok("COUNT-FORMULA", "%s refuses a negative %s" % (name, p), fi.key, nontrivial=False)
        else:
            R.bad(F("COUNT-FORMULA", fi, "%s negative %s" % (name, p), "a negative %s must be refused with ValueError" % p))


# ---------------------------------------------------------------------------- which side does an endpoint come from
def check_edge_side(R, prog):
    """EDGE-SIDE: in a function that builds `G = BipartiteGraph(a, b)`, the first argument of every G.add_edge is a left vertex
    (a value in 1..a) and the second a right vertex (1..b).  Sides are followed through G.parts(), loops, samples, list
    repetition, indexing, randint / range bounds, `divmod` decoding of a pair index and 0-based -> 1-based shifts.  A known wrong
    side is a finding (transposed / out-of-range edges); an endpoint whose side cannot be followed is left undecided."""
    n = 0
    m = prog.modules["cnfgen.graphs"]
    for q, fi in sorted(m.functions.items()):
        ctor = None
        for st in stmts_in(fi.node):
            if isinstance(st, ast.Assign) and len(st.targets) == 1 and isinstance(st.targets[0], ast.Name) and isinstance(st.value, ast.Call) \
                    and call_name(st.value) == "BipartiteGraph" and len(st.value.args) >= 2:
                ctor = (st.targets[0].id, src(st.value.args[0]), src(st.value.args[1]))
        if ctor is None or ctor[1] == ctor[2]:
            continue
        g, a, b = ctor
        env = {}          # name -> ('elem'|'list'|'pairs'|'pairlist'|'index', side[, base]) ; side 'L'/'R', base 0 or 1

        def dim(text):
            return "L" if text == a else ("R" if text == b else None)

        def kind(e):
            """('elem', side, base) | ('list', side) | ('pair', s1, s2) | ('pairlist', s1, s2) | ('index',) | None"""
            if isinstance(e, ast.Name):
                return env.get(e.id)
            if isinstance(e, ast.Call):
                cn = call_name(e) or ""
                if cn in ("sorted", "list", "tuple", "iter", "reversed") and e.args:
                    return kind(e.args[0])
                if cn in ("random.sample",) and e.args:
                    return kind(e.args[0])
                if cn == "random.choice" and e.args:
                    k = kind(e.args[0])
                    return ("elem", k[1], 1) if k and k[0] == "list" else (("pair", k[1], k[2]) if k and k[0] == "pairlist" else None)
                if cn in ("random.randint",) and len(e.args) == 2:
                    lo, hi = src(e.args[0]), src(e.args[1])
                    if lo == "1" and dim(hi):
                        return ("elem", dim(hi), 1)
                    if lo == "0" and hi.endswith(" - 1") and dim(hi[:-4]):
                        return ("elem", dim(hi[:-4]), 0)
                if cn == "range":
                    if len(e.args) == 2 and src(e.args[0]) == "1" and src(e.args[1]).endswith(" + 1") and dim(src(e.args[1])[:-4]):
                        return ("list", dim(src(e.args[1])[:-4]), 1)
                    if len(e.args) == 1 and dim(src(e.args[0])):
                        return ("list", dim(src(e.args[0])), 0)
                    if len(e.args) == 1 and src(e.args[0]) in ("%s * %s" % (a, b), "%s * %s" % (b, a)):
                        return ("indexlist",)
                if cn == "divmod" and len(e.args) == 2:
                    k = kind(e.args[0])
                    d = dim(src(e.args[1]))
                    if k == ("index",) and d:
                        other = "R" if d == "L" else "L"
                        return ("pair0", other, d)       # quotient < (a*b)/X  = size of the other side, remainder < X
            if isinstance(e, ast.BinOp) and isinstance(e.op, ast.Mult):
                k = kind(e.left)
                if k and k[0] == "list":
                    return k
            if isinstance(e, ast.Subscript):
                k = kind(e.value)
                if k and k[0] == "list":
                    return ("elem", k[1], k[2] if len(k) > 2 else 1)
            if isinstance(e, ast.BinOp) and isinstance(e.op, ast.Add):
                for x, y in ((e.left, e.right), (e.right, e.left)):
                    if src(y) == "1":
                        k = kind(x)
                        if k and k[0] == "elem" and k[2] == 0:
                            return ("elem", k[1], 1)
                        if isinstance(x, ast.BinOp) and isinstance(x.op, ast.Mod) and dim(src(x.right)):
                            return ("elem", dim(src(x.right)), 1)
            if isinstance(e, ast.ListComp) and isinstance(e.elt, ast.Tuple) and len(e.elt.elts) == 2 and len(e.generators) == 2:
                sides = {}
                for gen in e.generators:
                    k = kind(gen.iter)
                    if k and k[0] == "list" and isinstance(gen.target, ast.Name):
                        sides[gen.target.id] = k[1]
                s1, s2 = [sides.get(src(x)) for x in e.elt.elts]
                if s1 and s2:
                    return ("pairlist", s1, s2)
            return None

        def bind(target, k):
            if k is None:
                return
            if isinstance(target, ast.Name):
                env[target.id] = k
            elif isinstance(target, ast.Tuple) and len(target.elts) == 2 and k[0] in ("pair", "pair0"):
                base = 0 if k[0] == "pair0" else 1
                for t, sd in zip(target.elts, k[1:3]):
                    if isinstance(t, ast.Name):
                        env[t.id] = ("elem", sd, base)
        verdicts = []          # (call, kinds) evaluated where the call stands, with the bindings made so far (source order)
        for st in stmts_in(fi.node):
            if not isinstance(st, (ast.For, ast.While, ast.If, ast.Try, ast.With, ast.FunctionDef)):
                for x in ast.walk(st):
                    if isinstance(x, ast.Call) and method_name(x) == "add_edge" and src(x.func.value) == g and len(x.args) == 2:
                        verdicts.append((x, [kind(y) for y in x.args]))
            if isinstance(st, ast.Assign) and len(st.targets) == 1:
                t, v = st.targets[0], st.value
                if isinstance(t, ast.Tuple) and isinstance(v, ast.Call) and method_name(v) == "parts" and src(v.func.value) == g and len(t.elts) == 2:
                    for x, sd in zip(t.elts, "LR"):
                        if isinstance(x, ast.Name):
                            env[x.id] = ("list", sd, 1)
                else:
                    bind(t, kind(v))
            elif isinstance(st, ast.For):
                k = kind(st.iter)
                if k and k[0] == "list":
                    bind(st.target, ("elem", k[1], k[2] if len(k) > 2 else 1))
                elif k and k[0] == "pairlist":
                    bind(st.target, ("pair", k[1], k[2]))
                elif k == ("indexlist",):
                    bind(st.target, ("index",))
        for c, ks in verdicts:
            n += 1
            sides = [(k[1], k[2]) if k and k[0] == "elem" else None for k in ks]
            inst = "%s: %s" % (q, src(c))
            wrong = [i for i, (sd, want) in enumerate(zip(sides, "LR")) if sd is not None and (sd[0] != want or sd[1] != 1)]
            if wrong:
                i = wrong[0]
                R.bad(F("EDGE-SIDE", fi, "%s endpoint %d of %s" % (q, i + 1, src(c)),
                        "`%s` is a %s vertex number (%s), but add_edge takes (left in 1..%s, right in 1..%s): the edge is transposed or "
                        "falls outside the bipartition whenever %s != %s" % (src(c.args[i]), {"L": "left", "R": "right"}[sides[i][0]],
                                                                               "1-based" if sides[i][1] == 1 else "0-based", a, b, a, b), c))
            elif all(sd is not None for sd in sides):
                R.ok("EDGE-SIDE", inst + "  (left, right)", fi.key)
            else:
                R.unknown("EDGE-SIDE", inst, fi.key, "side of an endpoint not followed")
    R.floor("EDGE-SIDE add_edge sites", n, 6)


# ---------------------------------------------------------------------------- bounded folding of the edge samplers
class _SeededRng:
    """stand-in for the random module: the analyser's own seeded generator (`stuck` makes sample() answer with the head of the
    population every time, so that a retry loop cannot make progress and the fallback branch is reached)"""

    def __init__(self, stuck=False, stuck_calls=None):
        import random as _r
        self.r, self.stuck = _r.Random(20240229), stuck
        self.stuck_calls = stuck_calls           # randint answers its lower bound for this many calls, then draws

    def sample(self, pop, k):
        if not isinstance(pop, (list, tuple, range, str)):
            raise TypeError("Population must be a sequence")
        pop = list(pop)
        if k > len(pop) or k < 0:
            raise ValueError
        return pop[:k] if self.stuck else self.r.sample(pop, k)

    def randint(self, a, b):
        if b < a:
            raise ValueError
        if self.stuck_calls:
            self.stuck_calls -= 1
            return a
        return self.r.randint(a, b)

    def choice(self, seq):
        seq = list(seq)
        if not seq:
            raise IndexError
        return seq[0] if self.stuck else self.r.choice(seq)

    def shuffle(self, lst):
        if not self.stuck:
            self.r.shuffle(lst)

    def random(self):
        return 0.0 if self.stuck else self.r.random()

    def seed(self, x=None):
        pass

    def __getattr__(self, name):
        from ..ql import Unknown
        raise Unknown("random.%s is not modelled" % name)


def semantic_samplers(prog):
    """-> {function name: (True | False | None, detail)} for bipartite_random_m_edges, add_random_missing_edges, split_random_edges:
    folded over stand-in graphs with the analyser's own seeded generator (and a `stuck` one that defeats retry loops): exactly the
    requested number of new, distinct, in-range edges; every old edge kept; the documented refusals"""
    import itertools
    from ..fold import Folder, Raised
    from ..ql import Unknown
    from .. import standins as S
    out = {}

    def nni(v, name="x"):
        if not isinstance(v, int) or isinstance(v, bool):
            raise TypeError(name)
        if v < 0:
            raise ValueError(name)

    def run(fname, args, stuck=False, budget=300000, stuck_calls=None):
        fi = prog.func(GR, fname)
        f = Folder(env={}, fuel=budget)
        rnd = _SeededRng(stuck, stuck_calls)
        f.module_functions = {fname: fi.node}
        f.globals = {"random": rnd, "BipartiteGraph": S.BipartiteGraph, "Graph": S.Graph, "DirectedGraph": S.DirectedGraph,
                     "BaseBipartiteGraph": S.BaseBipartiteGraph, "non_negative_int": nni, "positive_int": nni, "product": itertools.product,
                     "combinations": itertools.combinations}
        try:
            return ("value", f.call_function(fi.node, list(args), {}))
        except Raised as r:
            return ("raises", r.cls.split("(")[0])

    def guard(fname, body):
        try:
            out[fname] = body()
        except Unknown as e:
            out[fname] = (None, "cannot fold %s: %s" % (fname, e))

    def brm():
        cnt = 0
        for L, Rr in ((1, 1), (2, 3), (3, 3), (0, 2), (2, 0)):
            for m in range(-1, L * Rr + 2):
                what = "bipartite_random_m_edges(%d, %d, %d)" % (L, Rr, m)
                res = run("bipartite_random_m_edges", [L, Rr, m])
                invalid = L < 1 or Rr < 1 or m < 0 or m > L * Rr
                if invalid:
                    if res != ("raises", "ValueError"):
                        return False, "%s ends with %r; ValueError expected" % (what, res)
                else:
                    G = res[1] if res[0] == "value" else None
                    if not isinstance(G, S.BipartiteGraph) or (G.L, G.R) != (L, Rr) or G.number_of_edges() != m or \
                            len(set(G.edges())) != m or any(not (1 <= u <= L and 1 <= v <= Rr) for u, v in G.edges()):
                        return False, "%s gives %r; a bipartite graph on (%d, %d) vertices with exactly %d distinct edges expected" % (
                            what, (res[0], getattr(G, "edges", lambda: None)()), L, Rr, m)
                cnt += 1
        return True, "%d (L, R, m) instances folded" % cnt
    guard("bipartite_random_m_edges", brm)

    def arm():
        cnt = 0
        graphs = [lambda: S.Graph.make(4, [(1, 2), (3, 4)]), lambda: S.Graph.make(3, []), lambda: S.Graph.make(1, []),
                  lambda: S.BipartiteGraph.make(2, 3, [(1, 1), (2, 3)]), lambda: S.BipartiteGraph.make(2, 2, [(1, 1), (1, 2), (2, 1), (2, 2)])]
        for mk in graphs:
            G0 = mk()
            cap = (G0.L * G0.R if isinstance(G0, S.BipartiteGraph) else G0.n * (G0.n - 1) // 2) - G0.number_of_edges()
            for m in range(-1, cap + 2):
                for stuck in (False, True):
                    G = mk()
                    before = set(G.edges())
                    what = "add_random_missing_edges on a graph with edges %s, m=%d%s" % (sorted(before), m, " (retry loop making no progress)" if stuck else "")
                    res = run("add_random_missing_edges", [G, m], stuck)
                    if m < 0 or m > cap:
                        if res != ("raises", "ValueError") or set(G.edges()) != before:
                            return False, "%s ends with %r and the edges %s; ValueError and an unchanged graph expected" % (what, res, sorted(G.edges()))
                    else:
                        after = set(G.edges())
                        if res[0] != "value" or not before <= after or len(after) != len(before) + m or G.number_of_edges() != len(after):
                            return False, "%s ends with %r and the edges %s; the old edges plus exactly %d new ones expected" % (what, res[0], sorted(after), m)
                    cnt += 1
        return True, "%d (graph, m, generator) instances folded" % cnt
    guard("add_random_missing_edges", arm)

    def sre():
        cnt = 0
        for n, edges in ((4, [(1, 2), (2, 3), (3, 4), (1, 4)]), (3, [(1, 2)]), (2, [])):
            for k in range(-1, len(edges) + 2):
                for stuck in (False, True):
                    G = S.Graph.make(n, edges)
                    what = "split_random_edges on the graph with edges %s, k=%d" % (edges, k)
                    res = run("split_random_edges", [G, k], stuck)
                    if k < 0 or k > len(edges):
                        if res != ("raises", "ValueError") or sorted(G.edges()) != sorted(edges) or G.n != n:
                            return False, "%s ends with %r; ValueError and an unchanged graph expected" % (what, res)
                    else:
                        if res[0] != "value":
                            return False, "%s raises %s" % (what, res[1])
                        if G.n != n + k or G.number_of_edges() != len(edges) + k:
                            return False, "%s leaves %d vertices and %d edges; %d and %d expected" % (what, G.n, G.number_of_edges(), n + k, len(edges) + k)
                        gone = []
                        for x in range(n + 1, n + k + 1):
                            nb = G.neighbors(x)
                            if len(nb) != 2 or tuple(sorted(nb)) not in [tuple(sorted(e)) for e in edges] or G.has_edge(nb[0], nb[1]):
                                return False, "%s: the new vertex %d has neighbours %s; it must sit in the middle of one removed original edge" % (what, x, nb)
                            gone.append(tuple(sorted(nb)))
                        if len(set(gone)) != k or any(not G.has_edge(u, v) for u, v in edges if tuple(sorted((u, v))) not in gone):
                            return False, "%s: the split edges are %s; k distinct edges expected and every other edge kept" % (what, gone)
                    cnt += 1
        res = run("split_random_edges", [S.BipartiteGraph.make(1, 1, [(1, 1)]), 1])
        if res != ("raises", "TypeError"):
            return False, "split_random_edges on a bipartite graph ends with %r; TypeError expected" % (res,)
        return True, "%d (graph, k, generator) instances folded" % cnt
    guard("split_random_edges", sre)

    def brr():
        cnt = 0
        for l, r, d in ((2, 2, 1), (3, 3, 2), (4, 2, 1), (6, 3, 2), (2, 4, 2), (3, 3, 3), (0, 1, 0), (3, 2, 2), (2, 3, 1), (-1, 2, 1), (2, 2, -1), (4, 4, 0)):
            for stuck_calls in (None, 40, 150):
                what = "bipartite_random_regular(%d, %d, %d)%s" % (l, r, d, "" if not stuck_calls else " (the first %d draws all hit the first free slot)" % stuck_calls)
                res = run("bipartite_random_regular", [l, r, d], budget=900000, stuck_calls=stuck_calls)
                invalid = l < 0 or r < 0 or d < 0 or (l * d) % r != 0
                if invalid:
                    if res != ("raises", "ValueError"):
                        return False, "%s ends with %r; ValueError expected" % (what, res)
                elif d > r:
                    continue            # more edges per left vertex than right vertices: no simple graph; the function is not asked for it
                else:
                    G = res[1] if res[0] == "value" else None
                    if not isinstance(G, S.BipartiteGraph) or (G.L, G.R) != (l, r):
                        return False, "%s ends with %r" % (what, res)
                    ld = [G.right_degree(u) for u in range(1, l + 1)]
                    rd = [G.left_degree(v) for v in range(1, r + 1)]
                    if any(x != d for x in ld) or any(x != l * d // r for x in rd):
                        return False, "%s gives left degrees %s and right degrees %s; %d on the left and %d on the right expected" % (what, ld, rd, d, l * d // r)
                cnt += 1
        return True, "%d (l, r, d, generator) instances folded" % cnt
    guard("bipartite_random_regular", brr)
    return out


def check_exact_m(R, prog):
    from ..report import Result as _Result
    T = _Result(P, "")
    broken = None
    try:
        _shape_exact_m(T, prog)
    except AnalysisError as e:
        broken = e
    sem = semantic_samplers(prog)
    for fname, v in sorted(sem.items()):
        fi = prog.func(GR, fname)
        if v[0] is True:
            R.ok("EXACT-M", "%s: %s" % (fname, v[1]), fi.key)
        elif v[0] is False:
            R.bad(F("EXACT-M", fi, "%s adds exactly the requested edges" % fname, v[1]))
        else:
            R.unknown("EXACT-M", fname, fi.key, v[1])
    if broken is not None and not all(v[0] is True for v in sem.values()):
        raise broken
    for o in T.obligations:
        if o["status"] == "discharged":
            R.ok(o["rule"], o["instance"], o["where"], nontrivial=o["nontrivial"])
    for u in T.unproven:
        R.unknown(u["rule"], u["instance"], u["where"], u["why"])
    R.floors.extend(T.floors)
    for f_ in T.findings:
        if sem.get(f_.function, (None,))[0] is True:
            R.unknown(f_.rule, f_.construct, "%s:%s %s" % (f_.file, f_.line, f_.function),
                      "shape not recognised (%s); the meaning of the fragment was confirmed by folding" % f_.message[:100])
        else:
            R.bad(f_)
